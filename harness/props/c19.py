"""C19 - Discovery responder: bounded well-formed answers, unkillable by datagrams.

spec/Discovery.tla.  Binding (real frappy.protocol.discovery.UDPListener on a FakeUDP socket):
  spec -> code : Gen_Discovery/GBSpec enumerates every glyph-class sequence up to MaxLen with, per budget
                 MAX - O, the set of outcomes the property allows; each (sequence, budget) is concretised
                 with MAX_MESSAGE_LEN patched to measured overhead + budget and (shorter sequences) at the
                 real 508 with an equipment id padded so that overhead = 508 - budget; the constructor's outcome
                 and the messages of run() are compared with what TLC allows.
                 Gen_Discovery/GLSpec enumerates every datagram class sequence up to Depth with the expected
                 answers; replayed through run() with scripted recvfrom, compared after every datagram, a
                 final discover request proves the loop is still alive.
  server wiring: spec/DiscoveryServer.tla (which ports are open, which identity is current, restart, shutdown);
                 Gen_DiscoveryServer enumerates every interface list (tcp/ws) x boot, restart*, shutdown with a
                 fresh choice at every (re)start of which interfaces come up; harness/discworld.py runs the real frappy.server.Server (config file, run(), restart(),
                 shutdown(), real TCPServer/WSServer constructors) on a fake bind layer with the real UDPListener
                 thread on a threaded fake socket; a broadcast request after every operation shows who answers.
                 The responder thread can be held before its first statement / inside its first sendto, so that
                 restart and shutdown are also issued before it has run (two-step start in the spec).  Restart and
                 shutdown are torn down step by step (responder stop, one interface at a time) with a request
                 injected after every step: an answer never names a port that is already closed.
  code -> spec : seeded random descriptions (mixed scripts, escapes, lengths around the limit, real 508) and
                 random datagram byte strings are executed, recorded and validated by Trace_Discovery (TLC),
                 which names the failing clause.
"""
import json
import os
import random
import time
from concurrent.futures import ThreadPoolExecutor

from ..core import MachineryError, emit_behaviours, model_check, pool_map, run_tlc, sany, validate_traces
from ..env import boot

META = {
    'text': 'TLC model-checks the budget/truncation algorithm over glyph-width sequences (proposed design; the three '
            'as-implemented deviations are shown to fail) and the alive/dead receive loop; every glyph sequence up '
            'to the bound x every budget and every datagram class sequence up to the depth bound that TLC emits is '
            'executed on the real UDPListener (FakeUDP socket, real json/utf-8 arithmetic, also at the real 508) and '
            'compared with the outcomes TLC allows; recorded random executions are validated by TLC against '
            'Trace_Discovery. Exhaustive inside the bound (glyph classes, not code points). Server wiring '
            '(DiscoveryServer.tla): every list of up to 2 (thorough 3) tcp/ws interfaces that come up or fail x boot, '
            'restarts, shutdown is run through the real Server.run/restart/shutdown and interface constructors on a fake '
            'bind layer; after every operation a broadcast request must be answered once per TCP port open now, with '
            'the identity of now, and not at all after shutdown.',
    'note': 'Trusted: TLC; the alpha/gamma glue in harness/props/c19.py (FakeUDP, glyph classifier - calibrated against '
            'the implementation on every run, strict JSON/UTF-8 verdicts by the Python standard decoders). Outside the '
            'alphabet: lone surrogates in descriptions, sendto/recvfrom OS errors, real sockets, interfaces that come up '
            'after the 12 s start time-out or die while the node keeps serving.',
    'tech': 'TLA+ spec (Discovery.tla) + TLC model checking; spec->code replay of all TLC behaviours; '
            'code->spec TLC trace validation',
    'ref': 'DESIGN.md section 5 C19',
}

REAL_MAX = 508          # the number in the property statement
RECV_LIMIT = 1024

# ------------------------------------------------------------------ gamma tables

GLYPH_CHARS = {
    1: ['a', ' ', '~', '/', 'Z', '0'],      # + DEL unless ensure_ascii (see calibrate)
    2: ['"', '\\', '\n', '\r', '\t', '\b', '\f'],
    3: ['\x00', '\x01', '\x1f', '\x0b', '\x0e'],
    4: ['\u00e9', '\u0080', '\u07ff', '\u00df', '\u0416'],
    5: ['\u20ac', '\u0800', '\uffff', '\u2028', '\u4e2d', '\ufeff'],
    6: ['\U0001f604', '\U00010000', '\U0010ffff'],
}
WIDTHS = {False: {1: (1, 1), 2: (1, 2), 3: (1, 6), 4: (2, 2), 5: (3, 3), 6: (4, 4)},
          True: {1: (1, 1), 2: (1, 2), 3: (1, 6), 4: (2, 6), 5: (3, 6), 6: (4, 12)}}

EQ_IDS = ['eq', 'e"q\\n', 'équip€\U0001f604', '', 'x' * 40, 'ctl\x01\n']
# interface lists by (number of TCP ports, 5 - digits of the widest TCP port)
IFACES = {(0, 4): [['ws://8080'], []],
          (1, 0): [['tcp://10767'], ['tcp://65535', 'ws://8080']],
          (1, 4): [['ws://8010', 'tcp://1'], ['tcp://7']],
          (2, 0): [['tcp://10767', 'tcp://65535'], ['tcp://80', 'ws://8080', 'tcp://10000']],
          (2, 4): [['tcp://5', 'ws://8080', 'tcp://7']]}
SHAPES = sorted(IFACES)

NODE_MSG = json.dumps({'SECoP': 'node', 'port': 10767, 'equipment_id': 'eq', 'firmware': 'FRAPPY x',
                       'description': 'discover'}).encode()
DGRAMS = {
    'discover': [b'{"SECoP": "discover"}', b'{"SECoP":"discover"}', b' {\n "SECoP" :\t"discover"\n}\n',
                 b'{"SECoP":"\\u0064iscover"}', b'{"\\u0053ECoP":"discover"}', b'{"SECoP":"discover"}' + b' ' * 1004,
                 b' ' * 1004 + b'{"SECoP":"discover"}'],
    'object': [NODE_MSG, b'{}', b'{"SECoP":"Discover"}', b'{"secop":"discover"}', b'{"SECoP":1}', b'{"SECoP":null}',
               b'{"SECoP":["discover"]}', b'{"x":{"SECoP":"discover"}}', b'{"SECoP":"discover "}',
               b'{"SECoP":{"SECoP":"discover"}}', b'{"discover":"SECoP"}', b'{"SECoP":true}',
               b'{"SECoP":"discover\\n"}', b'{"SECoP ":"discover"}', b'{"SECOP":"discover","x":1}',
               b'{"x":"SECoP","y":"discover"}', b'{"request":{"SECoP":"discover"},"SECoP":"node"}',
               b'{"SECoP":"discovery","client":"scan-tool 2.1"}'],
    'number': [b'1', b'-2.5e3', b'0', b'1e400', b'12345678901234567890'],
    'null': [b'null', b' null '],
    'bool': [b'true', b'false'],
    'string': [b'"hello"', b'""', b'"SECoP"', b'"discover"', b'"xSECoPx"', b'"\\u00e9"'],
    'list': [b'[]', b'[1,2]', b'["SECoP"]', b'["SECoP","discover"]', b'[{"SECoP":"discover"}]',
             b'[' * 400 + b']' * 400, b'[null]'],
    'badutf8': [b'\xff', b'{"SECoP":"discover\xff"}', b'\xc3', b'{"SECoP": "discover"}\x80', b'\xed\xa0\x80',
                b'\xc0\xaf', b'"\xe2\x82"', b'\xf8\x88\x80\x80\x80'],
    'badjson': [b'{', b'{"SECoP":"discover"', b'discover', b"{'SECoP':'discover'}",
                b'{"SECoP":"discover"}{"SECoP":"discover"}', b'\xef\xbb\xbf{"SECoP":"discover"}', b'  ', b'\x00',
                b'{"SECoP":"discover",}', b'[' * 1000, b'{"a":' * 200, b'nul', b'\n'],
    'empty': [b''],
    'oversized': [b'x' * 2000, b'{"pad":"' + b'x' * 1500 + b'"}', b'\xff' * 1100, b'[' * 1100,
                  b'[' * 1000 + b']' * 1000, b'{"pad":"' + 'é'.encode() * 600 + b'"}',
                  b'{"pad":"x' + 'é'.encode() * 600 + b'"}', b'1' * 1025, b'"' + b's' * 1100 + b'"',
                  b' ' * 1025 + b'null', b'{"SECoP":"Xiscover"}' + b' ' * 1010, b'x' * 3000,
                  b'{"SECoP":"nope","pad":"' + b'p' * 3000 + b'"}', b'\xff' * 4000],
    # hundreds .. thousands of nested arrays / objects: within the receive buffer, and beyond it (1.5 - 4 kB)
    'deep': [b'[' * 1000, b'[' * 1024, b'[' * 512 + b']' * 512, b'{"a":' * 204, b' ' * 20 + b'[' * 1000,
             b'[' * 1010 + b']' * 14, b'[[1],' + b'[' * 1000],
    'oversized_deep': [b'[' * 1500, b'[' * 2000, b'[' * 4000, b'{"a":' * 800, b'[' * 1030 + b']' * 1030,
                       b'[' * 1600 + b']' * 1600, b'{"a":' * 400 + b'1' + b'}' * 400],
    # requests with other members next to "SECoP": "discover" - must be answered like the bare request
    'discover_extra': [b'{"SECoP":"discover","x":1}', b'{"a":null,"SECoP":"discover"}',
                       b'{"SECoP":"discover","client":"scan-tool 2.1","seq":7}',
                       b'{"seq": 7, "SECoP": "discover", "client": "scan-tool 2.1"}',
                       b'{"secop":"Discover","SECoP":"discover"}', b'{"SECoP":"discover","secop":"node"}',
                       b'{"SECoP":"discover","opts":{"SECoP":"node","list":[1,[2,{"a":null}]]}}',
                       b'{"ports":[10767,8080],"SECoP":"discover","\\u00e9":"\xc3\xa9"}',
                       b'{"SECoP":"discover","pad":"' + b'p' * 995 + b'"}',          # exactly the buffer size
                       b'{"pad":"' + b'p' * 600 + b'","SECoP":"discover","q":"' + b'q' * 380 + b'"}',
                       b' {"SECoP"\n:\t"discover" , "":"" } '],
    'oversized_discover': [b'{"SECoP":"discover"}' + b' ' * 1100, b' ' * 1100 + b'{"SECoP":"discover"}',
                           b'{"SECoP":"discover"}' + b' ' * 1010 + b'junk', b'{"SECoP":"discover"}' + b' ' * 3000],
}


ASCII_MODE = [False]     # json.dumps(ensure_ascii=True) also escapes DEL


def gclass(ch):
    o = ord(ch)
    if ch in '"\\\n\r\t\b\f':
        return 2
    if o < 0x20 or (o == 0x7f and ASCII_MODE[0]):
        return 3
    if o < 0x80:
        return 1
    if o < 0x800:
        return 4
    if 0xd800 <= o <= 0xdfff:
        return 0
    return 5 if o < 0x10000 else 6


def nesting(data):
    """maximal bracket nesting outside strings (what a recursive JSON decoder has to descend)"""
    depth = top = 0
    instr = esc = False
    for c in data:
        if instr:
            if esc:
                esc = False
            elif c == 0x5c:
                esc = True
            elif c == 0x22:
                instr = False
        elif c == 0x22:
            instr = True
        elif c in (0x5b, 0x7b):
            depth += 1
            top = max(top, depth)
        elif c in (0x5d, 0x7d):
            depth -= 1
    return top


def classify(data):
    """datagram bytes -> class of the specification (standard decoders decide utf-8 / JSON)"""
    if len(data) > RECV_LIMIT:
        a, b = _classify_small(data), _classify_small(data[:RECV_LIMIT])
        if {a, b} & {'discover', 'discover_extra'}:
            return 'oversized_discover'
        return 'oversized_deep' if nesting(data) >= 200 else 'oversized'
    c = _classify_small(data)
    return 'deep' if nesting(data) >= 200 and c in ('badjson', 'list', 'object') else c


def _classify_small(data):
    if not data:
        return 'empty'
    try:
        text = data.decode('utf-8')
    except UnicodeDecodeError:
        return 'badutf8'
    try:
        v = json.loads(text)
    except (ValueError, RecursionError):
        return 'badjson'
    if isinstance(v, dict):
        if v == {'SECoP': 'discover'}:
            return 'discover'
        return 'discover_extra' if v.get('SECoP') == 'discover' else 'object'
    if isinstance(v, bool):
        return 'bool'
    if isinstance(v, (int, float)):
        return 'number'
    return {str: 'string', list: 'list', type(None): 'null'}[type(v)]


def group(data):
    """coarse class of what the loop actually sees (the first 1024 bytes)"""
    c = _classify_small(data[:RECV_LIMIT])
    return 'json-nonobject' if c in ('number', 'string', 'list', 'null', 'bool') else c


# ------------------------------------------------------------------ fakes

class ScriptEnd(BaseException):
    """raised by the fake socket when the scripted datagrams are used up"""


class FakeUDP:
    last = None

    def __init__(self, *args, **kw):
        FakeUDP.last = self
        self.sent = []
        self.script = []
        self.marks = []
        self.calls = 0
        self.owner = None

    def setsockopt(self, *a):
        pass

    def bind(self, addr):
        self.bound = addr

    def settimeout(self, t):
        pass

    def recvfrom(self, bufsize, *flags):
        self.calls += 1
        if len(self.marks) >= len(self.script):
            if self.calls > len(self.script) + 3 and self.owner is not None:
                self.owner.running = False        # a handler that swallows even BaseException
            raise ScriptEnd()
        data, addr = self.script[len(self.marks)]
        self.marks.append(len(self.sent))
        return data[:bufsize], addr

    def sendto(self, data, *rest):
        self.sent.append((bytes(data), rest[-1]))
        return len(data)

    def shutdown(self, how):
        pass

    def close(self):
        pass


class FakeSocketModule:
    """what frappy.protocol.discovery sees as `socket`"""

    def __init__(self, real):
        self._real = real
        self.socket = FakeUDP
        self.error = real.error

    def __getattr__(self, name):
        return getattr(self._real, name)


class Log:
    def __getattr__(self, name):
        return lambda *a, **k: None

    def getChild(self, name):
        return self


_D = None
_ORIG_MAX = None


def disc():
    """the real module with the fake socket patched in"""
    global _D, _ORIG_MAX
    if _D is None:
        boot()
        import socket
        import frappy.protocol.discovery as D
        _ORIG_MAX = D.MAX_MESSAGE_LEN
        D.socket = FakeSocketModule(socket)
        _D = D
    return _D


_overhead = {}


def overhead(eq):
    """measured length of the message with empty description and a five digit port"""
    if eq not in _overhead:
        D = disc()
        D.MAX_MESSAGE_LEN = 10 ** 6
        _overhead[eq] = len(D.UDPListener(eq, '', ['tcp://1'], Log(), startup_broadcast=False)._getMessage(65535))
    return _overhead[eq]


def calibrate():
    """alpha/gamma self check: the glyph width table of the spec is the implementation's JSON encoding.
    returns ensure_ascii mode (selects the width table of Discovery.tla)"""
    D = disc()
    o = overhead('eq')
    D.MAX_MESSAGE_LEN = 10 ** 6

    def jsonwidth(ch):
        u = D.UDPListener('eq', ch + 'a' + ch, ['tcp://1'], Log(), startup_broadcast=False)
        return (len(u._getMessage(65535)) - o - 1) / 2
    mode = jsonwidth('\u00e9') != 2
    ASCII_MODE[0] = mode
    for g in GLYPH_CHARS:
        GLYPH_CHARS[g] = [c for c in GLYPH_CHARS[g] if c != '\x7f']
    GLYPH_CHARS[3 if mode else 1].append('\x7f')
    seen = {}
    for g, chars in GLYPH_CHARS.items():
        for ch in chars:
            if gclass(ch) != g:
                raise MachineryError(f'glyph classifier disagrees with the table for {ch!r}')
            seen.setdefault(g, set()).add((len(ch.encode('utf-8')), jsonwidth(ch)))
    if not all(seen[g] == {WIDTHS[mode][g]} for g in WIDTHS[mode]):
        raise MachineryError(f'glyph width table of Discovery.tla does not describe the JSON encoding of '
                             f'_getMessage: measured (raw, json) widths {seen}')
    return mode


# ------------------------------------------------------------------ alpha

def project_desc(got, orig):
    return [gclass(ch) if i < len(orig) and orig[i] == ch else 0 for i, ch in enumerate(got)]


def _strict_const(name):
    raise ValueError(name)


_STRICT = json.JSONDecoder(parse_constant=_strict_const)


def alpha_msg(raw, case, ports, ref_desc=None, sender=None, dest=None, with_glyphs=False):
    m = {'len': len(raw), 'utf8': True, 'json': True, 'obj': False, 'secop': False, 'eq': False, 'fw': False,
         'desc': False, 'port': 0, 'dest': 'none', 'same': False, 'g': []}
    if dest is not None:
        m['dest'] = 'sender' if dest == sender else 'bcast' if dest[0] == '255.255.255.255' else 'other'
    try:
        text = raw.decode('utf-8')
    except UnicodeDecodeError:
        m['utf8'] = m['json'] = False
        return m
    try:
        d = _STRICT.decode(text)
    except (ValueError, RecursionError):
        m['json'] = False
        return m
    if not isinstance(d, dict):
        return m
    m['obj'] = True
    m['secop'] = d.get('SECoP') == 'node'
    m['eq'] = d.get('equipment_id') == case['eq']
    m['fw'] = isinstance(d.get('firmware'), str)
    p = d.get('port')
    if type(p) is int and p in ports:
        m['port'] = ports.index(p) + 1
    ds = d.get('description')
    if isinstance(ds, str):
        m['desc'] = True
        m['same'] = ref_desc is None or ds == ref_desc
        if with_glyphs:
            m['g'] = project_desc(ds, case['desc'] or '')
        m['_desc'] = ds
    return m


# ------------------------------------------------------------------ execution of one responder life

PY311_DEPTH = 995      # CPython 3.6 .. 3.11: json's C scanner raises RecursionError at this nesting (measured with
#                        3.6, 3.7, 3.8, 3.9, 3.10, 3.11 at the default recursion limit; 3.12: 1497; 3.13: none)


class Json311:
    """what frappy.protocol.discovery sees as `json` when the case asks for interp='py311': the json module of
    this interpreter, except that decoding refuses deep nesting like the older interpreters frappy supports"""

    def __init__(self, real):
        self._real = real

    def __getattr__(self, name):
        return getattr(self._real, name)

    def loads(self, text, *a, **k):
        raw = text.encode('utf-8', 'surrogatepass') if isinstance(text, str) else bytes(text)
        depth = 0
        deep_at = None
        instr = esc = False
        for pos, c in enumerate(raw):
            if instr:
                if esc:
                    esc = False
                elif c == 0x5c:
                    esc = True
                elif c == 0x22:
                    instr = False
            elif c == 0x22:
                instr = True
            elif c in (0x5b, 0x7b):
                depth += 1
                if depth >= PY311_DEPTH:
                    deep_at = pos
                    break
            elif c in (0x5d, 0x7d):
                depth -= 1
        if deep_at is None:
            return self._real.loads(text, *a, **k)
        try:
            self._real.loads(text, *a, **k)
        except self._real.JSONDecodeError as e:
            if len(text[:e.pos].encode('utf-8', 'surrogatepass') if isinstance(text, str) else text[:e.pos]) < deep_at:
                raise                    # a syntax error is met before the decoder gets that deep
        raise RecursionError('maximum recursion depth exceeded while decoding a JSON array from a unicode string')


def execute(case):
    """case: eq, desc, ifaces, bcast, max (None = the real constant), script [[cls, hex]...]
    -> trace (list of events in the vocabulary of Trace_Discovery)"""
    D = disc()
    D.MAX_MESSAGE_LEN = _ORIG_MAX if case['max'] is None else case['max']
    mx = REAL_MAX if case['max'] is None else case['max']
    desc = case['desc'] or ''
    ports = [int(i.split('://')[1]) for i in case['ifaces'] if i.startswith('tcp')]
    widest = max(ports, default=0)
    ev = {'ev': 'build', 'o': overhead(case['eq']), 'max': mx, 'sl': 5 - len(str(widest)),
          'g': [gclass(c) for c in desc], 'nports': len(ports), 'bcast': case['bcast'], 'exc': '',
          'enabled': False, 'm': alpha_msg(b'', case, ports)}
    D.MAX_MESSAGE_LEN = _ORIG_MAX if case['max'] is None else case['max']
    trace = [ev]
    try:
        udp = D.UDPListener(case['eq'], case['desc'], list(case['ifaces']), Log(), startup_broadcast=case['bcast'])
        sock = udp.sock
        ev['enabled'] = bool(udp.is_enabled)
        ev['m'] = alpha_msg(udp._getMessage(widest), case, ports, with_glyphs=True)
    except Exception as e:
        ev['exc'] = type(e).__name__
        return trace
    ref = ev['m'].pop('_desc', None)
    if case['script'] is None:
        return trace
    script = [(bytes.fromhex(h), ('10.0.0.%d' % (i + 1), 30000 + i)) for i, (_, h) in enumerate(case['script'])]
    sock.script = script
    sock.owner = udp
    reason, exc = 'returned', ''
    real_json = D.json
    if case.get('interp') == 'py311':
        D.json = Json311(real_json)
    try:
        udp.run()
    except ScriptEnd:
        reason = 'script_end'
    except BaseException as e:      # whatever escapes the loop ends the responder thread
        reason, exc = 'raised', type(e).__name__
    finally:
        D.json = real_json
    marks = sock.marks + [len(sock.sent)]

    def msgs(lo, hi, sender):
        res = []
        for raw, dest in sock.sent[lo:hi]:
            m = alpha_msg(raw, case, ports, ref_desc=ref, sender=sender, dest=dest)
            m.pop('_desc', None)
            res.append(m)
        return res

    n = len(sock.marks)
    trace.append({'ev': 'start', 'msgs': msgs(0, marks[0], None), 'exc': exc if n == 0 else ''})
    for i in range(n):
        alive = sock.calls >= i + 2
        trace.append({'ev': 'dgram', 'cls': case['script'][i][0], 'msgs': msgs(marks[i], marks[i + 1], script[i][1]),
                      'alive': alive, 'exc': '' if alive else exc})
    trace.append({'ev': 'end', 'reason': reason, 'left': len(script) - n})
    return trace


def signature(clause, case, trace, l):
    """label of the failing input / history class (clause named by TLC or by the comparing driver)"""
    sig = {'module': 'Discovery', 'clause': clause}
    ev = trace[l - 1] if 0 < l <= len(trace) else {}
    if ev.get('ev') == 'dgram':
        sig['group'] = group(bytes.fromhex(case['script'][l - 3][1]))
        sig['exc'] = ev.get('exc', '')
        sig['interp'] = case.get('interp', 'native')
        if not clause.startswith('dgram.alive'):
            sig['cls'] = ev['cls']
    elif ev.get('ev') == 'build':
        g = trace[0]['g']
        sig['desc_escapes'] = any(x in (2, 3) for x in g)
        sig['desc_multibyte'] = any(x in (4, 5, 6) for x in g)
        if ev.get('exc'):
            sig['exc'] = ev['exc']
    elif ev.get('ev') in ('start', 'end'):
        sig['enabled'] = trace[0]['enabled']
        if ev.get('exc'):
            sig['exc'] = ev['exc']
    return sig


# ------------------------------------------------------------------ spec -> code: construction

def emit_construction(cfg, first):
    """Gen_Discovery/GBSpec -> (TLCResult, payload lines); a payload is the JSON text
    [glyphs, [[b, dis, lo0, hi0, lo4, hi4], ...]], parsed by the replay workers (the generic reader of core
    is too slow for millions of lines)"""
    r = run_tlc('Gen_Discovery', cfg, workers=1, timeout=1100, heap='2g',
                env={'DISCOVERY_FIRST': str(first)} if first else None)
    if r.violated or not r.ok:
        raise MachineryError(f'behaviour emission Gen_Discovery/{cfg} failed: {r.violated or r.error}\n{r.out[-2000:]}')
    # TLC prints <<"BEH", "[[..]]">> on one line or wrapped after the tag
    lines = [line[line.index('"[[') + 1:line.rindex('"')] for line in r.out.splitlines()
             if line.endswith('>>') and '"[[' in line]
    r.out = ''
    if len(lines) != r.distinct:
        raise MachineryError(f'behaviour emission Gen_Discovery/{cfg}: {len(lines)} lines for {r.distinct} states')
    return r, lines


def _pad_eq(target):
    """equipment id such that the measured overhead is `target`"""
    n = target - overhead('')
    if n < 0:
        return None
    eq = 'p' * n
    return eq if overhead(eq) == target else None


def concretise(g, salt):
    return ''.join(GLYPH_CHARS[x][(salt + 3 * i) % len(GLYPH_CHARS[x])] for i, x in enumerate(g))


DISCOVER = ['discover', b'{"SECoP": "discover"}'.hex()]


def build_case(g, b, mode, salt):
    desc = concretise(g, salt) or (None if salt & 2 else '')
    shape = SHAPES[(salt + b) % len(SHAPES)]
    ifs = IFACES[shape][salt % len(IFACES[shape])]
    if mode == 'patched':
        eq = EQ_IDS[salt % len(EQ_IDS)]
        return {'eq': eq, 'desc': desc, 'ifaces': ifs, 'bcast': bool(salt & 1), 'max': overhead(eq) + b,
                'script': [DISCOVER]}
    eq = _pad_eq(REAL_MAX - b)
    return {'eq': eq, 'desc': desc, 'ifaces': ifs, 'bcast': bool(salt & 1), 'max': None, 'script': [DISCOVER]}


def _build_clause(obs_en, r, g, dis, lo, hi):
    """compare with what TLC allows: None or the name of the clause of BuildOK that is broken"""
    if not obs_en:
        return None if dis else 'build.enabled_if_identity_fits'
    if lo > hi:
        return 'build.msg_len'                      # nothing fits: must be disabled
    if r != g[:len(r)]:
        return 'build.prefix'
    if len(r) > hi:
        return 'build.model_fits'
    if len(r) < lo:
        return 'build.unchanged_if_fits'
    return None


def _replay_build(item):
    idx, line, seed, real_upto = item
    g, exp = json.loads(line)
    bad = {}
    n = 0
    light = len(g) > 6                    # the two longest layers: constructor only, no run()
    modes = ['patched', 'real508'] if len(g) <= real_upto else ['patched']
    if len(g) > 7:
        exp = [e for k, e in enumerate(exp) if (k + idx) % 4 == 0]      # every fourth budget, rotating
    for b, dis, lo0, hi0, lo4, hi4 in exp:
        for mode in modes:
            salt = seed + idx + 7 * b + (0 if mode == 'patched' else 1)
            case = build_case(g, b, mode, salt)
            if case['eq'] is None:
                continue
            if light:
                case['script'] = None         # do not run()
            tr = execute(case)
            n += 1
            e = tr[0]
            lo, hi = {0: (lo0, hi0), 4: (lo4, hi4)}[e['sl']]
            if e['o'] + b != e['max']:
                raise MachineryError(f'gamma failed to realise budget {b}: {e["o"]} {e["max"]}')
            clause = 'build.no_exception' if e['exc'] else _build_clause(e['enabled'], e['m']['g'], g, dis, lo, hi)
            l = 1
            if clause is None and e['enabled']:
                if e['m']['len'] > e['max']:
                    clause = 'build.msg_len'
                elif not all(e['m'][k] for k in ('utf8', 'json', 'obj', 'secop', 'eq', 'fw', 'desc')):
                    clause = 'build.msg_wellformed'
            if clause is None:
                # the messages actually sent (announcement + answer to one request) obey the same bound
                for l, ev in enumerate(tr[1:], 2):
                    for m in ev.get('msgs', []):
                        if m['len'] > e['max']:
                            clause = ev['ev'] + '.msg_len'
                        elif not (m['utf8'] and m['json'] and m['obj'] and m['secop'] and m['eq'] and m['fw']
                                  and m['desc']):
                            clause = ev['ev'] + '.msg_wellformed'
                        elif not m['same']:
                            clause = ev['ev'] + '.desc_same'
                        if clause:
                            break
                    if ev['ev'] == 'dgram' and clause is None and e['enabled'] and \
                            (not ev['alive'] or len(ev['msgs']) != e['nports']):
                        clause = 'dgram.alive' if not ev['alive'] else 'dgram.one_answer_per_port'
                    if clause:
                        break
            if clause:
                sig = signature(clause, case, tr, l)
                key = json.dumps(sig, sort_keys=True)
                if key in bad:
                    bad[key]['count'] += 1
                else:
                    bad[key] = {'sig': sig, 'case': case, 'trace': tr, 'failed_at': l, 'count': 1,
                                'allowed': {'b': b, 'may_disable': bool(dis), 'prefix_len': [lo, hi]}}
    return n, list(bad.values()), g


# ------------------------------------------------------------------ spec -> code: receive loop

def loop_case(beh, idx, seed):
    salt = seed + idx
    shapes = [sh for sh in SHAPES if sh[0] == beh[0]['nports']]
    shape = shapes[salt % len(shapes)]
    script = []
    for i, st in enumerate(beh[1:]):
        v = DGRAMS[st['cls']]
        script.append([st['cls'], v[(salt + 5 * i) % len(v)].hex()])
    script.append(DISCOVER)
    return {'eq': EQ_IDS[salt % len(EQ_IDS)], 'desc': 'Sample énvironment "x"\n', 'max': None, 'bcast': True,
            'ifaces': IFACES[shape][(salt // 2) % len(IFACES[shape])], 'script': script,
            'interp': 'py311' if salt % 3 == 0 else 'native'}


def _msgs_ok(ev, mx):
    return all(m['len'] <= mx and m['utf8'] and m['json'] and m['obj'] and m['secop'] and m['eq'] and m['fw']
               and m['desc'] and m['same'] for m in ev['msgs'])


def _replay_loop(item):
    idx, beh, seed = item
    case = loop_case(beh, idx, seed)
    tr = execute(case)
    steps = beh + [{'act': 'dgram', 'cls': 'discover',
                    'exp': {'answers': beh[0]['exp']['announced'], 'alive': True}}]
    for i, st in enumerate(steps):
        l = i + 2
        ev = tr[l - 1] if l - 1 < len(tr) else {'ev': 'missing'}
        exp = st['exp']
        clause = None
        if ev['ev'] != st['act']:
            clause = 'dgram.alive'      # the loop ended before this datagram was read
            l = l - 1
        elif st['act'] == 'start':
            got = sorted(m['port'] for m in ev['msgs'])
            if not (set(got) <= set(exp['announced']) and len(set(got)) == len(got)):
                clause = 'start.port_listened'
            elif not _msgs_ok(ev, tr[0]['max']):
                clause = 'start.msg_wellformed'
        else:
            got = {'answers': sorted(m['port'] for m in ev['msgs']), 'alive': ev['alive']}
            if got['alive'] != exp['alive']:
                clause = 'dgram.alive'
            elif got['answers'] != sorted(exp['answers']):
                clause = 'dgram.answered_iff_discover' if bool(got['answers']) != bool(exp['answers']) \
                    else 'dgram.one_answer_per_port'
            elif not _msgs_ok(ev, tr[0]['max']):
                clause = 'dgram.msg_wellformed'
            elif any(m['dest'] != 'sender' for m in ev['msgs']):
                clause = 'dgram.to_sender'
        if clause:
            return {'sig': signature(clause, case, tr, l), 'case': case, 'trace': tr, 'failed_at': l,
                    'expected': exp, 'step': i}
    return None


# ------------------------------------------------------------------ server wiring (DiscoveryServer.tla)

SRV_DESCR = ['node', 'd\u00e9sc "q"\n\U0001f604', '', 'x' * 600]


def execute_server(case):
    """case: schemes [tcp|ws...], ups [[indices up] per (re)start], ops [restart|shutdown...], eq, descr, ...
    -> trace in the vocabulary of Trace_DiscoveryServer (one event per operation, each followed by a probe)"""
    import re
    from ..discworld import World
    D = disc()
    D.MAX_MESSAGE_LEN = _ORIG_MAX
    w = World(case, D.socket)
    acase = {'eq': case['eq'], 'desc': ''}
    sender = ('10.0.0.9', 40000)

    def idx(port):
        return w.ports.index(port) + 1 if port in w.ports else 0

    def project(msgs, answer):
        pairs, ok = [], True
        for raw, dest in msgs:
            m = alpha_msg(raw, acase, w.ports, sender=sender, dest=dest)
            mt = re.match(r'g(\d+) ', m.get('_desc', ''))
            full = mt is not None and w.descr(int(mt.group(1))).startswith(m['_desc'])    # maybe truncated
            pairs.append([int(mt.group(1)) if full else 0, m['port']])
            ok = ok and m['len'] <= REAL_MAX and all(m[k] for k in ('utf8', 'json', 'obj', 'secop', 'eq', 'fw', 'desc')) \
                and (not answer or m['dest'] == 'sender')
        return pairs, ok

    trace = []
    try:
        ops = ['boot'] + list(case['ops'])
        k = 0
        while k < len(ops) or w.pending():
            op = ops[k] if k < len(ops) else 'run'       # nothing stays held at the end
            k += 1
            if (op == 'run' and not w.pending()) or (op != 'run' and k > 1 and not w.thread.is_alive()):
                continue                                 # not enabled: nothing to release / the server has ended
            seen = {id(s_): len(s_.sent) for s_ in w.sockets}
            if op in ('boot', 'restart'):
                holds = case.get('holds') or []
                hold = holds[w.starts] if w.starts < len(holds) else ''
                getattr(w, op)(hold)
            else:
                getattr(w, op)()
            okt = True
            for st in (w.steps if op in ('restart', 'shutdown') else []):       # the tear-down, step by step
                answers, ok2 = project([(raw, dest) for _, raw, dest in st['msgs']], True)
                okt = okt and ok2
                te = {'ev': st['kind'], 'listening': sorted(idx(p) for p in st['listening']), 'announce': [],
                      'probed': st['probed'], 'unicast': [], 'answers': answers, 'ok': ok2, 'error': ''}
                if st['kind'] == 'close_iface':
                    te['i'] = idx(st['port'])
                trace.append(te)
            if op == 'run':         # sent by the released threads
                new = [m for s_ in w.sockets for m in s_.sent[seen.get(id(s_), 0):]]
            else:                   # announcements of the responder started by this operation
                new = [m for s_ in w.sockets if id(s_) not in seen for m in s_.sent]
            announce, ok1 = project(new, False)
            probed = not w.pending()
            unicast = []        # first one unicast request per socket of the reuse-port group, then a broadcast one
            ok3 = True
            for got in (w.probe_unicast(sender) if probed else []):
                pairs, okk = project([(raw, dest) for _, raw, dest in got], True)
                unicast.append(pairs)
                ok3 = ok3 and okk
            answers, ok2 = project([(raw, dest) for _, raw, dest in w.probe(sender)], True) if probed else ([], True)
            ok2 = ok2 and ok3
            ev = {'ev': op, 'listening': sorted(idx(p) for p in w.listening), 'announce': announce, 'probed': probed,
                  'unicast': unicast,
                  'answers': answers, 'ok': ok1 and ok2 and okt, 'error': w.error, 'responders': w.running_responders()}
            if op == 'boot':
                ev['cfg'] = list(case['schemes'])
            if op in ('boot', 'restart'):
                ev['up'] = sorted(case['ups'][w.starts - 1])
                ev['held'] = bool(w.sockets) and w.sockets[-1] in w.pending() and len(w.sockets) > len(seen)
            trace.append(ev)
            if w.error or (not w.thread.is_alive() and not w.pending()):
                break
    finally:
        w.close()
    return trace


def server_case(schemes, ups, ops, salt, holds=()):
    """holds: per (re)start '' | 'start' | 'send' - where the new responder thread is held until a 'run' op"""
    return {'schemes': list(schemes), 'ups': [sorted(u) for u in ups], 'ops': list(ops), 'holds': list(holds),
            'eq': EQ_IDS[salt % len(EQ_IDS)] or 'n',
            'descr': SRV_DESCR[salt % len(SRV_DESCR)], 'bare_main': bool(salt % 3 == 0), 'arg_main': bool(salt % 4 == 1),
            'salt': salt}


def _replay_server(item):
    idx, beh, seed = item
    steps = [s for s in beh if s['act'] != 'probe']
    starts = [s for s in steps if s['act'] in ('boot', 'restart')]
    schemes = beh[0]['cfg']
    # a thread can only be held inside sendto when it has something to announce
    holds = ['' if not s['held'] else
             'send' if (seed + idx + n) % 2 and any(schemes[i - 1] == 'tcp' for i in s['up']) else 'start'
             for n, s in enumerate(starts)]
    case = server_case(schemes, [s['up'] for s in starts],
                       [s['act'] for s in steps[1:] if s['act'] in ('restart', 'shutdown', 'run')], seed + idx, holds)
    tr = execute_server(case)
    # the behaviour and the execution as comparable items: an operation with the probe that follows it; the steps of
    # one tear-down as a set (their order and the answers in between are judged by TLC, not compared)
    TEAR = ('stop_responder', 'close_iface')

    def items(seq, name, lis, probe):
        out = []
        for e in seq:
            if e[name] == 'probe':
                if 'teardown' not in out[-1]:
                    out[-1]['answers'] = sorted(e['exp']['answers'])
            elif e[name] in TEAR:
                if not (out and 'teardown' in out[-1]):
                    out.append({'teardown': []})
                out[-1]['teardown'] = sorted(out[-1]['teardown'] + [[e[name], e.get('i', 0)]])
            else:
                it = {'ev': e[name], 'listening': sorted(lis(e)), 'held': e.get('held', False)}
                if probe(e) is not None:
                    it['answers'] = probe(e)
                out.append(it)
        return out

    exp = items(beh, 'act', lambda e: e['exp']['listening'], lambda e: None)
    clean = all(e['ok'] and not e['error'] for e in tr)
    got = items(tr, 'ev', lambda e: e['listening'], lambda e: sorted(e['answers']) if e['probed'] else None)
    diff = None
    if got != exp or not clean:
        n = next((k for k, (a, b) in enumerate(zip(got, exp)) if a != b), min(len(got), len(exp)))
        diff = {'step': n + 1, 'expected': exp[n:n + 1], 'observed': got[n:n + 1], 'clean': clean}
    return case, tr, diff


def _random_server(seed):
    rnd = random.Random(seed)
    schemes = [rnd.choice(['tcp', 'tcp', 'ws']) for _ in range(rnd.randint(1, 5))]
    nre = rnd.choice([0, 1, 1, 2, 2, 4])
    ops = ['restart'] * nre + (['shutdown'] if rnd.random() < 0.8 else [])
    ups = [[i + 1 for i in range(len(schemes)) if rnd.random() < 0.7] for _ in range(1 + nre)]
    holds = [rnd.choice(['', '', 'start', 'send']) for _ in range(1 + nre)]
    for _ in range(rnd.randint(0, 2)):          # releases at random points (the driver adds a final one)
        ops.insert(rnd.randint(0, len(ops)), 'run')
    case = server_case(schemes, ups, ops, rnd.randrange(1000), holds)
    case['eq'] = rnd.choice(EQ_IDS[:3] + ['node.' + rand_text(rnd, rnd.randint(1, 20), False)]) or 'n'
    return case, execute_server(case), None


def server_signature(clause, trace, l):
    """clause named by TLC + whether the set of open interfaces changed at the failing (re)start"""
    sig = {'module': 'DiscoveryServer', 'clause': clause}
    ups = [e['up'] for e in trace[:l] if 'up' in e]
    if 0 < l <= len(trace) and trace[l - 1]['ev'] == 'restart' and len(ups) > 1:
        sig['came_up'] = 'same' if ups[-1] == ups[-2] else 'fewer' if set(ups[-1]) < set(ups[-2]) else \
            'more' if set(ups[-1]) > set(ups[-2]) else 'other'
    return sig


def validate_server(chk, triples, what):
    traces = [tr for _, tr, _ in triples]
    verdicts, st, trn = validate_traces('Trace_DiscoveryServer', traces, 'Trace_DiscoveryServer.cfg')
    chk.states += st
    chk.transitions += trn
    for i, v in verdicts.items():
        case, tr, diff = triples[i]
        chk.impl_traces += 1
        chk.case('%s:%s' % (what, json.dumps(case, sort_keys=True)), len(tr) > 1)
        if v is not None:
            chk.violation(server_signature(v[1], tr, v[0]),
                          {'server_case': case, 'trace': tr, 'failed_at': v[0], 'clause': v[1]})
        elif diff:      # TLC accepts the execution but it is not the behaviour TLC emitted
            chk.violation({'module': 'DiscoveryServer', 'clause': 'replay differs from the emitted behaviour'},
                          {'server_case': case, 'trace': tr, **diff})


# ------------------------------------------------------------------ code -> spec: random drivers

PROFILES = [
    [(1, 1)], [(1, 6), (2, 1)], [(2, 1)], [(3, 1)], [(1, 3), (3, 1)], [(4, 1)], [(5, 1)], [(6, 1)],
    [(1, 4), (4, 2), (5, 2), (6, 1)], [(1, 2), (2, 1), (3, 1), (4, 1), (5, 1), (6, 1)], [(2, 2), (6, 1)],
]
RANGES = {1: [(0x20, 0x21), (0x23, 0x5b), (0x5d, 0x7f)], 2: None, 3: None,
          4: [(0x80, 0x7ff)], 5: [(0x800, 0xd7ff), (0xe000, 0xffff)], 6: [(0x10000, 0x10ffff)]}


def rand_char(rnd, g):
    if RANGES[g] is None or rnd.random() < 0.3:
        return rnd.choice(GLYPH_CHARS[g])
    lo, hi = rnd.choice(RANGES[g])
    return chr(rnd.randint(lo, hi))


def rand_text(rnd, target_json, mode_ascii):
    prof = rnd.choice(PROFILES)
    classes = [g for g, w in prof for _ in range(w)]
    out, w = [], 0
    while w < target_json:
        g = rnd.choice(classes)
        out.append(rand_char(rnd, g))
        w += WIDTHS[mode_ascii][g][1]
    return ''.join(out)


def rand_dgram(rnd):
    r = rnd.random()
    if r < 0.55:
        cls = rnd.choice(list(DGRAMS))
        data = rnd.choice(DGRAMS[cls])
    elif r < 0.62:
        opener = rnd.choice([b'[', b'[', b'{"k":', b' [', b'[[],'])
        n = rnd.choice([200, 600, 990, 994, 995, 996, 1000, 1024, 1400, 1496, 1497, 1500, 2000, 4000])
        data = opener * n + rnd.choice([b'', b']' * n, b'1', b' ' * 50])
    elif r < 0.7:
        data = bytes(rnd.randrange(256) for _ in range(rnd.randint(0, 40)))
    elif r < 0.85:
        data = bytearray(rnd.choice(DGRAMS[rnd.choice(['discover', 'object', 'discover_extra'])]))
        k = rnd.random()
        if k < 0.4 and data:
            data[rnd.randrange(len(data))] = rnd.randrange(256)
        elif k < 0.7:
            data = data[:rnd.randrange(len(data) + 1)]
        else:
            data += bytes(rnd.randrange(256) for _ in range(rnd.randint(1, 4)))
        data = bytes(data)
    else:
        def val(d):
            k = rnd.random()
            if d > 2 or k < 0.5:
                return rnd.choice([0, 1, -7, 2.5, None, True, False, 'SECoP', 'discover', 'node', '', 'é'])
            if k < 0.75:
                return [val(d + 1) for _ in range(rnd.randint(0, 3))]
            return {rnd.choice(['SECoP', 'secop', 'port', 'x', 'discover']): val(d + 1)
                    for _ in range(rnd.randint(0, 3))}
        data = json.dumps(val(0), ensure_ascii=rnd.random() < 0.5).encode()
        if rnd.random() < 0.1:
            data += b' ' * rnd.randint(900, 1200)
    return [classify(data), data.hex()]


def rand_ifaces(rnd):
    ports = rnd.sample([1, 7, 22, 80, 333, 4444, 10767, 65535], rnd.randint(0, 3))
    ifs = ['tcp://%d' % p for p in ports]
    if rnd.random() < 0.4:
        ifs.insert(rnd.randint(0, len(ifs)), 'ws://8080')
    return ifs


def _random_build(args):
    seed, mode_ascii = args
    rnd = random.Random(seed)
    disc()
    k = rnd.random()
    if k < 0.6:
        eq = rnd.choice(EQ_IDS + ['node.' + rand_text(rnd, rnd.randint(0, 30), mode_ascii)])
    elif k < 0.85:
        eq = rand_text(rnd, rnd.randint(300, 420), mode_ascii)          # little room for a description
    else:
        eq = rand_text(rnd, rnd.randint(400, 470), mode_ascii)          # identity around / above the limit
    o = overhead(eq)
    mx = None if rnd.random() < 0.7 else max(0, o + rnd.randint(-3, 120))
    room = (REAL_MAX if mx is None else mx) - o
    k = rnd.random()
    if k < 0.1:
        desc = rnd.choice([None, '', 'short', 'a"b'])
    elif k < 0.8:
        desc = rand_text(rnd, max(0, room + rnd.randint(-8, 12)), mode_ascii)
    else:
        desc = rand_text(rnd, max(0, room) + rnd.randint(0, 700), mode_ascii)
    script = [rnd.choice([DISCOVER, ['object', b'{}'.hex()], ['badjson', b'{'.hex()], ['empty', '']])
              for _ in range(rnd.randint(0, 2))] + [DISCOVER]
    case = {'eq': eq, 'desc': desc, 'ifaces': rand_ifaces(rnd), 'bcast': rnd.random() < 0.7, 'max': mx,
            'script': script}
    return [(case, execute(case))]


def _random_loop(seed):
    rnd = random.Random(seed)
    disc()
    script = [rand_dgram(rnd) for _ in range(rnd.randint(1, 10))] + [DISCOVER]
    base = {'eq': rnd.choice(EQ_IDS), 'desc': rnd.choice(['', 'plain', 'désc "q"\n\U0001f604']),
            'ifaces': rand_ifaces(rnd), 'bcast': rnd.random() < 0.5, 'max': None,
            'interp': 'py311' if rnd.random() < 0.3 else 'native'}
    res = []
    while script:
        case = dict(base, script=script)
        tr = execute(case)
        res.append((case, tr))
        # a responder that died is restarted on the rest of the script, so that a defect behind a
        # known one is still seen
        left = tr[-1]['left'] if tr[-1]['ev'] == 'end' else 0
        script = script[len(script) - left:] if left else []
    return res


def corrupted_traces():
    """self test of the trace specification: one legal execution and corruptions of single recorded fields,
    each with the clause TLC has to name"""
    def msg(n, port, dest, g=()):
        return {'len': n, 'utf8': True, 'json': True, 'obj': True, 'secop': True, 'eq': True, 'fw': True,
                'desc': True, 'port': port, 'dest': dest, 'same': True, 'g': list(g)}
    # a hand written legal execution: 'abc', two TCP ports, one foreign object, one request
    base = [{'ev': 'build', 'o': 99, 'max': REAL_MAX, 'sl': 0, 'g': [1, 1, 1], 'nports': 2, 'bcast': True, 'exc': '',
             'enabled': True, 'm': msg(102, 1, 'none', [1, 1, 1])},
            {'ev': 'start', 'msgs': [msg(102, 1, 'bcast'), msg(98, 2, 'bcast')], 'exc': ''},
            {'ev': 'dgram', 'cls': 'object', 'msgs': [], 'alive': True, 'exc': ''},
            {'ev': 'dgram', 'cls': 'discover', 'msgs': [msg(102, 1, 'sender'), msg(98, 2, 'sender')], 'alive': True,
             'exc': ''},
            {'ev': 'end', 'reason': 'script_end', 'left': 0}]
    res = [(base, None)]

    def variant(clause, fn):
        tr = json.loads(json.dumps(base))
        fn(tr)
        res.append((tr, clause))
    variant('dgram.msg_len', lambda t: t[3]['msgs'][1].update(len=REAL_MAX + 1))
    variant('dgram.msg_wellformed', lambda t: t[3]['msgs'][0].update(utf8=False))
    variant('dgram.one_answer_per_port', lambda t: t[3]['msgs'].pop())
    variant('dgram.one_answer_per_port', lambda t: t[3]['msgs'][1].update(port=1))
    variant('dgram.port_listened', lambda t: t[3]['msgs'][1].update(port=0))
    variant('dgram.to_sender', lambda t: t[3]['msgs'][0].update(dest='bcast'))
    variant('dgram.alive', lambda t: t[3].update(alive=False))
    variant('dgram.answered_iff_discover', lambda t: t[2]['msgs'].append(t[3]['msgs'][0]))
    variant('dgram.answered_iff_discover', lambda t: t[3].update(msgs=[]))
    variant('dgram.desc_same', lambda t: t[3]['msgs'][0].update(same=False))
    variant('start.msg_len', lambda t: t[1]['msgs'][0].update(len=REAL_MAX + 1))
    variant('build.unchanged_if_fits', lambda t: t[0]['m'].update(g=[1, 1]))
    variant('build.prefix', lambda t: t[0]['m'].update(g=[1, 0, 1]))
    variant('build.enabled_if_identity_fits', lambda t: t[0].update(enabled=False))
    variant('build.model_fits', lambda t: (t[0].update(max=t[0]['o'] + 2), t[0]['m'].update(len=1)))
    variant('end.script_consumed', lambda t: t[4].update(reason='returned', left=1))
    variant('event not explained by Discovery', lambda t: t.insert(1, t[3]))     # datagram before start
    return res


def validate(chk, pairs, what, selftest=False):
    traces = [tr for _, tr in pairs]
    probes = corrupted_traces() if selftest else []
    env = {'DISCOVERY_ASCII': os.environ.get('DISCOVERY_ASCII', '0')}
    verdicts, st, trn = validate_traces('Trace_Discovery', traces + [tr for tr, _ in probes], 'Trace_Discovery.cfg',
                                        extra_env=env)
    chk.states += st
    chk.transitions += trn
    for k, (tr, clause) in enumerate(probes):
        v = verdicts.pop(len(traces) + k)
        if (v[1] if v else None) != clause:
            raise MachineryError(f'binding self test: corrupted trace {k} expected {clause!r}, TLC says {v!r}')
    if probes:
        chk.notes['binding_selftest'] = '%d corrupted traces rejected by TLC with the expected clause' % (len(probes) - 1)
    for i, v in verdicts.items():
        case, tr = pairs[i]
        chk.impl_traces += 1
        chk.case('%s:%s' % (what, json.dumps(case, sort_keys=True)), len(tr) > 2)
        if v is not None:
            l, clause = v
            chk.violation(signature(clause, case, tr, l),
                          {'case': case, 'trace': tr, 'failed_at': l, 'clause': clause})


# ------------------------------------------------------------------ entry points

def run(chk):
    quick = chk.tier == 'quick'
    t0 = [time.time()]

    def stage(name):
        chk.notes.setdefault('stage_s', {})[name] = round(time.time() - t0[0], 1)
        if os.environ.get('VERIF_PROGRESS'):
            print('  stage %s: %.1fs' % (name, time.time() - t0[0]), flush=True)
        t0[0] = time.time()
    chk.rule = ('construction: every glyph-class sequence (6 classes) of length <= %d x every budget MAX-O in -2..10 '
                '(length 8: every fourth budget, rotating) with MAX_MESSAGE_LEN patched to measured overhead + '
                'budget, and for length <= %d also at the real 508 with an equipment id padded to overhead = 508 - '
                'budget, executed on the real UDPListener (port lists with a 5 digit / 1 digit widest port) and '
                'compared with the outcomes TLC allows, plus random concrete descriptions validated by '
                'Trace_Discovery; loop: every datagram class sequence up to the depth bound x 0..2 TCP ports replayed '
                'through run() and compared per datagram, plus random byte strings validated by Trace_Discovery; '
                'server: every interface list (tcp/ws x up/fail, main interface bare / from the command line) x '
                'boot, restart*, shutdown on the real Server, validated by Trace_DiscoveryServer. '
                'distinct = glyph sequence / class sequence / random case; non-trivial = at least one message or '
                'datagram was processed') % ((5, 4) if quick else (8, 6))
    mode_ascii = calibrate()
    os.environ['DISCOVERY_ASCII'] = '1' if mode_ascii else '0'
    chk.assumptions.append('JSON encoding of _getMessage calibrated: ensure_ascii=%s width table' % mode_ascii)
    chk.assumptions.append('descriptions without lone surrogates; sendto/recvfrom never fail')

    # all TLC jobs of the design / emission stage are started together (each is a JVM of its own)
    ex = ThreadPoolExecutor(4 if quick else 8)
    parsed = [ex.submit(sany, m) for m in ('Discovery', 'Gen_Discovery', 'Trace_Discovery', 'DiscoveryServer',
                                           'Gen_DiscoveryServer', 'Trace_DiscoveryServer')]
    mc = [ex.submit(model_check, 'Discovery', 'MC_Discovery_quick.cfg' if quick else 'MC_Discovery_thorough.cfg',
                    timeout=1100),
          ex.submit(model_check, 'Discovery', 'MC_Discovery_loop.cfg', timeout=300),
          ex.submit(model_check, 'DiscoveryServer', 'MC_DiscoveryServer.cfg', timeout=300)]
    devs = [(dev, inv, ex.submit(run_tlc, 'Discovery', 'MC_Discovery_asimpl_%s.cfg' % dev, timeout=300, workers=1))
            for dev, inv in (('disable', 'BuildSound'), ('announce', 'AnnounceBounded'), ('loop', 'Alive'))]
    devs += [(dev, inv, ex.submit(run_tlc, 'DiscoveryServer', 'MC_DiscoveryServer_asimpl_%s.cfg' % dev, timeout=300,
                                  workers=1))
             for dev, inv in (('restart', 'OneResponder'), ('ports', 'AnswersTrue'), ('sticky', 'AnswersTrue'),
                              ('guarded', 'OneResponder'), ('order', 'AnswersTrue'), ('closeonly', 'OneResponder'))]
    gen_srv = ex.submit(emit_behaviours, 'Gen_DiscoveryServer', 'Gen_DiscoveryServer_quick.cfg' if quick else
                        'Gen_DiscoveryServer_thorough.cfg', maximal_only=False, timeout=300)
    cfg = 'Gen_Discovery_build_quick.cfg' if quick else 'Gen_Discovery_build_thorough.cfg'

    gen_loop = ex.submit(emit_behaviours, 'Gen_Discovery', 'Gen_Discovery_loop_quick.cfg' if quick else
                         'Gen_Discovery_loop_thorough.cfg', maximal_only=False, timeout=600)
    shards = [ex.submit(emit_construction, cfg, f) for f in ([0] if quick else range(1, 7))]

    # 1 design checks: proposed design holds, each as-implemented deviation is refuted by TLC
    for f in parsed:
        f.result()
    for f in mc:
        chk.add_tlc(f.result())
    for dev, inv, f in devs:
        r = f.result()
        if r.violated != ('invariant', inv):
            raise MachineryError(f'the specification lost its teeth: as-implemented design {dev} does not '
                                 f'violate {inv}: {r.violated or r.error}')
    gen_loop = gen_loop.result()
    gen_srv = gen_srv.result()
    shards = [f.result() for f in shards]
    ex.shutdown(wait=True)      # no TLC thread is alive when worker processes are forked
    stage('design checks and behaviour emission')
    # 2 spec -> code, construction
    real_upto = 4 if quick else 6       # longer sequences only with the patched constant
    seen_empty = False
    nb = 0
    for r, lines in shards:
        chk.add_tlc(r)
        items = []
        for line in lines:
            if line.startswith('[[],'):
                if seen_empty:
                    continue
                seen_empty = True
            items.append((nb, line, chk.seed, real_upto))
            nb += 1
        del lines[:]
        for n, bad, g in pool_map(_replay_build, items):
            chk.impl_traces += n
            chk.evaluations += n - 1
            chk.case(int('7' + ''.join(map(str, g))), True)
            for b in bad:
                for _ in range(b.pop('count')):
                    chk.violation(b['sig'], b)
        if items:
            chk.sample({'construction_case': dict(zip(('glyphs', 'allowed_b_dis_lo0_hi0_lo4_hi4'),
                                                      json.loads(items[len(items) // 2][1])))})

    stage('construction replay')
    # 3 spec -> code, receive loop
    r, behs = gen_loop
    chk.add_tlc(r)
    items = [(i, beh, chk.seed) for i, beh in enumerate(behs)]
    for (i, beh, _), bad in zip(items, pool_map(_replay_loop, items)):
        chk.impl_traces += 1
        chk.case('loop:%d:%s' % (beh[0]['nports'], ','.join(s['cls'] for s in beh[1:])), True)
        if bad:
            chk.violation(bad.pop('sig'), bad)
    chk.sample({'loop_behaviour': [{k: v for k, v in s.items()} for s in behs[len(behs) // 3]]})

    stage('loop replay')
    # 3b server wiring: every interface list x boot / restart* / shutdown on the real Server, plus random ones
    r, behs = gen_srv
    chk.add_tlc(r)
    triples = pool_map(_replay_server, [(i, beh, chk.seed) for i, beh in enumerate(behs)])
    triples += pool_map(_random_server, [chk.seed * 1000211 + 5 + i for i in range(60 if quick else 1500)])
    validate_server(chk, triples, 'server')
    chk.sample({'server_trace': triples[len(behs) // 2][1]})
    stage('server wiring')
    # 4 code -> spec
    n = 1200 if quick else 12000
    res = pool_map(_random_build, [(chk.seed * 1000003 + i, mode_ascii) for i in range(n)])
    validate(chk, [p for ps in res for p in ps], 'build')
    stage('random construction traces')
    n = 1200 if quick else 12000
    res = pool_map(_random_loop, [chk.seed * 1000033 + 17 + i for i in range(n)])
    pairs = [p for ps in res for p in ps]
    validate(chk, pairs, 'loop', selftest=True)
    chk.sample({'random_loop_trace': [{k: v for k, v in e.items() if k != 'm'} for e in pairs[0][1][:4]]})
    stage('random loop traces')
    chk.exhaustive = False


def replay(chk, rep):
    d = rep['detail']
    if 'server_case' in d:
        calibrate()
        print('case:', json.dumps(d['server_case']))
        tr = execute_server(d['server_case'])
        for e in tr:
            print(json.dumps(e))
        verdicts, _, _ = validate_traces('Trace_DiscoveryServer', [tr], 'Trace_DiscoveryServer.cfg')
        print('TLC verdict:', 'accepted' if verdicts[0] is None else 'rejected at event %d: %s' % verdicts[0])
        print('recorded   :', rep['signature'])
        return 0 if verdicts[0] is None else 1
    os.environ['DISCOVERY_ASCII'] = '1' if calibrate() else '0'
    print('case:', json.dumps(d['case'])[:1500])
    tr = execute(d['case'])
    for e in tr:
        print(json.dumps({k: (v if k != 'g' or len(v) < 40 else '%d glyphs' % len(v)) for k, v in e.items()})[:1500])
    verdicts, _, _ = validate_traces('Trace_Discovery', [tr], 'Trace_Discovery.cfg',
                                     extra_env={'DISCOVERY_ASCII': os.environ['DISCOVERY_ASCII']})
    print('TLC verdict:', 'accepted' if verdicts[0] is None else 'rejected at event %d: %s' % verdicts[0])
    print('recorded   :', rep['signature'])
    return 0 if verdicts[0] is None else 1
