"""X02 (growth module) - the sequencer (frappy/lib/sequence.py) and the simulated modules (frappy/simulation.py).

spec/Sequencer.tla : what SequencerMixin promises (steps in order, one sequence at a time, stop, error, status).
spec/SimDrive.tla  : what SimDrivable / SimWritable / SimReadable / SimBase promise (value follows the target at the
                     ramp rate without overshoot, BUSY from the target change until the target is reached, jitter
                     bounded, extra parameters are plain storage).
Binding:
  spec -> code : every behaviour of Gen_Sequencer / Gen_SimDrive is replayed on the REAL classes; the sequence thread
                 and the simulation thread are real threads under the deterministic scheduler (harness/detsched.py) in
                 virtual time; the projected state is compared with what TLC printed after every step.
  code -> spec : seeded random client scripts (several client threads, random preemption at every yield point, and
                 bounded-preemption DFS over schedules of small scenarios) are recorded and validated by TLC against
                 Trace_Sequencer / Trace_SimDrive.
Python concretises, schedules and projects; the verdicts are TLC's.
"""
import json
import random
import re

from ..core import MachineryError, emit_behaviours, model_check, pool_map, run_parallel, run_tlc, sany, validate_traces
from ..env import Conn, LoggerStub, ServerStub, boot

META = {
    'text': 'TLC model-checks the sequencer design (steps in list order, one sequence at a time, stop flag examined '
            'after every call and after every wait, an exception ends the run with an error status, BUSY exactly while a '
            'sequence is alive, the thread ends after a stop / always ends under a fair thread) and the simulated '
            'modules (ramp towards the target without overshoot, BUSY from the target change until arrival, jitter '
            'bound, extra parameters and the HasOffset offset are plain storage); every behaviour of Gen_Sequencer to '
            'the depth bound is replayed on the real SequencerMixin (real sequence thread under a deterministic '
            'scheduler, virtual time) with the projected state compared after each step; every action sequence of '
            'Gen_SimDrive is executed on the real SimDrivable / SimWritable / SimReadable and the observations are '
            'judged by TLC; seeded random multi-client histories and enumerated schedules (bounded preemptions) are '
            'validated by TLC against Trace_Sequencer / Trace_SimDrive.',
    'note': 'Bounded: 9 step kinds (done / repeat / raise, with and without cleanup, two wait times), sequences of 1-2 '
            'steps (1-4 in random histories), at most 2 runs + 1 refused start + 1-2 stops per generated behaviour; '
            'preemption only at yield points (thread start, locks, sleeps, before and inside step functions), not at '
            'every source line; simulated values on a grid of 1/16 with binary-exact ramps, the client acts half a '
            'period away from the simulation thread (no races between the two are explored). Trusted: TLC, the '
            'deterministic scheduler, the alpha/gamma glue in harness/props/x02.py. HasOffset is "just a storage": its '
            'declaration (feature, unit, writable) and the frame condition (nothing else changes) are checked; '
            'HasControlledBy / HasOutputModule are covered by C18.',
    'tech': 'TLA+ specs (Sequencer, SimDrive) + TLC model checking; spec->code replay of all TLC behaviours under a '
            'deterministic scheduler; code->spec TLC trace validation of random / enumerated schedules',
    'ref': 'growth module X02 (not one of the 20 listed properties)',
}

TICK = 0.25
T0 = 1000000.0
# step kinds of spec/Sequencer.tla: script of the step function, cleanup, wait time in ticks
KINDS = {'d': (['done'], 'none', 1), 'd2': (['done'], 'none', 2), 'ad': (['again', 'done'], 'none', 1),
         'aad': (['again', 'again', 'done'], 'none', 1), 'r': (['raise'], 'none', 1), 'ar': (['again', 'raise'], 'none', 1),
         'dc': (['done'], 'ok', 1), 'adc': (['again', 'done'], 'ok', 1), 'adx': (['again', 'done'], 'raise', 1)}


def _ticks(sec, unit=TICK):
    x = sec / unit
    return int(round(x)) if abs(x - round(x)) < 1e-9 else -1


def _alpha_status(st, rid=None):
    """(code, text) -> abstract status of the specification; texts that are not one of the promised forms -> '?'"""
    code = getattr(st[0], 'name', str(st[0]))
    text = st[1]
    if text == '':
        return {'code': code, 'word': '', 'k': 0}
    for pat, word in ((r'moving: r(\d+)s(\d+)$', 'moving'), (r'during r(\d+)s(\d+): boom\2$', 'during'),
                      (r'stopped while r(\d+)s(\d+)$', 'while'), (r'stopped after r(\d+)s(\d+)$', 'after')):
        m = re.match(pat, text)
        if m:
            # 'moving: <step name of another run than the current one>' is reported as step 99
            stale = word == 'moving' and rid not in (None, int(m.group(1)))
            return {'code': code, 'word': word, 'k': 99 if stale else int(m.group(2))}
    if text == 'hook':
        return {'code': code, 'word': 'hook', 'k': 0}
    if text == 'moving: ':
        return {'code': code, 'word': 'moving', 'k': 0}
    return {'code': code, 'word': '?', 'k': 0}


# ------------------------------------------------------------------ sequencer world

class SeqWorld:
    """a real module class(SequencerMixin, Drivable) whose write_target starts the sequence the harness chose;
    instrumented step functions; the patched sleep of frappy.lib.sequence; all under scheduler `s`"""

    def __init__(self, s, fm, truthy=('more', None), hook='none'):
        boot()
        import frappy.lib.sequence as fs
        from frappy.errors import IsBusyError
        from frappy.modules import Drivable
        self.s = s
        self.fs = fs
        self.log = []
        self.nstart = 0
        self.accepted = 0
        self.pending = None
        self.truthy = truthy
        world = self

        class SeqMod(fs.SequencerMixin, Drivable):
            def initModule(self):
                super().initModule()
                self.init_sequencer(fault_on_error=fm[0] == 'e', fault_on_stop=fm[1] == 'e')

            def read_value(self):
                return 0.0

            def read_status(self):
                st = super().read_status()
                world.ev(ev='status', **_alpha_status(st, world.accepted))
                return st

            def doPoll(self):
                super().doPoll()
                if world.in_seq_thread():
                    world.ev(ev='end', cached=_alpha_status(self.status, world.accepted))

            def write_target(self, value):
                kinds = world.pending
                world.nstart += 1
                rid = world.nstart
                steps = []
                for k, kd in enumerate(kinds, 1):
                    kw = {}
                    if KINDS[kd][1] != 'none':
                        kw['cleanup'] = world.cleanup
                    steps.append(fs.Step(f'r{rid}s{k}', KINDS[kd][2] * TICK, world.stepfunc, k, kd, rid, **kw))
                prev = world.accepted
                world.accepted = rid
                world.ev(ev='start_b', id=rid, seq=list(kinds))
                try:
                    self.start_sequence(steps, run=rid)
                    ok = True
                except IsBusyError:
                    ok = False
                    world.accepted = prev
                world.ev(ev='start_e', ok=ok)
                world.last_ok = ok

        # hook 'hw': the module implements the idle-status hook that the class docstring of SequencerMixin tells it
        # to implement ('.. method:: readHwStatus()') - it has to be honoured; hook 'ext': the module only defines
        # _ext_state(), a name that is not (no longer) documented as a hook - it has no hook
        if hook != 'none':
            m = re.search(r'\.\. method:: (\w+)\(\)', fs.SequencerMixin.__doc__ or '')
            documented = m.group(1) if m else 'readHwStatus'
            other = '_ext_state' if documented != '_ext_state' else 'readHwStatus_'
            setattr(SeqMod, documented if hook == 'hw' else other, lambda self: (self.Status.WARN, 'hook'))
        self.cls = SeqMod
        self.last_ok = None

    def setup(self):
        """to be called inside patch() from a scheduled thread: locks and threads are the scheduler's"""
        self.srv = ServerStub()
        self.mod = self.cls('m', LoggerStub('m'), {'description': ''}, self.srv)
        self.srv.secnode.add_module(self.mod, 'm')
        self.mod.earlyInit()
        self.mod.initModule()

    # -- instrumentation
    CLIENTS = ('drv', 'A', 'B', 'C')     # every other scheduled thread is a sequence thread (however it is named)

    def in_seq_thread(self):
        me = self.s.me()
        return me is not None and me.name not in self.CLIENTS

    def ev(self, **e):
        me = self.s.me()
        e['th'] = (me.name if me.name in self.CLIENTS else 'seq') if me is not None else 'ctl'
        e['vt'] = _ticks(self.s.now - T0, TICK / 2)      # half ticks
        self.log.append(e)

    def stepfunc(self, store, k, kd, rid):
        self.s.yield_('precall')       # a preemption point between the end of a wait and the next call
        i = store.i
        store.n = getattr(store, 'n', 0) + 1          # the store is handed from call to call
        self.ev(ev='call', k=k, i=i, n=store.n, run=getattr(store, 'run', 0), id=rid)
        self.s.yield_('step')
        script = KINDS[kd][0]
        res = script[i] if i < len(script) else 'done'
        self.ev(ev='ret', k=k, i=i, res=res)
        if res == 'raise':
            raise RuntimeError(f'boom{k}')
        return self.truthy[0] if res == 'again' else self.truthy[1]

    def cleanup(self, store, result, k, kd, rid):
        res = KINDS[kd][1]
        self.s.yield_('precleanup')
        self.ev(ev='cleanup', k=k, res=res, again=bool(result))
        if res == 'raise':
            raise RuntimeError(f'boom{k}')

    def sleep(self, d):
        from .. import detsched as ds
        ds._vsleep(d)
        if self.in_seq_thread():
            self.ev(ev='wake', d=_ticks(d))

    def patch(self):
        from .. import detsched as ds
        import frappy.modulebase as mb
        return ds.Patch(self.fs, mb, extra={'frappy.lib.sequence': {'sleep': self.sleep}})

    # -- projection
    def observe(self):
        m = self.mod
        st = _alpha_status(self.fs.SequencerMixin.read_status(m), self.accepted)
        return {'alive': bool(m.seq_is_alive()), 'code': st['code'], 'word': st['word'], 'k': st['k'],
                'cached': _alpha_status(m.status, self.accepted)}

    def seq_threads(self):
        return [n for n in self.s.order if n not in self.CLIENTS and not self.s.threads[n].finished]


THREAD_EVS = ('call', 'ret', 'wake', 'cleanup', 'end')


def _match(exp, obs, act):
    """does the projected state equal the expected abstract state?  returns list of differing keys"""
    diff = [key for key in ('alive', 'code') if exp[key] != obs[key]]
    if exp['tb'] and (exp['word'], exp['k']) != (obs['word'], obs['k']):
        diff.append('text')
    ec, oc = exp['cached'], obs['cached']
    if ec['code'] != oc['code'] or (ec['code'] != 'BUSY' and (ec['word'], ec['k']) != (oc['word'], oc['k'])):
        diff.append('cached')
    if act == 'start' and exp['ok'] != obs.get('ok'):
        diff.append('ok')
    return diff


def _replay_seq(job):
    """job: (behaviour, alts) - alts[j] = expected states of sibling behaviours (same actions, same earlier
    expectations) at step j: branches the specification leaves open"""
    from .. import detsched as ds
    beh, alts = job
    world = [None]
    want = [None]

    def strategy(enabled, s):
        if 'drv' in enabled:
            return 'drv'
        if want[0] in enabled:
            return want[0]
        return enabled[0]

    s = ds.Scheduler(strategy, max_steps=20000)
    w = world[0] = SeqWorld(s, beh[0]['fm'], hook=beh[0].get('hook', 'none'))
    result = {}

    def drv():
        w.setup()
        for j, st in enumerate(beh):
            act = st['act']
            n0 = len(w.log)
            extra = {}
            if act == 'start':
                w.pending = st['seq']
                w.mod.write_target(0.0)
                extra['ok'] = w.last_ok
            elif act == 'stop':
                w.mod.stop()
            else:
                ths = w.seq_threads()
                want[0] = (ths[0] if act == 'endpoll' else ths[-1]) if ths else None
                cnt = lambda: sum(1 for e in w.log[n0:] if e['ev'] in THREAD_EVS)
                s.block(lambda: cnt() > 0, 50 * TICK, 'drv.wait')
            evs = [{k: v for k, v in e.items() if k not in ('th', 'vt')} for e in w.log[n0:] if e['ev'] in THREAD_EVS]
            obs = w.observe()
            obs.update(extra)
            want_ev = st['ev'] if st['ev']['ev'] != 'none' else None
            evdiff = []
            if want_ev is None:
                if evs:
                    evdiff = ['events']
            elif len(evs) != 1 or any(evs[0].get(k) != v for k, v in want_ev.items()):
                evdiff = ['events']
            elif want_ev['ev'] == 'call' and not (evs[0]['run'] == evs[0]['id'] == w.accepted):
                evdiff = ['store']
            diff = evdiff + _match(st['exp'], obs, act)
            if diff:
                if not evdiff and any(not _match(a, obs, act) for a in alts[j]):
                    result['branch'] = j        # the implementation took another branch the specification allows
                    return
                result['hook'] = beh[0].get('hook', 'none')
                result['alternatives'] = alts[j]
                result.update(step=j, action={k: v for k, v in st.items() if k not in ('exp', 'ev')},
                              expected=st['exp'], expected_event=st['ev'], observed=obs, observed_events=evs,
                              diff=diff, late=st['late'])
                return
        result['done'] = True

    with w.patch():
        s.spawn('drv', drv)
        s.stop_when = lambda: s.threads['drv'].finished       # what the sequence thread does afterwards is not compared
        s.run()
    exc = {n: repr(t.exc) for n, t in s.threads.items() if t.exc is not None}
    if exc or ((s.deadlock or s.livelock) and not s.threads['drv'].finished):
        if 'step' not in result:
            result.update(step=-1, diff=['crash'], late=False, action={'act': 'crash'},
                          observed={'exceptions': exc, 'deadlock': s.deadlock, 'livelock': s.livelock})
    return result if 'step' in result else None


def _alts(behs):
    """for every behaviour and step: the expectations of its siblings (same actions up to and including the step,
    same expectations before it)"""
    def akey(st):
        return json.dumps([st['act'], st.get('seq')])
    index = {}
    keys = []
    for b in behs:
        pre = json.dumps([b[0]['fm'], b[0].get('hook')])       # siblings belong to the same module configuration
        ks = []
        for st in b:
            key = pre + '|' + akey(st)
            ks.append(key)
            e = json.dumps(st['exp'], sort_keys=True)
            index.setdefault(key, {})[e] = st['exp']
            pre = key + '>' + e
        keys.append(ks)
    out = []
    for b, ks in zip(behs, keys):
        out.append([[v for e, v in index[key].items() if e != json.dumps(st['exp'], sort_keys=True)]
                    for st, key in zip(b, ks)])
    return out


# ------------------------------------------------------------------ code -> spec: client threads, free schedules

def _seq_scenario(rnd, nkinds=None, maxlen=4):
    """a seeded client script: thread A (and sometimes C) start sequences, thread B stops and asks for the status"""
    kinds = sorted(KINDS) if nkinds is None else nkinds
    def starter(n):
        ops = []
        for _ in range(n):
            ops.append(('sleep', rnd.choice([0, 1, 1, 2, 3, 5, 8])))          # half ticks
            ops.append(('start', [rnd.choice(kinds) for _ in range(rnd.randint(1, maxlen))]))
        return ops
    sc = {'fm': rnd.choice(['ee', 'ew', 'we', 'ww']), 'hook': rnd.choice(['none', 'none', 'hw', 'ext']), 'truthy': rnd.choice([['more', None], [1, 0], [True, False]]),
          'threads': {'A': starter(rnd.randint(1, 4))}}
    b = []
    for _ in range(rnd.randint(1, 6)):
        b.append(('sleep', rnd.choice([0, 1, 1, 2, 3, 4])))
        b.append((rnd.choice(['stop', 'status', 'status']),))
    sc['threads']['B'] = b
    if rnd.random() < 0.3:
        sc['threads']['C'] = starter(rnd.randint(1, 2))
    return sc


def _run_seq_scenario(sc, strategy):
    """execute a client script on the real mixin under the given scheduling strategy; returns the trace"""
    from .. import detsched as ds
    s = ds.Scheduler(strategy, max_steps=8000)
    s.stop_when = lambda: s.now > T0 + 300 * TICK        # a script needs far less than that
    w = SeqWorld(s, sc['fm'], tuple(sc['truthy']), sc.get('hook', 'none'))
    ready = []

    def client(name, ops):
        if name == 'A':
            w.setup()
            ready.append(1)
        else:
            s.block(lambda: bool(ready), None, 'wait.setup')
        for op in ops:
            if op[0] == 'sleep':
                s.sleep(op[1] * TICK / 2)
            elif op[0] == 'start':
                # the sequence travels with the call (several starters): the write wrapper holds the access lock
                w.mod.accessLock.acquire()
                try:
                    w.pending = op[1]
                    w.mod.write_target(0.0)
                finally:
                    w.mod.accessLock.release()
            elif op[0] == 'stop':
                w.mod.stop()
                w.ev(ev='stop')
            elif op[0] == 'status':
                w.mod.read_status()

    with w.patch():
        for name, ops in sc['threads'].items():
            s.spawn(name, client, name, ops)
        s.run()
        exc = {n: repr(t.exc) for n, t in s.threads.items() if t.exc is not None}
        stuck = s.deadlock or s.livelock or s.stopped
        tr = [{'ev': 'init', 'fm': sc['fm'], 'hook': sc.get('hook', 'none')}] + w.log[:400]
        if not exc and not stuck:
            obs = w.observe()
            tr.append({'ev': 'quiet', 'cached': obs['cached'], 'live': {k: obs[k] for k in ('code', 'word', 'k')}})
    return tr, list(s.choices), exc, stuck


def _seq_random(args):
    from .. import detsched as ds
    seed, = args
    rnd = random.Random(seed)
    sc = _seq_scenario(rnd)
    tr, choices, exc, stuck = _run_seq_scenario(sc, ds.RandomStrategy(seed + 1, stay=rnd.choice([0.3, 0.6, 0.85])))
    return sc, tr, [c for _, c in choices], exc, stuck


SEQ_SMALL = [     # small scenarios whose schedules are enumerated (bounded preemptions)
    {'fm': 'ew', 'truthy': ['more', None], 'threads': {'A': [('start', ['ad', 'd']), ('sleep', 9), ('start', ['d'])],
                                                        'B': [('sleep', 1), ('stop',), ('status',)]}},
    {'fm': 'we', 'hook': 'hw', 'truthy': [1, 0], 'threads': {'A': [('start', ['adc']), ('start', ['r'])],
                                                'B': [('status',), ('sleep', 2), ('stop',), ('status',)]}},
    {'fm': 'ee', 'truthy': [True, False], 'threads': {'A': [('start', ['r']), ('sleep', 1), ('start', ['dc', 'adx'])],
                                                      'B': [('sleep', 3), ('stop',)], 'C': [('start', ['d2'])]}},
    {'fm': 'ww', 'truthy': ['more', None], 'threads': {'A': [('start', ['d']), ('start', ['ar']), ('start', ['d'])],
                                                        'B': [('stop',), ('status',), ('stop',)]}},
]


class _Run:
    def __init__(self, r):
        self.tr, self.choices, self.exc, self.stuck = r


def _seq_explore(args):
    from .. import detsched as ds
    idx, nruns, pre = args
    sc = SEQ_SMALL[idx]
    out = []
    for r in ds.explore(lambda st: _Run(_run_seq_scenario(sc, st)), max_preemptions=pre, max_runs=nruns, max_depth=300):
        out.append((r.tr, [c for _, c in r.choices], r.exc, r.stuck))
    return idx, out


def _seq_sig(bad):
    sig = {'module': 'Sequencer', 'action': bad['action']['act'], 'diff': ','.join(sorted(set(bad['diff'])))}
    if bad.get('late'):
        sig['stop_during_wait'] = True
    obs = bad.get('observed') or {}
    for exp in [bad.get('expected') or {}] + list(bad.get('alternatives') or []):
        if 'hook' in (exp.get('word'), (exp.get('cached') or {}).get('word')) and \
                'IDLE' in (obs.get('code'), (obs.get('cached') or {}).get('code')):
            sig['idle_hook'] = bad.get('hook')          # the hook's answer was expected, plain IDLE observed
    return sig


# ------------------------------------------------------------------ simulation world

S16 = 16          # the specification counts sixteenths of a value unit


def _a16(x):
    """alpha for simulated values: exact multiples of 1/16 -> integer, anything else -> 9999"""
    y = x * S16
    return int(y) if float(y).is_integer() and abs(y) < 9000 else 9999


class _Rnd:
    """scripted random.random() for frappy.simulation (dyadic values incl. the extremes)"""

    def __init__(self, seed):
        self.rnd = random.Random(seed)

    def random(self):
        return self.rnd.choice([0.0, 0.0, 0.125, 0.25, 0.5, 0.75, 0.875, 0.875])

    def __getattr__(self, name):
        return getattr(random, name)


def _run_sim(case, strategy=None):
    """case: dict(shape, hv, target, ramp, jit (all in sixteenths), ops=[(act, arg)...]) -> trace of observations.
    The client acts half a period away from the simulation thread; act 'tick' lets one period pass."""
    from .. import detsched as ds
    boot()
    import frappy.modulebase as mb
    import frappy.simulation as sim
    s = ds.Scheduler(strategy or ds.GuidedStrategy([]), max_steps=100000)
    shape, jit = case['shape'], case.get('jit', 0)
    rate = {'ramp': 15.0, 'speed': 0.25}.get(shape)       # units per tick (1/16) -> parameter value
    rated = shape in ('ramp', 'speed')
    extra = [x for x in (shape if rated else None, 'jitter' if jit or case.get('jitpar') else None, 'xp') if x]
    sep = ' , ' if case.get('seed', 0) % 2 else ','          # SimBase strips the names
    cfg = {'description': '', 'extra_params': {'value': sep.join(extra)}, 'interval': {'value': TICK},
           'value': {'default': case['hv'] / S16}, 'target': {'default': case['target'] / S16}}
    # extra parameters are created read-only (Parameter default) although SimBase gives them a write method:
    # a configuration that wants them changeable says so
    if rated:
        cfg[shape] = {'default': case['ramp'] * rate, 'readonly': False}
    if shape == 'readable':
        del cfg['target'], cfg['interval']
    if shape == 'writable':
        del cfg['interval']
    if 'jitter' in extra:
        cfg['jitter'] = {'default': jit / S16}
    if case.get('xpar', 'xp') == 'xp':
        cfg['xp'] = {'readonly': False}
    # the stored extra parameter is either one SimBase creates (xp) or the offset of the HasOffset feature
    # ("this is just a storage!": nothing else may change when it is written)
    xpar = case.get('xpar', 'xp')
    if xpar == 'offset':
        extra.remove('xp')
        cfg['extra_params'] = {'value': sep.join(extra)}
        cfg['value']['unit'] = 'K'
    tr = [{'ev': 'init', 'shape': shape, 'hv': case['hv'], 'target': case['target'],
           'ramp': case['ramp'] if rated else 0, 'jit': jit, 'xpar': xpar}]
    info = {}

    def client():
        srv = ServerStub()
        cls = {'writable': sim.SimWritable, 'readable': sim.SimReadable}.get(shape, sim.SimDrivable)
        if xpar == 'offset':
            from frappy.features import HasOffset
            cls = type('Off' + cls.__name__, (HasOffset, cls), {})
        m = cls('m', LoggerStub('m'), cfg, srv)
        tr[0]['feature'] = 'HasOffset' in m.exportProperties().get('features', ())
        tr[0]['xunit'] = m.parameters[xpar].datatype.unit == m.parameters['value'].datatype.unit
        tr[0]['x0'] = _a16(getattr(m, xpar))
        srv.secnode.add_module(m, 'm')
        m.earlyInit()
        m.initModule()
        conn = Conn('c', srv.dispatcher)
        req = lambda *a: srv.dispatcher.handle_request(conn, a)
        st = lambda: m.status[0].name.lower()
        first = True
        for act, arg in case['ops']:
            if act == 'tick':
                s.sleep(TICK / 2 if first else TICK)       # the first period: the thread starts at once
                first = False
                e = {'ev': 'tick', 'status': st(), 'val': _a16(m.value), 'hashv': not jit}
                if not jit:
                    e['hv'] = _a16(cls.read_value(m))
                tr.append(e)
            elif act == 'target':
                req('change', 'm:target', arg / S16)
                tr.append({'ev': 'target', 'T': arg, 'target': _a16(m.target), 'status': st(), 'val': _a16(m.value)})
            elif act == 'stop':
                req('do', 'm:stop', None)
                tr.append({'ev': 'stop', 'target': _a16(m.target), 'status': st()})
            elif act == 'ramp':
                req('change', 'm:' + m.parameters[shape].export, arg * rate)
                tr.append({'ev': 'ramp', 'r': arg})
            elif act == 'read':
                rep = req('read', 'm:value', None)
                tr.append({'ev': 'read', 'v': _a16(rep[2][0])})
            elif act == 'setx':
                req('change', 'm:' + m.parameters[xpar].export, arg / S16)
                tr.append({'ev': 'setx', 'v': arg})
            elif act == 'readx':
                rep = req('read', 'm:' + m.parameters[xpar].export, None)
                tr.append({'ev': 'readx', 'v': _a16(rep[2][0])})
        info['done'] = True

    with ds.Patch(sim, mb, extra={'frappy.simulation': {'random': _Rnd(case.get('seed', 0))}}):
        s.spawn('client', client)
        s.stop_when = lambda: s.threads['client'].finished
        s.run()
    exc = {n: repr(t.exc) for n, t in s.threads.items() if t.exc is not None}
    return tr, exc, (s.deadlock or s.livelock) and not info.get('done')


def _sim_case_from_behaviour(beh):
    i = beh[0]['init']
    ops = [(st['act'], st['arg']) for st in beh]
    # which stored parameter the x actions address is the harness's choice (a stable function of the case)
    xpar = 'offset' if sum(a for _, a in ops) // 16 % 2 else 'xp'
    return {'shape': i['shape'], 'hv': i['hv'], 'target': i['target'], 'ramp': i['ramp'], 'jit': 0, 'xpar': xpar, 'ops': ops}


def _sim_replay(beh):
    case = _sim_case_from_behaviour(beh)
    return (case,) + _run_sim(case)


def _sim_random(args):
    seed, = args
    rnd = random.Random(seed)
    shape = rnd.choice(['ramp', 'ramp', 'ramp', 'speed', 'speed', 'none', 'none', 'writable', 'readable'])
    grid = [0, 8, 16, 24, 40, 48, 72, 80, 84, 128]
    ops = []
    for _ in range(rnd.randint(4, 14)):
        r = rnd.random()
        if r < 0.3 and shape != 'readable':
            ops.append(('target', rnd.choice(grid)))
        elif r < 0.38 and shape in ('ramp', 'speed', 'none'):
            ops.append(('stop', 0))
        elif r < 0.46 and shape in ('ramp', 'speed'):
            ops.append(('ramp', rnd.choice([0, 8, 16, 24, 32, 64])))
        elif r < 0.54:
            ops.append(('read', 0))
        elif r < 0.6:
            ops.append(('setx', rnd.choice(grid)))
        elif r < 0.66:
            ops.append(('readx', 0))
        else:
            ops += [('tick', 0)] * rnd.randint(1, 4)
    case = {'shape': shape, 'hv': rnd.choice(grid), 'ramp': rnd.choice([0, 8, 16, 24, 32]), 'seed': seed,
            'jit': rnd.choice([0, 0, 8, 32]), 'jitpar': rnd.random() < 0.5, 'ops': ops, 'xpar': rnd.choice(['xp', 'offset'])}
    case['target'] = rnd.choice([case['hv'], case['hv'], rnd.choice(grid)]) if shape in ('ramp', 'speed', 'none') else case['hv']
    return (case,) + _run_sim(case)


def _devs(extra):
    devs = {}
    for i, js in extra['DEVS']:
        d = set(json.loads(js))
        devs[i] = d if i not in devs else min(devs[i], d, key=len)
    return devs


def _corrupt_must_be_rejected(module, cfg, trace, mutate):
    """binding self-test: a recorded execution with one corrupted field must not be accepted"""
    bad = json.loads(json.dumps(trace))
    mutate(bad)
    verdicts, _, _ = validate_traces(module, [trace, bad], cfg, timeout=300)
    if verdicts[0] is not None or verdicts[1] is None:
        raise MachineryError(f'{module}: self-test failed (original accepted: {verdicts[0] is None}, '
                             f'corrupted rejected: {verdicts[1] is not None})')


def run(chk):
    import time as _t
    quick = chk.tier == 'quick'
    t0 = _t.time()
    stage = {}
    chk.rule = ('sequencer: every behaviour of Gen_Sequencer (start / stop / refused start at every position of every '
                'sequence over the step kinds, to the depth bound) replayed on the real mixin with state comparison '
                'after each step; random client scripts (2-3 client threads) under random schedules and 4 small scripts '
                'under all schedules with bounded preemptions, validated by Trace_Sequencer. simulation: every action '
                'sequence of Gen_SimDrive (target / stop / ramp / read / extra parameter / tick) executed on the real '
                'SimDrivable, observations after every step judged by Trace_SimDrive, plus random longer histories with '
                'jitter. A case is distinct by its action sequence / (script, schedule); non-trivial = at least one step '
                'function returned / the hardware value moved')
    for m in ('Sequencer', 'Gen_Sequencer', 'Trace_Sequencer', 'SimDrive', 'Gen_SimDrive', 'Trace_SimDrive'):
        sany(m)
    tier = 'quick' if quick else 'thorough'
    # ---- 1 design checks and behaviour emission: independent TLC runs side by side
    seq_gens = [f'Gen_Sequencer_{tier}_stop.cfg', f'Gen_Sequencer_{tier}_refused.cfg'] + \
               ([] if quick else ['Gen_Sequencer_thorough_kinds.cfg', 'Gen_Sequencer_thorough_ext.cfg'])
    sim_gens = [f'Gen_SimDrive_{tier}_move.cfg', f'Gen_SimDrive_{tier}_ramp.cfg', f'Gen_SimDrive_{tier}_store.cfg']
    thunks = [lambda: model_check('Sequencer', f'MC_Sequencer_{tier}.cfg', timeout=1200),
              lambda: model_check('SimDrive', f'MC_SimDrive_{tier}.cfg', timeout=1200)]
    if not quick:       # vacuity (the models of the code as it stands must violate the properties) and the jitter model
        thunks += [lambda: run_tlc('Sequencer', 'MC_Sequencer_asimpl.cfg', timeout=300),
                   lambda: run_tlc('SimDrive', 'MC_SimDrive_asimpl.cfg', timeout=300),
                   lambda: model_check('SimDrive', 'MC_SimDrive_jitter.cfg', timeout=1200)]
    for cfg in seq_gens:
        thunks.append(lambda cfg=cfg: emit_behaviours('Gen_Sequencer', cfg, maximal_only=True, timeout=1200))
    for cfg in sim_gens:
        thunks.append(lambda cfg=cfg: emit_behaviours('Gen_SimDrive', cfg, maximal_only=False, timeout=1200))
    out = run_parallel(thunks, width=5)
    ngen = len(seq_gens) + len(sim_gens)
    mcs, gens = out[:len(out) - ngen], out[len(out) - ngen:]
    for r, prop in zip(mcs[2:4], ('StopNoNewStep', 'BusyOnChange')):
        if not (r.violated and r.violated[1] == prop):
            raise MachineryError(f'the as-implemented model is expected to violate {prop}: {r.violated or r.error}')
    for r in mcs[:2] + mcs[4:]:
        chk.add_tlc(r)
    seq_behs, sim_behs = [], []
    for (r, b), cfg in zip(gens, seq_gens + sim_gens):
        chk.add_tlc(r)
        (seq_behs if cfg.startswith('Gen_Sequencer') else sim_behs).extend(b)
    stage['tlc'] = round(_t.time() - t0, 1)

    # ---- 2 sequencer, spec -> code
    jobs = list(zip(seq_behs, _alts(seq_behs)))
    step = 3 if quick else 2           # every third / second behaviour is replayed (offset by the seed)
    jobs = jobs[chk.seed % step::step]
    chk.notes['sequencer_behaviours_sampled'] = f'1 of {step}'
    res = pool_map(_replay_seq, jobs)
    for (beh, _), bad in zip(jobs, res):
        chk.impl_traces += 1
        acts = [{k: v for k, v in s.items() if k in ('act', 'seq')} for s in beh]
        chk.case(json.dumps(acts, sort_keys=True), any(s['act'] == 'ret' for s in beh))
        if bad:
            chk.violation(_seq_sig(bad), {'world': 'seq', 'behaviour': beh, **bad})
    if jobs:
        chk.sample({'sequencer_behaviour': [{k: v for k, v in s.items() if k in ('act', 'seq', 'ev')}
                                            for s in jobs[len(jobs) // 2][0]]})
    stage['seq_replay'] = round(_t.time() - t0, 1)

    # ---- 3 sequencer, code -> spec: random client scripts under random schedules, small scripts under enumerated schedules
    n = 400 if quick else 4000
    runs = pool_map(_seq_random, [(chk.seed * 100003 + i,) for i in range(n)])
    traces = [r[1] for r in runs]
    origin = [{'world': 'seqtrace', 'scenario': r[0], 'choices': r[2]} for r in runs]
    crashes = [(r[3], r[4]) for r in runs]
    seen = set()
    for idx, out_ in pool_map(_seq_explore, [(i, 150 if quick else 2000, 2 if quick else 3) for i in range(len(SEQ_SMALL))],
                              chunksize=1):
        for tr, flat, exc, stuck in out_:
            if (idx, tuple(flat)) in seen:
                continue
            seen.add((idx, tuple(flat)))
            traces.append(tr)
            origin.append({'world': 'seqtrace', 'scenario': SEQ_SMALL[idx], 'choices': flat, 'small': idx})
            crashes.append((exc, stuck))
    verdicts, st, trn, extra = validate_traces('Trace_Sequencer', traces, 'Trace_Sequencer.cfg', timeout=1200,
                                               collect=('DEVS',))
    chk.states += st
    chk.transitions += trn
    devs = _devs(extra)
    count = {}
    clean = None
    for i, v in verdicts.items():
        chk.impl_traces += 1
        chk.case(('seqtrace', json.dumps(origin[i]['scenario'], sort_keys=True), tuple(origin[i]['choices'])),
                 any(e['ev'] == 'wake' for e in traces[i]))
        exc, stuck = crashes[i]
        if exc or stuck:
            chk.violation({'module': 'Sequencer', 'kind': 'exception' if exc else 'stuck',
                           'exc': sorted(exc.values())[0][:60] if exc else ''},
                          dict(origin[i], exceptions=exc, trace=traces[i]))
        elif v is not None:
            l = v[0]
            ev = traces[i][l - 1] if 0 < l <= len(traces[i]) else {}
            chk.violation({'module': 'Sequencer', 'trace_event': ev.get('ev'), 'th': ev.get('th'), 'code': ev.get('code', '')},
                          dict(origin[i], failed_at=l, event=ev, trace=traces[i]))
        else:
            if clean is None and not devs.get(i) and any(e['ev'] == 'ret' for e in traces[i]):
                clean = traces[i]
            for dev in sorted(devs.get(i, ())):
                count[dev] = count.get(dev, 0) + 1
                chk.violation({'module': 'Sequencer', 'deviation': dev}, dict(origin[i], trace=traces[i]))
    chk.notes['sequencer_deviations_needed'] = count
    chk.notes['sequencer_explored_schedules'] = len(seen)
    chk.sample({'sequencer_trace_prefix': traces[0][:8]})
    stage['seq_traces'] = round(_t.time() - t0, 1)

    # ---- 4 simulation: TLC's action sequences and random histories executed, observations judged by TLC
    keys = {}
    for b in sim_behs:
        keys.setdefault(json.dumps(_sim_case_from_behaviour(b), sort_keys=True), b)
    sim_jobs = [keys[k] for k in sorted(keys)]
    step = 8 if quick else 2
    sim_jobs = sim_jobs[chk.seed % step::step]
    chk.notes['simulation_behaviours_sampled'] = f'1 of {step}'
    runs = pool_map(_sim_replay, sim_jobs) + pool_map(_sim_random, [(chk.seed * 7919 + i,) for i in range(300 if quick else 3000)])
    straces = [r[1] for r in runs]
    verdicts, st, trn, extra = validate_traces('Trace_SimDrive', straces, 'Trace_SimDrive.cfg', timeout=1200,
                                               collect=('DEVS',))
    chk.states += st
    chk.transitions += trn
    devs = _devs(extra)
    count = {}
    sclean = None
    for i, v in verdicts.items():
        case, tr, exc, stuck = runs[i]
        chk.impl_traces += 1
        chk.case(('sim', json.dumps(case, sort_keys=True)), len({e.get('hv', e.get('val')) for e in tr if e['ev'] == 'tick'}) > 1)
        if exc or stuck:
            chk.violation({'module': 'SimDrive', 'kind': 'exception' if exc else 'stuck',
                           'exc': sorted(exc.values())[0][:60] if exc else ''}, {'world': 'sim', 'case': case, 'exceptions': exc})
        elif v is not None:
            l = v[0]
            ev = tr[l - 1] if 0 < l <= len(tr) else {}
            chk.violation({'module': 'SimDrive', 'trace_event': ev.get('ev'), 'shape': case['shape'], 'jitter': bool(case.get('jit'))},
                          {'world': 'sim', 'case': case, 'failed_at': l, 'event': ev, 'trace': tr})
        else:
            if sclean is None and not devs.get(i) and sum(1 for e in tr if e['ev'] == 'tick') > 2:
                sclean = tr
            for dev in sorted(devs.get(i, ())):
                count[dev] = count.get(dev, 0) + 1
                chk.violation({'module': 'SimDrive', 'deviation': dev}, {'world': 'sim', 'case': case, 'trace': tr})
    chk.notes['simulation_deviations_needed'] = count
    if straces:
        chk.sample({'simulation_trace': straces[len(straces) // 2][:8]})
    stage['sim'] = round(_t.time() - t0, 1)

    # ---- 5 binding self-test: a corrupted recording must be rejected
    if clean:
        def mut(tr):
            e = next(e for e in tr if e['ev'] == 'ret')
            e['k'] += 1
        _corrupt_must_be_rejected('Trace_Sequencer', 'Trace_Sequencer.cfg', clean, mut)
    if sclean:
        def mut2(tr):
            e = [e for e in tr if e['ev'] == 'tick'][-1]
            e['status'] = 'busy' if e['status'] == 'idle' else 'idle'
        _corrupt_must_be_rejected('Trace_SimDrive', 'Trace_SimDrive.cfg', sclean, mut2)
    chk.notes['binding_selftest'] = {'sequencer': bool(clean), 'simulation': bool(sclean)}
    stage['selftest'] = round(_t.time() - t0, 1)
    chk.notes['wall_until_end_of_stage'] = stage
    chk.exhaustive = False


def replay(chk, rep):
    d = rep['detail']
    from .. import detsched as ds
    if d.get('world') == 'seq':
        bad = _replay_seq((d['behaviour'], [[] for _ in d['behaviour']]))
        for st in d['behaviour'][:(bad or {}).get('step', len(d['behaviour'])) + 1]:
            print({k: v for k, v in st.items() if k in ('act', 'seq', 'ev')})
        print('->', json.dumps(bad, indent=1))
    elif d.get('world') == 'seqtrace':
        sc = d['scenario']
        sc['threads'] = {n: [tuple(o) for o in ops] for n, ops in sc['threads'].items()}
        tr, _, exc, stuck = _run_seq_scenario(sc, ds.GuidedStrategy(d['choices']))
        for j, e in enumerate(tr, 1):
            print(j, e)
        print('exceptions', exc, 'stuck', stuck, 'failed_at', d.get('failed_at'))
    elif d.get('world') == 'sim':
        tr, exc, stuck = _run_sim(d['case'])
        for j, e in enumerate(tr, 1):
            print(j, e)
        print('exceptions', exc, 'stuck', stuck, 'failed_at', d.get('failed_at'))
    else:
        print(json.dumps(d, indent=1)[:3000])
    return 0
