"""C16 - Communicator: atomic request/reply pairing, stale data discarded, self-healing.

spec/Communicator.tla  design-level PlusCal model (lock, flush, send, framed receive; device with chunking,
                       late / silent replies, garbage)
spec/CommObs.tla       the property on observable events (+ named deviations)
Binding: real StringIO / BytesIO modules over a scripted fake transport registered as an AsynConn scheme (the
real readline / readbytes framing code runs), under the deterministic scheduler in virtual time; every
execution is validated by TLC against Trace_CommObs.
"""
import json
import random

from ..core import MachineryError, model_check, pool_map, run_tlc, sany, validate_traces

META = {
    'text': 'TLC model-checks the communicator design (lock held across a transaction, stale input flushed before '
            'sending, framed receive) against a device that answers in arbitrary chunking, late, not at all, or with '
            'unsolicited bytes: Paired, Atomic, FramingIndependent, FailsWhenSilent hold, and the variants without the '
            'lock / without the flush are shown to fail. The real StringIO and BytesIO (incl. variable-length replies '
            'completed in getFullReply) run over a scripted transport and over the real AsynTcp on a fake socket layer, '
            'under a deterministic scheduler in virtual time with 2-3 concurrent callers (communicate, writeline, '
            'multicomm with and without replies), fault scripts (late reply, garbage, silence, trickling bytes, '
            'disconnect / reset, refused reconnects, wrong identification, user disconnect) and a poller - in the '
            'io_* scenarios the communicator\'s real poll thread with real HasIO modules polled through it; each '
            'execution is validated by TLC against the observable-level specification (pairing, atomicity and every '
            'delay of multicomm judged at the device, failing within time-out + one receive period, a healthy device '
            'never reported as failing, visible state, rate-limited reconnects across callers and poller, callbacks '
            'exactly once, self-healing, polling resumes right after a reconnect).',
    'note': 'Trusted: TLC, harness/detsched.py, the fake transport; virtual time only. Unsolicited / late data is '
            'assumed to arrive before the flush of the next command (data arriving between flush and reply cannot be '
            'told apart by any implementation).',
    'tech': 'TLA+/PlusCal spec + TLC model checking; deterministic-scheduler exploration of the real code in virtual '
            'time; TLC trace validation (Trace_CommObs) with named deviations',
    'ref': 'DESIGN.md section 5 C16',
}

M = lambda *x: ('multi', [(g, True, d) for g, d in x])
SCENARIOS = {
    'pairs': dict(callers=[[('comm', 1), M((2, 0.5), (3, 0))], [('comm', 4), ('comm', 5)]], behaviour={1: ('normal', 2), 5: ('normal', 3)}),
    'late': dict(callers=[[('comm', 1), ('sleep', 2.5), ('comm', 2)], [('sleep', 5.5), ('comm', 3), M((4, 0), (5, 0))]],
                 behaviour={1: ('late', 3.0), 2: ('garbage_after', 0.5)}),
    'late_overlap': dict(callers=[[('comm', 1), ('comm', 2)], [('comm', 3)]], behaviour={1: ('late', 3.0)}),
    'silent': dict(callers=[[('comm', 1)], [('comm', 2)], [M((3, 0.2), (4, 0))]], behaviour={1: ('silent',), 3: ('silent',)}),
    'trickle': dict(callers=[[('comm', 1)], [('comm', 2)]], behaviour={1: ('trickle',)}, horizon=25),
    # terminators of several bytes, cut by the chunking of the transport at every position
    'eol2_pairs': dict(eol='\r\n', callers=[[('comm', 1), M((2, 0.5), (3, 0))], [('comm', 4), ('comm', 5)]],
                       behaviour={1: ('normal', 4), 3: ('normal', 2), 5: ('normal', 4)}),
    'eol3_pairs': dict(eol=';;\n', callers=[[('comm', 1), ('comm', 2)], [M((3, 0), (4, 0.3))]],
                       behaviour={1: ('normal', 5), 2: ('normal', 2), 4: ('normal', 5)}),
    # unsolicited data in the same segment as a reply: it sits in the receive buffer (not on the socket) when the next
    # command is sent, and is stale all the same
    'junk_coalesced': dict(callers=[[('comm', 1), ('sleep', 1), ('comm', 2), ('comm', 3)], [('sleep', 0.5), ('comm', 4)]],
                           behaviour={1: ('garbage_with',), 3: ('garbage_with',)}),
    'bytes_junk_coalesced': dict(bytes=True, callers=[[('comm', 1), ('sleep', 1), ('comm', 2)], [('sleep', 2.5), M((3, 0), (4, 0))]],
                                 behaviour={1: ('garbage_with',)}),
    'bytes_pairs': dict(bytes=True, callers=[[M((1, 0), (2, 0))], [('comm', 3), ('comm', 4)]], behaviour={2: ('normal', 2)}),
    'bytes_delays': dict(bytes=True, callers=[[M((1, 1.0), (2, 2.0), (3, 0.5))], [('comm', 4)]]),
    'string_delays': dict(callers=[[M((1, 1.0), (2, 2.0), (3, 0.5))], [('comm', 4)]]),
    'close_reconnect': dict(callers=[[('comm', 1), ('sleep', 1), ('comm', 2), ('sleep', 1), ('comm', 3), ('sleep', 1),
                                      ('comm', 5), ('sleep', 5), ('comm', 6)],
                                     [('sleep', 0.5), ('comm', 7), ('sleep', 2), ('comm', 8)]],
                            behaviour={1: ('close',)}, refuse=3, callbacks=2, horizon=40),
    'close_poller': dict(callers=[[('comm', 1), ('sleep', 4), ('comm', 2), ('sleep', 4), ('comm', 3)]],
                         behaviour={1: ('close',)}, refuse=2, callbacks=2, poller=True, poll_until=12, horizon=40),
    'flapping': dict(callers=[[('comm', 1), ('sleep', 1), ('comm', 2), ('sleep', 2.5), ('comm', 3), ('sleep', 0.5), ('comm', 4),
                               ('sleep', 0.5), ('comm', 5), ('sleep', 3), ('comm', 6)]],
                     behaviour={1: ('close',), 3: ('close',)}, callbacks=1, horizon=40),
    'flapping_oneshot': dict(callers=[[('comm', 1), ('sleep', 1), ('comm', 2), ('sleep', 2.5), ('comm', 3), ('sleep', 0.5), ('comm', 4),
                                       ('sleep', 0.5), ('comm', 5), ('sleep', 3), ('comm', 6)]],
                             behaviour={1: ('close',), 3: ('close',)}, callbacks=2, oneshot=1, horizon=40),
    'flapping_two': dict(callers=[[('comm', 1), ('sleep', 3.2), ('comm', 2), ('sleep', 1), ('comm', 3), ('sleep', 3), ('comm', 4)],
                                  [('sleep', 3.4), ('comm', 5), ('sleep', 1), ('comm', 6), ('sleep', 0.4), ('comm', 7)]],
                         behaviour={1: ('close',), 5: ('close',)}, callbacks=2, horizon=40),
    'close_race': dict(callers=[[('sleep', 4), ('comm', 1), ('sleep', 2), ('comm', 3), ('sleep', 4), ('comm', 5)],
                                [('sleep', 4), ('comm', 2), ('sleep', 2), ('comm', 4), ('sleep', 4), ('comm', 6)]],
                       behaviour={1: ('close',)}, callbacks=1, horizon=40),
    'close_race_poller': dict(callers=[[('sleep', 3), ('comm', 1), ('sleep', 4), ('comm', 3), ('sleep', 4), ('comm', 5)]],
                              behaviour={1: ('close',)}, callbacks=2, poller=True, poll_until=14, horizon=40),
    'drop_inside': dict(callers=[[M((1, 0.5), (2, 0.5), (3, 0))], [('comm', 4), ('sleep', 4), ('comm', 5)]],
                        drop_at=0.7, refuse=1, callbacks=2, horizon=30),
    'wait_before': dict(callers=[[('comm', 1), ('comm', 2)], [('comm', 3)]], wait_before=0.3, behaviour={2: ('late', 2.2)}),
    # one command made of several lines: wait_before is respected before each line
    'wait_before_lines': dict(callers=[[('lines', [1, 2, 3]), ('comm', 4)], [('comm', 5), ('lines', [6, 7])]], wait_before=0.3,
                              behaviour={1: ('noreply',), 2: ('noreply',), 6: ('noreply',)}),
    # commands without reply: writeline, multicomm elements without reply, multicomm given as plain strings
    'write_mix': dict(callers=[[('write', 1), ('comm', 2), ('write', 3)],
                               [('multi', [(4, False, 0.3), (5, True, 0), (6, False, 0)]), ('comm', 7)]],
                      behaviour={1: ('noreply',), 3: ('noreply',), 4: ('noreply',), 6: ('noreply',)}),
    # plain strings after tuples with non-default flags in one transaction
    'multi_mixed': dict(callers=[[('multi_mix', [(1, False, 0.5, False), (2, True, 0, True)]), ('comm', 3)],
                                 [('multi_mix', [(4, True, 0.3, False), (5, True, 0, True), (6, True, 0, True)]), ('comm', 7)]],
                        behaviour={1: ('noreply',)}),
    'write_chatty': dict(callers=[[('write', 1), ('sleep', 1), ('comm', 2)], [('sleep', 2.5), ('multi_str', [3, 4])]]),
    # the byte oriented communicator under the same faults
    'bytes_late': dict(bytes=True, callers=[[('comm', 1), ('sleep', 2.5), ('comm', 2)], [('sleep', 5.5), ('comm', 3), M((4, 0), (5, 0))]],
                       behaviour={1: ('late', 3.0), 2: ('garbage_after', 0.5)}),
    'bytes_silent': dict(bytes=True, callers=[[('comm', 1)], [('comm', 2)], [M((3, 0.2), (4, 0))]],
                         behaviour={1: ('silent',), 3: ('silent',)}),
    'bytes_trickle': dict(bytes=True, callers=[[('comm', 1)], [('comm', 2)]], behaviour={1: ('trickle', 0.9)}, horizon=25),
    'bytes_close_reconnect': dict(bytes=True, callers=[[('comm', 1), ('sleep', 1), ('comm', 2), ('sleep', 3), ('comm', 3), ('sleep', 3),
                                                        ('comm', 5), ('sleep', 5), ('comm', 6)],
                                                       [('sleep', 0.5), ('comm', 7), ('sleep', 2), ('comm', 8)]],
                                  behaviour={1: ('close',)}, refuse=2, callbacks=2, horizon=40),
    # the device closes the connection while the communicator is idle (between two transactions): the next call fails,
    # the loss becomes visible, the connection heals (by the callers themselves / by polling), callbacks run
    'bytes_idle_drop': dict(bytes=True, callers=[[('comm', 1), ('sleep', 3), ('comm', 2), ('sleep', 4), ('comm', 3), ('sleep', 4),
                                                  ('comm', 4)]], drop_at=1.5, callbacks=2, horizon=40),
    'bytes_idle_drop_poller': dict(bytes=True, callers=[[('comm', 1), ('sleep', 3), ('comm', 2), ('sleep', 8), ('comm', 3)]],
                                   drop_at=1.5, refuse=1, callbacks=1, poller=True, poll_until=14, horizon=40),
    'idle_drop': dict(callers=[[('comm', 1), ('sleep', 3), ('comm', 2), ('sleep', 4), ('comm', 3), ('sleep', 4), ('comm', 4)]],
                      drop_at=1.5, callbacks=2, horizon=40),
    'bytes_wait_before': dict(bytes=True, callers=[[('comm', 1), ('comm', 2)], [('comm', 3)]], wait_before=0.3,
                              behaviour={2: ('late', 2.2)}),
    # variable-length replies fetched in getFullReply (inside the transaction), arriving in pieces
    'bytes_varlen': dict(bytes=True, varlen=True, callers=[[('comm', 1), ('comm', 2)], [('comm', 3), M((4, 0), (5, 0))], [('comm', 6)]],
                         behaviour={1: ('normal', 2), 3: ('normal', 3), 4: ('normal', 2), 6: ('normal', 2)}),
    # identification exchange on connect; wrong answers make the attempt fail
    'ident_reconnect': dict(ident=True, callers=[[('comm', 1), ('sleep', 4), ('comm', 2), ('sleep', 4), ('comm', 3)],
                                                 [('sleep', 0.2), ('comm', 4), ('sleep', 5), ('comm', 5)]],
                            behaviour={1: ('close',)}, refuse=1, callbacks=2, horizon=40),
    'ident_bad': dict(ident=True, bad_ident=3, callers=[[('comm', 1), ('sleep', 3.5), ('comm', 2), ('sleep', 3.5), ('comm', 3),
                                                         ('sleep', 3.5), ('comm', 4)]], callbacks=1, horizon=40),
    'ident_bad_noretry': dict(ident=True, bad_ident=1, retry_first_idn=False,
                              callers=[[('comm', 1), ('sleep', 3.5), ('comm', 2), ('sleep', 3.5), ('comm', 3)]], callbacks=1, horizon=40),
    'bytes_ident_bad': dict(bytes=True, ident=True, bad_ident=1, callers=[[('comm', 1), ('sleep', 3.5), ('comm', 2), ('sleep', 3.5),
                                                                           ('comm', 3)]], callbacks=1, horizon=40),
    # the peer resets the connection (for the tcp transport; the scripted transport just closes)
    'reset_reconnect': dict(reset=True, callers=[[('comm', 1), ('sleep', 4), ('comm', 2), ('sleep', 4), ('comm', 3)],
                                                 [('sleep', 0.5), ('comm', 4), ('sleep', 4), ('comm', 5)]],
                            behaviour={1: ('close',)}, callbacks=2, horizon=40),
    # the user switches the connection off: it comes back by itself, with callbacks
    'user_disc': dict(callers=[[('comm', 1), ('disc',), ('sleep', 3.5), ('comm', 2), ('comm', 3)],
                               [('sleep', 4.5), ('comm', 4), ('sleep', 4), ('comm', 5)]], callbacks=2, horizon=30),
}


# the communicator with its REAL poll thread and modules polled through it (harness/ioworld.py):
# the connection heals by polling, polling of the attached modules resumes right after the reconnect
IOSCEN = {
    'io_heal': dict(sensors=[2, 5], pollinterval=3, close_at=6.3, refuse=2, callbacks=1, horizon=30),
    'io_heal_users': dict(sensors=[4], pollinterval=3, close_at=5.2, refuse=1, callbacks=2, horizon=30,
                          users=[[('sleep', 5.5), ('comm', 1), ('sleep', 1.5), ('comm', 2), ('sleep', 2.2), ('comm', 3), ('sleep', 6), ('comm', 4)]]),
    # one call notices the loss, afterwards only the communicator's own poller can heal the connection
    'io_alone': dict(sensors=[], pollinterval=3, close_at=5.2, refuse=1, callbacks=1, horizon=24,
                     users=[[('sleep', 6), ('comm', 1)]]),
    # two outages: healing and the immediate polls after the reconnect work every time, not only the first time
    # a one-shot reconnect callback (returns False) registered before the permanent ones: everybody runs once at the
    # first reconnect, the permanent ones at every later one, polling resumes every time
    'io_oneshot_twice': dict(sensors=[8], pollinterval=3, close_at=[5.3, 21.4], refuse=0, callbacks=2, oneshot=1, horizon=44),
    'io_heal_twice': dict(sensors=[8, 9], pollinterval=3, close_at=[5.3, 21.4], refuse=1, callbacks=1, horizon=44),
    'io_slow_sensor': dict(sensors=[8, 3], pollinterval=3, close_at=9.5, refuse=0, callbacks=1, horizon=36),
}


def scenario(name):
    """name or name@tcp (the same script over the real AsynTcp on a fake socket layer)"""
    base, _, variant = name.partition('@')
    sc = dict(IOSCEN[base] if base in IOSCEN else SCENARIOS[base])
    if variant == 'tcp':
        sc['tcp'] = True
    return sc
T0 = 1000000.0


def alpha(r, sc):
    tr = [{'ev': 'cfg', 'ncb': sc.get('callbacks', 0) + sc.get('oneshot', 0), 'nsens': len(sc.get('sensors', ()))}]
    for e in r['events']:
        t = int(round((e['vt'] - T0) * 10))
        ev = e['ev']
        if ev == 'call':
            beh = sc.get('behaviour', {})
            tr.append({'ev': 'call', 'i': e['i'], 'kind': e['kind'], 'gids': e['gids'], 'delays': e['delays'], 't': t,
                       'exp': e['exp'],
                       'faulty': any(beh.get(g, ('normal',))[0] not in ('normal', 'garbage_after', 'garbage_with', 'noreply') for g in e['gids'])
                       or 'drop_at' in sc or 'close_at' in sc
                       or any(b[0] == 'trickle' for b in beh.values())   # (a trickling device is busy)
                       or any(x[0] == 'disc' for c in sc.get('callers', ()) for x in c)})
        elif ev == 'dev_recv':
            tr.append({'ev': 'drecv', 'g': e['gid'], 't': t})
        elif ev == 'host_send':
            d = e['data'].strip().rstrip(';')      # (terminators used by the scenarios: \n, \r\n, ;;\n)
            if d[:1] == 'C' and d[1:].isdigit():
                tr.append({'ev': 'hsend', 'g': int(d[1:]), 't': t})
        elif ev == 'unsolicited':
            tr.append({'ev': 'unsolicited', 't': t})
        elif ev == 'dev_close':
            tr.append({'ev': 'dclose', 't': t})
        elif ev == 'state':
            tr.append({'ev': 'state', 'connected': e['connected']})
        elif ev == 'ret':
            tr.append({'ev': 'ret', 'i': e['i'], 'ok': e['ok'], 'got': e['got'], 'exc': e.get('exc', ''), 't': t,
                       'bytes': bool(sc.get('bytes'))})
        elif ev == 'connect_attempt':
            tr.append({'ev': 'attempt', 'ok': e['ok'], 't': t})
        elif ev == 'callback':
            tr.append({'ev': 'callback', 'name': e['name']})
        elif ev == 'ident_failed':
            tr.append({'ev': 'identfail'})
        elif ev == 'user_disc':
            tr.append({'ev': 'udisc'})
        elif ev == 'user_disc_failed':
            tr.append({'ev': 'broken', 'what': 'is_connected := False failed: ' + e['msg']})
        elif ev == 'end':
            # with its own poll thread the communicator has to be connected again when the device has been
            # accepting connections for two reconnect intervals (plus the refused attempts) before the end
            mustheal = bool('close_at' in sc and 'sensors' in sc and
                            sc['horizon'] - (sc['close_at'][-1] if isinstance(sc['close_at'], list) else sc['close_at'])
                            >= (sc.get('refuse', 0) + 2) * sc.get('pollinterval', 3) + 1)
            tr.append({'ev': 'end', 'connected': e['connected'], 'unfinished': e['unfinished'], 'mustheal': mustheal,
                       'trickle': any(b[0] == 'trickle' for b in sc.get('behaviour', {}).values())})
    if r['deadlock'] or r['livelock'] or r['thread_exc']:
        tr.append({'ev': 'broken', 'what': 'deadlock' if r['deadlock'] else 'livelock' if r['livelock']
                   else sorted(r['thread_exc'].values())[0][:80]})
    return tr


def _explore(args):
    name, mode, seed, nruns = args
    from .. import detsched as ds
    from ..commworld import run_scenario
    sc = scenario(name)
    if name.partition('@')[0] in IOSCEN:
        from ..ioworld import run_scenario
    out = []
    if mode == 'dfs':
        class Run:
            def __init__(self, r):
                self.choices = r['raw_choices']
                self.res = r

        for s in ds.explore(lambda st: Run(run_scenario(sc, st)), max_preemptions=2, max_runs=nruns, max_depth=150):
            out.append((s.res['choices'], alpha(s.res, sc)))
    else:
        for k in range(nruns):
            r = run_scenario(sc, ds.RandomStrategy(seed * 7919 + k, stay=0.2 + 0.3 * ((seed + k) % 3)))
            out.append((r['choices'], alpha(r, sc)))
    return name, out


def run(chk):
    quick = chk.tier == 'quick'
    chk.rule = ('executions of the real StringIO/BytesIO over the scripted transport under the deterministic scheduler: '
                'per scenario all schedules with <= 2 preemptions (capped) plus seeded random schedules; distinct = '
                'distinct (scenario, choice sequence); non-trivial = a fault in the script or a preemption between callers')
    for m in ('Communicator', 'CommObs', 'Trace_CommObs'):
        sany(m)
    for cfg in ('Normal', 'Late'):
        chk.add_tlc(model_check('Communicator', f'MC_Communicator_{cfg}.cfg', timeout=600))
    neg = {}
    for cfg, inv in (('nolock', 'Atomic'), ('noflush', 'Paired')):
        r = run_tlc('Communicator', f'MC_Communicator_{cfg}.cfg', timeout=600)
        chk.add_tlc(r)
        neg[cfg] = r.violated[1] if r.violated else None
        if neg[cfg] != inv:
            raise MachineryError(f'design variant {cfg} was expected to violate {inv}, TLC says {r.violated or r.error}')
    chk.notes['design_variants_shown_to_fail'] = neg

    jobs = []
    ndfs, nrnd = (150, 100) if quick else (3000, 2000)
    for name in SCENARIOS:
        # quick: bounded-preemption search over the scripted transport, random schedules over both transports
        jobs.append((name, 'dfs', chk.seed, ndfs))
        if not quick:
            jobs.append((name + '@tcp', 'dfs', chk.seed, ndfs))
        for part in range(2 if quick else 8):
            jobs.append((name + ('@tcp' if part % 2 else ''), 'rnd', chk.seed * 31 + part, nrnd // (2 if quick else 8)))
    for name in IOSCEN:
        for part in range(2 if quick else 8):
            jobs.append((name + ('@tcp' if part % 2 else ''), 'rnd', chk.seed * 31 + part, 20 if quick else 150))
    results = pool_map(_explore, jobs, chunksize=1)
    traces, origin, seen = [], [], set()
    for name, out in results:
        for choices, tr in out:
            k = (name, tuple(choices))
            if k not in seen:
                seen.add(k)
                traces.append(tr)
                origin.append((name, choices))
    verdicts, st, trn, extra = validate_traces('Trace_CommObs', traces, 'Trace_CommObs.cfg', timeout=1500,
                                              collect=('DEVS',))
    chk.states += st
    chk.transitions += trn
    devs = {}
    for i, js in extra['DEVS']:
        d = set(json.loads(js))
        devs[i] = d if i not in devs else min(devs[i], d, key=len)
    count = {}
    for i, v in verdicts.items():
        name, choices = origin[i]
        sc = scenario(name)
        chk.impl_traces += 1
        chk.case((name, tuple(choices)), bool(sc.get('behaviour')) or len(set(choices)) > 1)
        if v is not None:
            l = v[0]
            ev = traces[i][l - 1] if 0 < l <= len(traces[i]) else {}
            sig = {'module': 'CommObs', 'event': ev.get('ev'), 'scenario': name,
                   'detail': ('ok' if ev.get('ok') else ev.get('exc', '')) if ev.get('ev') == 'ret' else ev.get('what', '')}
            chk.violation(sig, {'scenario': name, 'choices': choices, 'failed_at': l, 'event': ev, 'trace': traces[i]})
        else:
            for dev in sorted(devs.get(i, ())):
                count[dev] = count.get(dev, 0) + 1
                if dev.startswith('ASSUME:'):
                    continue        # the run left the environment assumption: not judged, only counted
                chk.violation({'module': 'CommObs', 'deviation': dev},
                              {'scenario': name, 'choices': choices, 'trace': traces[i]})
    chk.notes['deviations_needed'] = count
    chk.notes['scenarios'] = {n: sum(1 for o in origin if o[0] == n) for n in sorted({o[0] for o in origin})}
    if traces:
        chk.sample({'scenario': origin[0][0], 'choices': origin[0][1][:30], 'trace': traces[0][:14]})


def replay(chk, rep):
    from .. import detsched as ds
    from ..commworld import run_scenario
    d = rep['detail']
    sc = scenario(d['scenario'])
    if d['scenario'].partition('@')[0] in IOSCEN:
        from ..ioworld import run_scenario
    r = run_scenario(sc, ds.GuidedStrategy(d['choices']))
    for e in alpha(r, sc):
        print(e)
    return 0
