"""C08 - Activation and deactivation boundaries are exact under any interleaving.

spec/Activation.tla     code-shaped PlusCal model (updater vs. request threads, locks as in the code)
spec/ActivationObs.tla  the property on observable events (+ named deviations)
Binding: the real Dispatcher + real Modules + fake connections run under the deterministic scheduler
(bounded-preemption DFS + random schedules; the entry of every send_reply is a yield point = the gap between
building and sending a message); every execution is validated by TLC against Trace_ActivationObs.
"""
import json

from ..core import MachineryError, model_check, pool_map, run_tlc, sany, validate_traces

META = {
    'text': 'TLC model-checks a statement-level PlusCal model of the dispatcher subscription tables, the activate '
            'snapshot path (under the dispatcher lock) and the announce/broadcast path (under the module update lock) '
            'over all interleavings of 2 connections x request scripts x cache changes: the design with snapshot and '
            'subscription exclusion satisfies SnapshotBeforeActive, NoLate, Converges, NoMiss, Ordered, Isolation; the '
            'as-implemented switches reproduce the stale-snapshot and late-update races. The real Dispatcher and Modules '
            'run under a deterministic scheduler (all schedules with <=2 preemptions at lock / send points, random '
            'schedules, thorough: line-level preemption) and each execution is validated by TLC against the '
            'observable-level specification.',
    'note': 'Trusted: TLC, harness/detsched.py, fake connections; bounds: 2-3 connections, 2 modules x 2 parameters, '
            '<=3 requests per connection, <=4 cache changes. The reply is sent by the requesting thread after '
            'handle_request returns, as the TCP interface does.',
    'tech': 'TLA+/PlusCal spec + TLC model checking; deterministic-scheduler exploration of the real code; '
            'TLC trace validation (Trace_ActivationObs) with named deviations',
    'ref': 'DESIGN.md section 5 C08',
}

P1, P2 = 'm1:_p1', 'm1:_p2'
SCENARIOS = {
    'act_node_race': dict(scripts={'c1': [('activate', None)]}, updaters=[[('m1', 'p1'), ('m1', 'p1')]]),
    'act_mod_deact': dict(scripts={'c1': [('activate', 'm1'), ('deactivate', 'm1')], 'c2': [('activate', None)]},
                          updaters=[[('m1', 'p1'), ('m1', 'p2')]]),
    'act_par_deact': dict(scripts={'c1': [('activate', P1), ('deactivate', P1)], 'c2': [('activate', 'm2')]},
                          updaters=[[('m1', 'p1'), ('m2', 'p1')], [('m1', 'p1')]]),
    'ident': dict(scripts={'c1': [('activate', None), ('ident', None)], 'c2': [('activate', 'm1')]},
                  updaters=[[('m1', 'p1'), ('m1', 'p2')]]),
    'disconnect': dict(scripts={'c1': [('activate', 'm1'), ('disconnect', None)], 'c2': [('activate', None)]},
                       updaters=[[('m1', 'p2'), ('m1', 'p1')]]),
    'reactivate': dict(scripts={'c1': [('activate', None), ('deactivate', None), ('activate', 'm1')]},
                       updaters=[[('m1', 'p1')], [('m1', 'p2')]]),
    'three': dict(scripts={'c1': [('activate', 'm1')], 'c2': [('activate', P1), ('deactivate', P1)],
                           'c3': [('activate', None), ('deactivate', None)]},
                  updaters=[[('m1', 'p1'), ('m2', 'p2')]]),
    'par_stays': dict(scripts={'c1': [('activate', P1)], 'c2': [('activate', 'm2:_p2')]},
                      updaters=[[('m1', 'p1'), ('m2', 'p2'), ('m1', 'p1')], [('m1', 'p2')]]),
    'mod_and_par_stay': dict(scripts={'c1': [('activate', 'm1'), ('activate', 'm2:_p1')], 'c2': [('activate', P2)]},
                             updaters=[[('m2', 'p1'), ('m1', 'p2'), ('m2', 'p1')]]),
    # parameters in an error state: the snapshot carries the error, a recovery is delivered
    'error_state': dict(scripts={'c1': [('activate', 'm1'), ('deactivate', 'm1')], 'c2': [('activate', P1)]},
                        updaters=[[('m1', 'p1', 'err'), ('m1', 'p1'), ('m1', 'p2', 'err')]]),
    # refused activations subscribe nothing
    'refused': dict(scripts={'c1': [('activate', 'm1:nope'), ('activate', 'mX'), ('activate', 'm1:hidden'), ('activate', 'm2')],
                             'c2': [('activate', 'm1:p1'), ('activate', P1)]},
                    updaters=[[('m1', 'p1'), ('m2', 'p1'), ('m1', 'p1')]]),
    # module names that are prefixes of each other: deactivating m1 does not touch m1b
    'prefix_names': dict(mods=('m1', 'm1b'), scripts={'c1': [('activate', 'm1b:_p1'), ('activate', 'm1'), ('deactivate', 'm1')],
                                                     'c2': [('activate', 'm1b'), ('activate', 'm1:_p1'), ('deactivate', 'm1b')]},
                         updaters=[[('m1b', 'p1'), ('m1', 'p1'), ('m1b', 'p1'), ('m1', 'p1')]]),
    # a connection that is the only subscriber of a scope disconnects while another one activates the same scope
    'disconnect_same_scope': dict(scripts={'c1': [('activate', P1), ('disconnect', None)], 'c2': [('activate', P1)]},
                                  updaters=[[('m1', 'p1'), ('m1', 'p1')]]),
    'disconnect_same_module': dict(scripts={'c1': [('activate', 'm1'), ('disconnect', None)], 'c2': [('activate', 'm1')],
                                            'c3': [('activate', 'm2'), ('ident', None)]},
                                   updaters=[[('m1', 'p2'), ('m2', 'p1'), ('m1', 'p2')]]),
    # module and parameter scopes survive a whole-node deactivate of the same connection
    'scopes_survive_global': dict(scripts={'c1': [('activate', 'm1'), ('activate', 'm2:_p1'), ('activate', None), ('deactivate', None)],
                                           'c2': [('activate', None)]},
                                  updaters=[[('m1', 'p1'), ('m2', 'p1'), ('m1', 'p2'), ('m2', 'p1')]]),
    'disconnect_vs_new_scope': dict(scripts={'c1': [('activate', None), ('activate', 'm1'), ('disconnect', None)],
                                             'c2': [('activate', 'm2:_p1'), ('activate', 'm2')]},
                                    updaters=[[('m1', 'p1'), ('m2', 'p1')]]),
    'two_scopes': dict(scripts={'c1': [('activate', None), ('activate', P1), ('deactivate', None)]},
                       updaters=[[('m1', 'p1'), ('m1', 'p1')]]),
}


def alpha(r):
    tr = []
    for e in r['events']:
        ev = e['ev']
        if ev in ('seed', 'store', 'req', 'deliver', 'reply'):
            tr.append({k: v for k, v in e.items() if k not in ('seq', 'th', 'vt', 'action')})
        elif ev == 'quiet':
            tr.append({'ev': 'quiet', 'params': e['params']})
    if r['deadlock'] or r['livelock'] or r['thread_exc']:
        tr.append({'ev': 'broken', 'what': 'deadlock' if r['deadlock'] else 'livelock' if r['livelock']
                   else sorted(r['thread_exc'].values())[0][:80]})
    return tr


def _explore(args):
    name, mode, seed, nruns, line_level = args
    from .. import detsched as ds
    from ..dispworld import run_scenario
    sc = SCENARIOS[name]
    out = []
    if mode in ('dfs', 'dfs1'):
        class Run:
            def __init__(self, r):
                self.choices = r['raw_choices']
                self.res = r

        for s in ds.explore(lambda st: Run(run_scenario(sc, st, line_level)), max_preemptions=2 if mode == 'dfs' else 1,
                            max_runs=nruns):
            out.append((s.res['choices'], alpha(s.res), line_level))
    else:
        for k in range(nruns):
            r = run_scenario(sc, ds.RandomStrategy(seed * 7919 + k, stay=0.2 + 0.3 * ((seed + k) % 3)), line_level)
            out.append((r['choices'], alpha(r), line_level))
    return name, out


def run(chk):
    quick = chk.tier == 'quick'
    chk.rule = ('executions of the real Dispatcher/Modules under the deterministic scheduler: per scenario all schedules '
                'with <= 2 preemptions (capped) plus seeded random schedules; distinct = distinct choice sequence; '
                'non-trivial = at least one preemption between a request thread and an updater thread')
    for m in ('Activation', 'ActivationObs', 'Trace_ActivationObs'):
        sany(m)
    tier = 'quick' if quick else 'thorough'
    chk.add_tlc(model_check('Activation', f'MC_Activation_fixed_{tier}.cfg', timeout=1700, heap='12g'))
    r = run_tlc('Activation', f'MC_Activation_asimpl_{tier}.cfg', timeout=900)
    chk.add_tlc(r)
    if not r.violated and not r.ok:
        raise MachineryError(f'TLC failed on the as-implemented Activation model: {r.error}')
    chk.notes['as_implemented_model'] = {
        'violates': r.violated[1] if r.violated else None,
        'counterexample_steps': [a.split(' line')[0] for a, _ in r.counterexample()][1:]}

    jobs = []
    ndfs, nrnd = (300, 200) if quick else (5000, 4000)
    for name in SCENARIOS:
        jobs.append((name, 'dfs', chk.seed, ndfs, False))
        for part in range(2 if quick else 8):
            jobs.append((name, 'rnd', chk.seed * 31 + part, nrnd // (2 if quick else 8), False))
        if not quick:
            jobs.append((name, 'rnd', chk.seed * 17 + 5, 500, True))
        if 'disconnect' in name or name == 'ident':
            # disconnects are handled outside the dispatcher lock: every source line is a preemption point
            jobs.append((name, 'dfs1', chk.seed, 400 if quick else 4000, True))
            if quick:       # (thorough has line-level random schedules for every scenario)
                jobs.append((name, 'rnd', chk.seed * 17 + 5, 200, True))
    results = pool_map(_explore, jobs, chunksize=1)
    traces, origin, seen, lines = [], [], set(), {}
    for name, out in results:
        for item in out:
            choices, tr = item[0], item[1]
            k = (name, tuple(choices))
            if k not in seen:
                seen.add(k)
                traces.append(tr)
                origin.append((name, choices))
                lines[len(traces) - 1] = bool(item[2]) if len(item) > 2 else False
    verdicts, st, trn, extra = validate_traces('Trace_ActivationObs', traces, 'Trace_ActivationObs.cfg',
                                              timeout=1500, collect=('DEVS',))
    chk.states += st
    chk.transitions += trn
    devs = {}
    for i, js in extra['DEVS']:
        d = set(json.loads(js))
        devs[i] = d if i not in devs else min(devs[i], d, key=len)
    count = {}
    for i, v in verdicts.items():
        name, choices = origin[i]
        chk.impl_traces += 1
        sw = sum(1 for a, b in zip(choices, choices[1:]) if a != b and a[0] != b[0])
        chk.case((name, tuple(choices)), sw > 0)
        if v is not None:
            l = v[0]
            ev = traces[i][l - 1] if 0 < l <= len(traces[i]) else {}
            sig = {'module': 'ActivationObs', 'event': ev.get('ev'), 'kind': ev.get('kind') or ev.get('by') or ev.get('what')}
            chk.violation(sig, {'scenario': name, 'choices': choices, 'line_level': lines.get(i, False), 'failed_at': l, 'event': ev, 'trace': traces[i]})
        else:
            for dev in sorted(devs.get(i, ())):
                count[dev] = count.get(dev, 0) + 1
                chk.violation({'module': 'ActivationObs', 'deviation': dev},
                              {'scenario': name, 'choices': choices, 'line_level': lines.get(i, False), 'trace': traces[i]})
    chk.notes['deviations_needed'] = count
    chk.notes['scenarios'] = {n: sum(1 for o in origin if o[0] == n) for n in SCENARIOS}
    if traces:
        chk.sample({'scenario': origin[0][0], 'choices': origin[0][1][:30], 'trace': traces[0][:14]})


def replay(chk, rep):
    from .. import detsched as ds
    from ..dispworld import run_scenario
    d = rep['detail']
    r = run_scenario(SCENARIOS[d['scenario']], ds.GuidedStrategy(d['choices']), bool(d.get('line_level')))
    for e in alpha(r):
        print(e)
    return 0
