"""C14 - State machine: bounded cycles, exactly-once cleanup, last start wins.

spec/StateMachine.tla (lib/statemachine.py at statement granularity), spec/HasStates.tla (status
reporting of the module mixin).  Binding:
  spec -> code : every behaviour of Gen_StateMachine (program table + operation sequence, exhaustive
                 inside the bounds) is replayed on the real StateMachine with closures implementing the
                 table; calls made and projected state are compared after every operation.
  code -> spec : seeded random runs (longer, larger alphabet, start/stop issued re-entrantly from state
                 functions, transition hook and cleanup function) and runs in which a second thread's
                 start()/stop() is placed before the k-th executed line of cycle() (sys.settrace
                 preemption, k enumerated over ALL line events) are recorded and validated by TLC against
                 Trace_StateMachine; the same for a real Drivable with the HasStates mixin, whose status
                 updates are validated against Trace_HasStates.
"""
import json
import random
import sys
import threading

from ..core import MachineryError, emit_behaviours, model_check, pool_map, run_tlc, sany, validate_traces
from ..env import LoggerStub, boot

META = {
    'text': 'TLC model-checks the statement-level design of StateMachine.cycle/_cleanup/_new_state/start/stop '
            '(sequential, and with a second thread posting start/stop between any two statements) against '
            'CycleBounded, InitFlag, CleanupOnce, StopInactive, LastStartWins; every program x operation sequence '
            'TLC enumerates inside the bounds is replayed on the real StateMachine (closures implement the program '
            'table) comparing calls and state after every operation; random longer runs with re-entrant start/stop '
            'and runs with a second thread preempting cycle() at every executed line are validated by TLC '
            '(Trace_StateMachine); status updates of a real HasStates Drivable, sequential and line-preempted, are '
            'validated against BusyWhileRunning (Trace_HasStates) incl. the module\'s own isBusy/isDriving verdicts, '
            'the status due after stop / final_status / on_error and fast-poll switching. Construction with '
            'attributes / a first state, loop limits 1, 2, 3 and the default, and start() with a keyword that '
            'collides with a class attribute are part of the alphabet.',
    'note': 'Bounded: depth / call budget of Gen, alphabets of 2-5 state functions, one preemption by one other '
            'thread per cycle at line granularity (GIL). Trusted: TLC; the closures/projection in '
            'harness/props/c14.py. Outside the alphabet: raising transition hooks, BaseException, state functions '
            'without __name__, concurrent cycle() calls, the time helper delta().',
    'tech': 'TLA+ spec (StateMachine.tla, HasStates.tla) + TLC model checking incl. liveness of cycle termination; '
            'spec->code replay of all TLC behaviours; code->spec TLC trace validation with silent internal labels; '
            'sys.settrace line-level preemption',
    'ref': 'DESIGN.md section 5 C14',
}

SM_FILE = 'frappy/lib/statemachine.py'
KEYS = ['x', 'y']
NONCALLABLES = [42, None, 'text', 0, (), False]


class Raised(Exception):
    """scripted error of a state function / cleanup function"""


def _raisers():
    """exception classes a scripted state / cleanup function raises: own, builtin, SECoP errors"""
    boot()
    from frappy.errors import CommunicationFailedError, HardwareError
    return [Raised, ValueError, KeyError, ZeroDivisionError, HardwareError, CommunicationFailedError]


# ------------------------------------------------------------------ the machine under test

class World:
    """a real StateMachine whose state functions, cleanup function and transition hook are closures
    that log what they see and then do what `plan(kind, fn, idx)` says"""

    def __init__(self, states, maxloops, plan, new=None):
        """new = {'s': first state | 'none', 'kw': {...}, 'hook': transition callback given?, 'c': 'K' | 'none'
        (cleanup=<function> given?)}: arguments of the constructor;
        maxloops=None: keep the machine's default (10)"""
        boot()
        import frappy.lib.statemachine as m
        self.m = m
        self.plan = plan
        self.events = []
        self.count = {}
        self.funcs = {s: self._state(s) for s in states}
        self.cleanup = self._cleanup()
        new = dict({'s': 'none', 'kw': {}, 'hook': True, 'c': 'none'}, **(new or {}))
        kw = {k: v for k, v in new['kw'].items() if v != '-'}
        opt = dict(kw)
        if new['hook']:
            opt['transition'] = self._hook        # else: a machine without transition callback (the default)
        if new['c'] != 'none':
            opt['cleanup'] = self.cleanup
        self.sm = m.StateMachine(self.funcs.get(new['s']), logger=LoggerStub(), **opt)
        if maxloops is not None:
            self.sm.maxloops = maxloops
        self.events.append({'ev': 'new', 's': new['s'], 'kw': {k: str(kw.get(k, '-')) for k in KEYS},
                            'hook': bool(new['hook']), 'c': new['c']})

    # -- closures
    def _next(self, kind, fn):
        i = self.count.get(fn, 0)
        self.count[fn] = i + 1
        return self.plan(kind, fn, i)

    def _do(self, b):
        for task in b.get('post', ()):
            self.post(task)
        k = b['k']
        if k == 'retry':
            return self.m.Retry
        if k == 'finish':
            return self.m.Finish
        if k == 'none':
            return None
        if k == 'noncallable':
            return b.get('value', 42)
        if k == 'raise':
            raise b.get('exc', Raised)('scripted')
        return self.funcs[b['s']]

    def _state(self, name):
        def fn(sm):
            b = self._next('call', name)
            self.events.append({'ev': 'call', 'fn': name, 'init': sm.init is True,
                                'b': {'k': b['k'], 's': b.get('s', 'none')}})
            return self._do(b)
        fn.__name__ = fn.__qualname__ = name
        return fn

    def _cleanup(self):
        def cleanup(sm):
            b = self._next('cleanup', '<cleanup>')
            self.events.append({'ev': 'cleanup', 'reason': self._reason(sm.cleanup_reason),
                                'b': {'k': b['k'], 's': b.get('s', 'none')}})
            return self._do(b)
        return cleanup

    def _hook(self, sm, newstate):
        self.events.append({'ev': 'hook', 'to': getattr(newstate, '__name__', 'none')})
        b = self._next('hook', '<hook>')
        for task in b.get('post', ()):
            self.post(task)

    # -- operations
    def post(self, task, bad=None):
        """bad: additionally pass this keyword, which collides with a class attribute of StateMachine"""
        try:
            self._post(task, bad)
        except BaseException as e:   # noqa: start()/stop() raising anything else is an observation
            self.events.append({'ev': 'raised', 'where': 'post', 'exc': repr(e)})

    def _post(self, task, bad):
        if task['k'] == 'stop':
            self.sm.stop()
        else:
            kw = {k: v for k, v in task['kw'].items() if v != '-'}
            if task['c'] != 'none':
                kw['cleanup'] = self.cleanup
            if bad:
                kw[bad] = 7
            try:
                self.sm.start(self.funcs[task['s']], **kw)
            except AttributeError:
                self.events.append({'ev': 'rejected'})
                return
        self.events.append({'ev': 'post', 'task': task, 'bad': bad or '-'})

    def cycle(self):
        self.events.append({'ev': 'begin'})
        try:
            self.sm.cycle()
        except BaseException as e:   # noqa: the property says cycle never raises
            self.events.append({'ev': 'raised', 'exc': repr(e)})
            return
        self.events.append({'ev': 'end', 'st': self.alpha()})

    # -- projection
    def _reason(self, r):
        if r is None:
            return 'none'
        if isinstance(r, self.m.Start):
            return 'start'
        if isinstance(r, self.m.Stop):
            return 'stop'
        return 'error' if isinstance(r, Exception) else 'other:%r' % (r,)

    def _task(self, t):
        if t is None:
            return task_none()
        if isinstance(t, self.m.Stop):
            return task_stop()
        kw = dict(t.kwds)
        c = kw.pop('cleanup', None)
        return {'k': 'start', 's': getattr(t.newstate, '__name__', '?'),
                'kw': {k: str(kw.get(k, '-')) for k in KEYS}, 'c': 'none' if c is None else 'K'}

    def alpha(self):
        sm = self.sm
        return {'statefunc': getattr(sm.statefunc, '__name__', 'none') if sm.statefunc else 'none',
                'init': sm.init is True, 'task': self._task(sm.next_task),
                'cleanup_none': sm.cleanup is None, 'reason': self._reason(sm.cleanup_reason),
                'attrs': {k: str(getattr(sm, k, '-')) for k in KEYS}}


def task_none():
    return {'k': 'none', 's': 'none', 'kw': {k: '-' for k in KEYS}, 'c': 'none'}


def task_stop():
    return dict(task_none(), k='stop')


def task_start(s, kw, c):
    return {'k': 'start', 's': s, 'kw': {k: str(kw.get(k, '-')) for k in KEYS}, 'c': c}


# ------------------------------------------------------------------ spec -> code

GEN_STATES = ['A', 'B', 'K1']


def _table(beh):
    """program table (function -> list of behaviours by call index) chosen by TLC in this behaviour"""
    tab = {}
    for st in beh:
        for e in st.get('calls', ()):
            if e['ev'] == 'call':
                tab.setdefault(e['fn'], []).append(e['b'])
            elif e['ev'] == 'cleanup':
                tab.setdefault('<cleanup>', []).append(e['b'])
    return tab


def _norm(e):
    return {k: v for k, v in e.items() if k != 'exc'}


def _replay(arg):
    beh, maxloops = arg
    tab = _table(beh)

    def plan(kind, fn, i):
        if kind == 'hook':
            return {}
        row = tab.get(fn, ())
        if i < len(row):
            return row[i]
        return {'k': 'retry'} if kind == 'call' else {'k': 'none'}   # not expected by the spec; shows up in calls

    new = beh[0] if beh and beh[0]['act'] == 'new' else None
    w = World(GEN_STATES, maxloops, plan, new)
    for i, st in enumerate(beh):
        del w.events[:]
        if st['act'] == 'new':
            got = {'state': w.alpha()}
            exp = {'state': st['exp']}
        elif st['act'] == 'cycle':
            w.cycle()
            calls = [_norm(e) for e in w.events[1:-1]]
            last = w.events[-1]
            got = {'calls': calls, 'raised': last.get('exc'), 'state': w.alpha()}
            exp = {'calls': st['calls'], 'raised': None, 'state': st['exp']}
        else:
            w.post({'k': st['act'], 's': st['s'], 'kw': {k: st['kw'].get(k, '-') for k in KEYS}, 'c': st['c']})
            got = {'state': w.alpha()}
            exp = {'state': st['exp']}
        if json.dumps(got, sort_keys=True) != json.dumps(_fill(exp), sort_keys=True):
            return {'step': i, 'act': st['act'], 'expected': _fill(exp), 'observed': got}
    return None


def _fill(exp):
    """the Gen configuration may use fewer attribute keys than the projection"""
    st = exp['state']
    for d in (st['attrs'], st['task']['kw']):
        for k in KEYS:
            d.setdefault(k, '-')
    return exp


def _diff_fields(bad):
    e, o = bad['expected'], bad['observed']
    d = []
    if e.get('calls') != o.get('calls'):
        d.append('calls')
    if o.get('raised'):
        d.append('raised')
    d += sorted('state.' + k for k in e['state'] if e['state'][k] != o['state'].get(k))
    return d


# ------------------------------------------------------------------ code -> spec, single thread

T_STATES = ['A', 'B', 'C', 'K1', 'K2']
T_START = ['A', 'B', 'C']
T_MAXLOOPS = 3


def _rand_task(rnd):
    if rnd.random() < 0.35:
        return task_stop()
    kw = {k: rnd.choice('123') for k in KEYS if rnd.random() < 0.6}
    return task_start(rnd.choice(T_START), kw, rnd.choice(['K', 'K', 'none']))


BAD_KEYS = ['init', 'now', 'next_task', 'cleanup_reason', 'is_active', 'cycle']


def _rand_plan(seed, reentrant, chain=0.0):
    """deterministic random program table: behaviour of call `i` of function `fn`;
    chain: extra probability of returning a next state (long chains, loop limit)"""
    def plan(kind, fn, i):
        rnd = random.Random(f'{seed}/{kind}/{fn}/{i}')
        post = [_rand_task(rnd)] if reentrant and rnd.random() < (0.25 if kind != 'hook' else 0.1) else []
        if kind == 'hook':
            return {'post': post}
        r = rnd.random()
        if kind == 'call' and rnd.random() < chain:
            b = {'k': 'next', 's': rnd.choice(T_STATES)}
        elif kind == 'call':
            if r < 0.40:
                b = {'k': 'retry'}
            elif r < 0.55:
                b = {'k': 'finish'}
            elif r < 0.85:
                b = {'k': 'next', 's': rnd.choice(T_STATES)}
            elif r < 0.93:
                b = {'k': 'raise', 'exc': rnd.choice(_raisers())}
            else:
                b = {'k': 'noncallable', 'value': rnd.choice(NONCALLABLES)}
        else:
            if r < 0.4:
                b = {'k': 'none'}
            elif r < 0.8:
                b = {'k': 'next', 's': rnd.choice(['K1', 'K2'])}
            elif r < 0.9:
                b = {'k': 'raise', 'exc': rnd.choice(_raisers())}
            else:
                b = {'k': 'noncallable', 'value': rnd.choice(NONCALLABLES[:1] + NONCALLABLES[2:])}
        b['post'] = post
        return b
    return plan


def _variant(i):
    """trace number -> (maxloops, chain probability, one start with a forbidden keyword?)"""
    if i % 10 == 7:
        return 1, 0.0, False
    if i % 10 == 8:
        return None, 0.85, False        # the machine's default limit (10), long chains
    return T_MAXLOOPS, 0.0, i % 10 == 9


def _random_trace(arg):
    seed, nops, (maxloops, chain, bad) = arg
    rnd = random.Random(seed)
    new = {'hook': rnd.random() < 0.6, 'c': rnd.choice(['none', 'none', 'K'])}   # optional callbacks
    if rnd.random() < 0.4:     # constructor with attributes and / or a first state
        new.update(s=rnd.choice(T_START + ['none']), kw={k: rnd.choice('123') for k in KEYS if rnd.random() < 0.5})
    w = World(T_STATES, maxloops, _rand_plan(seed, True, chain), new)
    badpos = rnd.randrange(nops) if bad else -1
    for n in range(nops):
        if n == badpos:
            w.post(task_start(rnd.choice(T_START), {'x': '2'}, 'K'), bad=rnd.choice(BAD_KEYS))
        elif rnd.random() < 0.6:
            w.cycle()
        else:
            w.post(_rand_task(rnd))
            w.events.append({'ev': 'state', 'st': w.alpha()})
    return [_norm(e) if e['ev'] != 'raised' else e for e in w.events]


# ------------------------------------------------------------------ code -> spec, second thread

class LockProxy:
    """stands in for a lock of the object under test: tells the running Preempt controller when the second
    thread has to wait for it, and who owns it (no time-outs needed to see that a thread is blocked)"""

    def __init__(self, inner):
        self.inner = inner
        self.owner = None
        self.count = 0

    def acquire(self, blocking=True, timeout=-1):
        if not self.inner.acquire(False):
            if not blocking:
                return False
            p = Preempt.current
            if p is not None and threading.current_thread() is p.t2:
                p.waiting_on = self
                p.t2evt.set()
            self.inner.acquire()
            if p is not None and threading.current_thread() is p.t2:
                p.waiting_on = None
        self.owner = threading.get_ident()
        self.count += 1
        return True

    def release(self):
        self.count -= 1
        if self.count == 0:
            self.owner = None
        self.inner.release()

    __enter__ = acquire

    def __exit__(self, *args):
        self.release()

    def locked(self):
        return self.count > 0


class Preempt:
    """run fn() in thread 1; before the k-th line event in the traced files thread 1 pauses and `other()` runs
    in thread 2 to completion; if thread 2 has to wait for a lock (LockProxy) owned by thread 1, thread 1 is
    advanced line by line until it has released that lock, thread 2 goes on, and so forth; then thread 1
    resumes.  k=None: only count line events.  Deterministic: exactly one thread runs at any time."""
    current = None

    def __init__(self, files, k, other):
        self.files = tuple(files)
        self.k = k
        self.other = other
        self.n = 0
        self.fired = False
        self.stepping = False
        self.finished = False
        self.blocked = 0
        self.waiting_on = None
        self.t2 = None
        self.paused = threading.Event()
        self.resume = threading.Event()
        self.t2evt = threading.Event()     # thread 2 finished or started waiting for a lock
        self.t2done = threading.Event()
        self.errors = []

    def _trace(self, frame, event, arg):
        if not frame.f_code.co_filename.endswith(self.files):
            return None
        if event == 'line':
            self.n += 1
            if self.n == self.k or self.stepping:
                self.fired = True
                self.paused.set()
                self.resume.wait()
                self.resume.clear()
        return self._trace

    def _t1(self, fn):
        sys.settrace(self._trace)
        try:
            fn()
        except BaseException as e:   # noqa
            self.errors.append(repr(e))
        finally:
            sys.settrace(None)
            self.finished = True
            self.paused.set()

    def _t2(self):
        try:
            self.other()
        except BaseException as e:   # noqa
            self.errors.append(repr(e))
        self.t2done.set()
        self.t2evt.set()

    def run(self, fn):
        Preempt.current = self
        t1 = threading.Thread(target=self._t1, args=(fn,), daemon=True)
        t1.start()
        self.paused.wait()
        while not self.finished:
            self.paused.clear()
            if self.t2 is None:
                self.t2 = threading.Thread(target=self._t2, daemon=True)
                self.t2.start()
            w = self.waiting_on
            if w is None or w.owner != t1.ident:
                # thread 2 is runnable: let it run until it is done or has to wait for a lock
                if not self.t2evt.wait(20):
                    self.errors.append('thread 2 neither finishes nor waits for a known lock')
                    self.t2done.set()
                self.t2evt.clear()
                if not self.t2done.is_set():
                    self.blocked += 1
            self.stepping = not self.t2done.is_set()
            self.resume.set()
            if not self.stepping:
                break
            if not self.paused.wait(20):
                self.errors.append('deadlock: thread 1 does not get on while thread 2 waits')
                break
        t1.join(10)
        if self.t2 is not None:
            self.t2.join(10)
        if t1.is_alive() or (self.t2 is not None and self.t2.is_alive()):
            self.errors.append('deadlock')
        Preempt.current = None
        return self.n


def _conc_scenario(seed):
    """prefix (sequential ops), one preempted cycle, two follow-up cycles - for every line position k
    and for both kinds of request of the second thread; returns list of (meta, trace)"""
    out = []
    rnd0 = random.Random(seed)
    nprefix = rnd0.randint(1, 4)
    for kind in ('start', 'stop'):
        k = None
        n = None
        while True:
            rnd = random.Random(seed)
            w = World(T_STATES, T_MAXLOOPS, _rand_plan(seed, False), {'hook': seed % 3 != 0})
            w.post(task_start(rnd.choice(T_START), {'x': '1'}, rnd.choice(['K', 'K', 'none'])))
            for _ in range(nprefix):
                if rnd.random() < 0.7:
                    w.cycle()
                else:
                    w.post(_rand_task(rnd))
            task = task_stop() if kind == 'stop' else task_start(rnd.choice(T_START), {'x': '3', 'y': '2'}, 'K')
            w.sm._lock = LockProxy(w.sm._lock)
            p = Preempt([SM_FILE], k, lambda: w.post(task))
            w.events.append({'ev': 'begin'})
            total = p.run(w.sm.cycle)
            if p.errors:
                w.events.append({'ev': 'raised', 'exc': p.errors[0]})
            else:
                w.events.append({'ev': 'end', 'st': w.alpha()})
                if k is not None and not p.fired:
                    w.post(task)
                w.cycle()
                w.cycle()
            if k is not None:
                out.append(({'seed': seed, 'kind': kind, 'k': k, 'lines': total, 'blocked': p.blocked},
                            [e if e['ev'] == 'raised' else _norm(e) for e in w.events]))
            if k is None:
                n = total
                k = 1
            else:
                k += 1
            if k > n:
                break
    return out


# ------------------------------------------------------------------ HasStates

HS_FILES = [SM_FILE, 'frappy/states.py']
HS_STATES = ['s_a', 's_b', 's_c', 'k_1', 'k_2', 'k_3']
HS_CODES = {'s_b': ('PREPARING', 'state b'), 's_c': ('FINALIZING', None), 'k_1': ('BUSY', 'after cleanup'),
            'k_3': ('BUSY', 'restarting')}     # same text as the immediate status of a restart
HS_OVERRIDE = [None, None, None, ('RAMPING', 'custom'), ('BUSY', 'going')]   # start_machine(status=...)
HS_FINAL = [('IDLE', 'finished'), ('IDLE', ''), ('WARN', 'done with warning'), ('ERROR', 'failed')]
HS_STOPPED = [('IDLE', 'stopped'), ('IDLE', 'halted'), ('WARN', 'stopped')]
_hs_class = {}


def _hs_mod_class(all_changes=True):
    if all_changes in _hs_class:
        return _hs_class[all_changes]
    boot()
    from frappy.core import Drivable, Parameter
    from frappy.datatypes import Enum, StatusType
    from frappy.states import Finish, HasStates, Retry, status_code
    Status = Enum(Drivable.Status, PREPARING=340, RAMPING=370, FINALIZING=390)

    def mkstate(name):
        def fn(self, sm):
            b = self.world.next('call', name)
            return self.world.do(b)
        fn.__name__ = fn.__qualname__ = name
        if name in HS_CODES:
            fn = status_code(*HS_CODES[name])(fn)
        return fn

    class Mod(HasStates, Drivable):
        status = Parameter(datatype=StatusType(Status))
        all_status_changes = all_changes
        world = None

        def _handler(self, kind, sm):
            self.world.events.append({'ev': 'oncleanup', 'kind': kind, 'reason': self.world.reason(sm)})

        def on_error(self, sm):
            self._handler('error', sm)
            return super().on_error(sm)

        def on_restart(self, sm):
            self._handler('start', sm)
            return super().on_restart(sm)

        def on_stop(self, sm):
            self._handler('stop', sm)
            return super().on_stop(sm)

        def state_transition(self, sm, newstate):
            self.world.events.append({'ev': 'hook', 'to': getattr(newstate, '__name__', 'none'),
                                      'task': self.world.kind(sm.next_task), 'reason': self.world.reason(sm)})
            super().state_transition(sm, newstate)

        def my_cleanup(self, sm):
            b = self.world.next('cleanup', '<cleanup>')
            return self.world.do(b)

    for n in HS_STATES:
        setattr(Mod, n, mkstate(n))
    Mod.Retry, Mod.Finish, Mod.StatusEnum = Retry, Finish, Status
    _hs_class[all_changes] = Mod
    return Mod


class HSWorld:
    """a real Drivable with the HasStates mixin; poll thread replaced by explicit doPoll calls"""

    def __init__(self, plan, all_changes=True):
        cls = _hs_mod_class(all_changes)
        import frappy.lib.statemachine as m
        self.m = m
        self.plan = plan
        self.events = []
        self.count = {}
        self.requesting = None
        world = self

        class Disp:
            def announce_update(self, moduleobj, pobj):
                if pobj.name == 'status':
                    if pobj.readerror:
                        world.events.append({'ev': 'update', 'busy': False, 'code': 0, 'isbusy': False,
                                             'isdriving': False, 'st': 'readerror', 'own': False})
                    else:   # own: sent by the thread that is inside start_machine()
                        world.events.append(dict(ev='update', own=world.requesting == threading.get_ident(),
                                                 **world.stat(pobj.value)))

        class Srv:
            dispatcher = Disp()
            secnode = None

        class Started(Exception):
            pass

        def started():
            raise Started()

        self.mod = mod = cls('obj', LoggerStub(), {'description': ''}, Srv())
        mod.world = self
        mod.initModule()
        try:
            mod._Module__pollThread(mod.polledModules, started)
        except Started:
            pass
        sm = mod._state_machine
        sm_start = sm.start

        def start(*args, **kwds):      # observable step inside start_machine(): the request is handed over
            sm_start(*args, **kwds)
            self.events.append({'ev': 'posted'})
        sm.start = start
        del self.events[:]

    def kind(self, t):
        return 'none' if t is None else 'stop' if isinstance(t, self.m.Stop) else 'start'

    def reason(self, sm):
        return 'error' if isinstance(sm.cleanup_reason, Exception) else self.kind(sm.cleanup_reason)

    def stat(self, status):
        """status as seen by the spec: code + the verdicts of the module's own busy predicates
        (`busy` is only used to classify a rejected trace)"""
        code = int(status[0])
        return {'busy': 300 <= code < 400, 'code': code, 'st': '%d:%s' % (code, status[1]),
                'isbusy': bool(self.mod.isBusy(status)), 'isdriving': bool(self.mod.isDriving(status))}

    def code(self, name):
        return getattr(self.mod.StatusEnum, name)

    def next(self, kind, fn):
        i = self.count.get(fn, 0)
        self.count[fn] = i + 1
        return self.plan(kind, fn, i)

    def do(self, b):
        for op in b.get('post', ()):
            self.op(op, nested=True)
        k = b['k']
        if k == 'retry':
            return self.mod.Retry
        if k == 'finish':
            return self.mod.Finish
        if k == 'none':
            return None
        if k == 'final':
            code, text = b['st']
            self.events.append({'ev': 'final', 'st': '%d:%s' % (int(self.code(code)), text)})
            if (code, text) == ('IDLE', ''):
                return self.mod.final_status()          # the defaults
            return self.mod.final_status(self.code(code), text)
        if k == 'raise':
            raise b.get('exc', Raised)('scripted')
        if k == 'noncallable':
            return b.get('value', 42)
        return getattr(self.mod, b['s'])

    def op(self, op, nested=False):
        """one operation on the module.  An exception leaving doPoll / start_machine / stop_machine / stop is an
        observation (event `raised`, which no action of the spec explains), never a failure of the harness"""
        try:
            self._op(op)
        except BaseException as e:   # noqa
            self.events.append({'ev': 'raised', 'where': op['op'], 'exc': repr(e)})
        if not nested:
            self.quiet()

    def _op(self, op):
        mod = self.mod
        if op['op'] == 'start':
            kw = {'cleanup': mod.my_cleanup} if op['c'] == 'K' else {}
            if op.get('status'):
                kw['status'] = (self.code(op['status'][0]), op['status'][1])
            if not op.get('fast', True):
                kw['fast_poll'] = False
            outer, self.requesting = self.requesting, threading.get_ident()
            try:
                mod.start_machine(getattr(mod, op['s']), **kw)
            finally:
                self.requesting = outer
            self.events.append({'ev': 'started', 'fast': bool(op.get('fast', True))})
        elif op['op'] == 'stopcmd':
            active = mod._state_machine.is_active
            mod.stop()                                  # the SECoP command: default stopped status
            self.events.append({'ev': 'stopreq', 'active': bool(active), 'st': '%d:stopped' % int(self.code('IDLE'))})
        elif op['op'] == 'stop':
            active = mod._state_machine.is_active
            code, text = op['st']
            mod.stop_machine((self.code(code), text))
            self.events.append({'ev': 'stopreq', 'active': bool(active),
                                'st': '%d:%s' % (int(self.code(code)), text)})
        else:
            mod.doPoll()
            self.events.append({'ev': 'polled'})

    def quiet(self):
        sm = self.mod._state_machine
        self.events.append(dict(ev='quiet', active=sm.statefunc is not None, pending=self.kind(sm.next_task),
                                fast=bool(self.mod.pollInfo.fast_flag), **self.stat(self.mod.status)))


def _hs_rand_op(rnd, poll=0.6):
    r = rnd.random()
    if r < poll:
        return {'op': 'poll'}
    if r < poll + (1 - poll) * 0.6:
        return {'op': 'start', 's': rnd.choice(HS_STATES[:3]), 'c': rnd.choice(['K', 'default', 'default']),
                'fast': rnd.random() < 0.7, 'status': rnd.choice(HS_OVERRIDE)}
    if rnd.random() < 0.3:
        return {'op': 'stopcmd'}
    return {'op': 'stop', 'st': rnd.choice(HS_STOPPED)}


def _hs_plan(seed, reentrant, quick=0.0):
    """quick: extra probability that a state function ends the run at once (machines that finish
    within their first cycle)"""
    def plan(kind, fn, i):
        rnd = random.Random(f'{seed}/hs/{kind}/{fn}/{i}')
        post = [_hs_rand_op(rnd, 0.0)] if reentrant and rnd.random() < 0.15 else []
        r = rnd.random()
        if kind == 'call' and rnd.random() < quick:
            b = {'k': 'final', 'st': rnd.choice(HS_FINAL)} if rnd.random() < 0.7 else {'k': 'finish'}
        elif kind == 'call':
            if r < 0.45:
                b = {'k': 'retry'}
            elif r < 0.55:
                b = {'k': 'finish'}
            elif r < 0.70:
                b = {'k': 'final', 'st': rnd.choice(HS_FINAL)}
            elif r < 0.92:
                b = {'k': 'next', 's': rnd.choice(HS_STATES)}
            else:
                b = {'k': 'raise'}
        else:
            b = {'k': 'none'} if r < 0.35 else {'k': 'next', 's': rnd.choice(HS_STATES[3:])} if r < 0.75 else \
                {'k': 'noncallable', 'value': rnd.choice(NONCALLABLES[:1] + NONCALLABLES[2:])} if r < 0.83 else \
                {'k': 'raise', 'exc': rnd.choice(_raisers())}
        b['post'] = post
        return b
    return plan


def _hs_random_trace(arg):
    seed, nops = arg
    rnd = random.Random(seed)
    w = HSWorld(_hs_plan(seed, True), all_changes=seed % 3 != 0)
    for _ in range(nops):
        w.op(_hs_rand_op(rnd))
    return w.events


def _hs_conc_scenario(seed):
    out = []
    nprefix = random.Random(seed).randint(0, 4)
    for kind in ('start', 'stop'):
        k = n = None
        while True:
            rnd = random.Random(seed)
            w = HSWorld(_hs_plan(seed, False), all_changes=seed % 4 != 0)
            w.op({'op': 'start', 's': rnd.choice(HS_STATES[:3]), 'c': rnd.choice(['K', 'default']),
                  'fast': rnd.random() < 0.7})
            if seed % 2 == 0:
                # directed: the run is active and a RESTART is pending when the preempted poll ends it
                # (state_transition(None) takes its start-case branch while the request arrives)
                w.op({'op': 'poll'})
                if w.mod._state_machine.statefunc is None:       # the first run ended at once: start another
                    w.op({'op': 'start', 's': rnd.choice(HS_STATES[:3]), 'c': 'default', 'fast': True})
                    w.op({'op': 'poll'})
                w.op({'op': 'start', 's': rnd.choice(HS_STATES[:3]), 'c': 'default', 'fast': rnd.random() < 0.7})
            else:
                for _ in range(nprefix):
                    w.op(_hs_rand_op(rnd, 0.75))
            op2 = {'op': 'start', 's': rnd.choice(HS_STATES[:3]), 'c': 'default', 'fast': True} if kind == 'start' \
                else {'op': 'stop', 'st': HS_STOPPED[1]} if seed % 2 else {'op': 'stopcmd'}
            w.mod._state_machine._lock = LockProxy(w.mod._state_machine._lock)
            w.mod.accessLock = LockProxy(w.mod.accessLock)
            w.mod.updateLock = LockProxy(w.mod.updateLock)
            p = Preempt(HS_FILES, k, lambda: w.op(op2, nested=True))
            total = p.run(w.mod.doPoll)
            if p.errors:
                w.events.append({'ev': 'raised', 'exc': p.errors[0]})
            else:
                if k is not None and not p.fired:
                    w.op(op2, nested=True)
                w.quiet()
                w.op({'op': 'poll'})
                w.op({'op': 'poll'})
            if k is not None:
                out.append(({'seed': seed, 'kind': kind, 'k': k, 'lines': total, 'blocked': p.blocked}, w.events))
            if k is None:
                n, k = total, 1
            else:
                k += 1
            if k > n:
                break
    return out


def _hs_req_scenario(seed):
    """the dual of _hs_conc_scenario: the REQUEST (start_machine / stop_machine / stop command) runs in
    thread 1 and is preempted before each of its lines; thread 2 is the poll thread doing one doPoll"""
    out = []
    nprefix = random.Random(seed).choice([0, 0, 1, 2, 3])
    for kind in ('start', 'stop'):
        k = n = None
        while True:
            rnd = random.Random(seed)
            w = HSWorld(_hs_plan(seed, False, quick=0.5 if seed % 2 else 0.0), all_changes=seed % 4 != 0)
            for _ in range(nprefix):
                w.op(_hs_rand_op(rnd, 0.5))
            op1 = {'op': 'start', 's': rnd.choice(HS_STATES[:3]), 'c': rnd.choice(['K', 'default']),
                   'fast': rnd.random() < 0.7, 'status': rnd.choice(HS_OVERRIDE)} if kind == 'start' \
                else {'op': 'stop', 'st': HS_STOPPED[1]} if seed % 3 else {'op': 'stopcmd'}
            w.mod._state_machine._lock = LockProxy(w.mod._state_machine._lock)
            w.mod.accessLock = LockProxy(w.mod.accessLock)
            w.mod.updateLock = LockProxy(w.mod.updateLock)
            p = Preempt(HS_FILES, k, lambda: w.op({'op': 'poll'}, nested=True))
            total = p.run(lambda: w.op(op1, nested=True))
            if p.errors:
                w.events.append({'ev': 'raised', 'exc': p.errors[0]})
            else:
                if k is not None and not p.fired:
                    w.op({'op': 'poll'}, nested=True)
                w.quiet()
                w.op({'op': 'poll'})
                w.op({'op': 'poll'})
            if k is not None:
                out.append(({'seed': seed, 'kind': kind, 'k': k, 'lines': total, 'blocked': p.blocked}, w.events))
            if k is None:
                n, k = total, 1
            else:
                k += 1
            if k > n:
                break
    return out


def _hs_classify(trace, l, mode='preempt'):
    """history class of a rejected event (stable, used as finding signature)"""
    ev = trace[l - 1] if 0 < l <= len(trace) else {}
    before = trace[:l - 1]
    ends = [i for i, e in enumerate(before) if e['ev'] == 'hook' and e['to'] == 'none']
    after = [e['ev'] for e in before[ends[-1] + 1:]] if ends else []
    seg = []                       # what happened while the run was ending (until cycle() went on)
    for name in after:
        if name in ('hook', 'quiet'):
            break
        seg.append(name)
    request = 'no' if 'quiet' in after else 'started' if 'started' in seg or 'posted' in seg else \
        'stopreq' if 'stopreq' in seg else 'no'
    sig = {'event': ev.get('ev')}
    if ev.get('ev') == 'raised':
        sig['exc'] = ev['exc'].split('(')[0] + (':Stop.newstate' if "'Stop' object has no attribute 'newstate'" in ev['exc'] else '')
        sig['where'] = ev.get('where', 'doPoll')
    elif ev.get('ev') == 'update':
        sig['busy'] = ev['busy']
        if ev.get('own'):
            sig['own'] = True           # published by start_machine() itself
        sig['request_while_run_ends'] = request
    elif ev.get('ev') == 'quiet':
        sig['state'] = 'active=%s pending=%s busy=%s fast=%s' % (ev['active'], ev['pending'], ev['busy'], ev['fast'])
        sig['request_while_run_ends'] = request
    # the two known race families between a request and the cycle that ends a run (specific: which request,
    # and what is wrong afterwards)
    running = ev.get('ev') == 'quiet' and (ev['active'] or ev['pending'] == 'start')
    if not mode.startswith('preempt'):
        pass                    # races need a second thread: never a family in single-threaded runs
    elif request == 'started' and not ev.get('busy', True) and (ev.get('ev') == 'update' or running):
        sig['family'] = 'start request vs finishing run: not busy although started'
    elif request == 'stopreq' and ev.get('ev') == 'quiet' and not running:
        sig['family'] = 'stop request vs finishing run: status neither final nor stopped'
    elif ev.get('ev') == 'quiet' and running == ev['busy'] and running != ev['fast']:
        sig['family'] = 'fast polling out of step with the machine'
    return sig


# ------------------------------------------------------------------ run

def _classify(trace, l):
    ev = trace[l - 1] if 0 < l <= len(trace) else {}
    if ev.get('ev') == 'post' and ev.get('bad', '-') != '-':
        return {'event': 'post', 'forbidden_keyword': 'accepted'}
    prev = [e['ev'] for e in trace[max(0, l - 3):l - 1]]
    sig = {'event': ev.get('ev'), 'after': prev[-1] if prev else None}
    if ev.get('ev') == 'raised':          # an exception left cycle() / start() / stop()
        sig.update(exc=str(ev.get('exc', '')).split('(')[0], where=ev.get('where', 'cycle'))
    return sig


HANG = '__hang__'


def _guarded(arg):
    """run one worker item in a daemon thread: a call into the state machine that never returns (e.g. a request
    made by a cleanup function that blocks on a lock held by the cycle) must end as a verdict, not as a check
    that hangs (DESIGN 9.5 lesson 7)"""
    fname, a, limit = arg
    box = {}

    def work():
        try:
            box['r'] = globals()[fname](a)
        except BaseException as e:  # noqa
            box['e'] = e
    th = threading.Thread(target=work, daemon=True)
    th.start()
    th.join(limit)
    if th.is_alive():
        return HANG
    if 'e' in box:
        raise box['e']
    return box['r']


def _gmap(chk, fn, args, limit, module, empty, **kw):
    """pool_map with the guard; an item that does not come back is a violation of the termination clause and is
    replaced by `empty` for the rest of the evaluation"""
    res = pool_map(_guarded, [(fn.__name__, a, limit) for a in args], **kw)
    out = []
    for a, r in zip(args, res):
        if isinstance(r, str) and r == HANG:
            chk.impl_traces += 1
            chk.violation({'module': module, 'clause': 'every call returns (cycle / start / stop terminate)',
                           'worker': fn.__name__},
                          {'hang': {'fn': fn.__name__, 'arg': a, 'limit': limit}})
            out.append(empty)
        else:
            out.append(r)
    return out


def run(chk):
    quick = chk.tier == 'quick'
    chk.rule = ('spec->code: every (program table, operation sequence over cycle/start/stop) that Gen_StateMachine '
                'enumerates inside its depth and call budget is replayed on the real StateMachine; a case is '
                'distinct by its operation sequence incl. the behaviours chosen at each call, non-trivial if it '
                'contains a cleanup call or a start picked up. code->spec: seeded random runs and line-preempted '
                'runs, one trace each, judged by TLC')
    for m in ('StateMachine', 'Gen_StateMachine', 'Trace_StateMachine', 'HasStates', 'Trace_HasStates', 'HasStatesDesign'):
        sany(m)
    t = 'quick' if quick else 'thorough'
    chk.add_tlc(model_check('StateMachine', f'MC_StateMachine_{t}.cfg', timeout=1000))
    chk.add_tlc(model_check('StateMachine', f'MC_StateMachine_seq_{t}.cfg', timeout=1000))

    # spec -> code
    r, behs = emit_behaviours('Gen_StateMachine', f'Gen_StateMachine_{t}.cfg', maximal_only=False, timeout=1000)
    chk.add_tlc(r)
    maxloops = 2
    res = _gmap(chk, _replay, [(b, maxloops) for b in behs], 8, 'StateMachine', None)
    for beh, bad in zip(behs, res):
        chk.impl_traces += 1
        acts = [{k: v for k, v in s.items() if k != 'exp'} for s in beh]
        nontriv = any(e['ev'] == 'cleanup' or (e['ev'] == 'hook' and e['to'] != 'none')
                      for s in beh for e in s.get('calls', ()))
        chk.case(json.dumps(acts, sort_keys=True), nontriv)
        if bad:
            chk.violation({'module': 'StateMachine', 'mode': 'replay', 'op': bad['act'], 'diff': _diff_fields(bad)},
                          {'behaviour': beh, 'maxloops': maxloops, **bad})
    if behs:
        chk.sample({'behaviour': [{k: v for k, v in s.items() if k != 'exp'} for s in behs[len(behs) // 2]]})

    # code -> spec, single thread with re-entrant requests
    n = 300 if quick else 6000
    args = [(chk.seed * 1000003 + i, 14 if i % 2 else 30, _variant(i)) for i in range(n)]
    traces = _gmap(chk, _random_trace, args, 8, 'StateMachine', None)
    metas = [{'mode': 'random', 'seed': a[0], 'nops': a[1], 'variant': list(a[2])} for a in args]
    metas = [m for m, tr in zip(metas, traces) if tr is not None]
    traces = [tr for tr in traces if tr is not None]
    # code -> spec, second thread at every line of cycle()
    ns = 8 if quick else 150
    for part in _gmap(chk, _conc_scenario, [chk.seed * 7919 + i for i in range(ns)], 240, 'StateMachine', [], chunksize=1):
        for meta, tr in part:
            metas.append(dict(meta, mode='preempt'))
            traces.append(tr)
    verdicts = {}
    for ml, cfg in ((T_MAXLOOPS, 'Trace_StateMachine.cfg'), (1, 'Trace_StateMachine_m1.cfg'),
                    (None, 'Trace_StateMachine_m10.cfg')):
        idx = [i for i, m in enumerate(metas) if m.get('variant', [T_MAXLOOPS])[0] == ml]
        vd, st, tr = validate_traces('Trace_StateMachine', [traces[i] for i in idx], cfg, timeout=1000)
        chk.states += st
        chk.transitions += tr
        verdicts.update({idx[j]: v for j, v in vd.items()})
    for i, v in verdicts.items():
        chk.impl_traces += 1
        chk.case('t%d' % i, True)
        if v is not None:
            sig = {'module': 'StateMachine', 'mode': metas[i]['mode'], **_classify(traces[i], v[0])}
            chk.violation(sig, {'meta': metas[i], 'trace': traces[i], 'failed_at': v[0], 'clause': v[1]})
    chk.sample({'random_trace_prefix': traces[0][:6]})
    chk.notes['preempted_runs'] = sum(1 for m in metas if m['mode'] == 'preempt')
    chk.notes['preempt_lock_waits'] = sum(m.get('blocked', 0) for m in metas)

    # HasStates: BusyWhileRunning
    chk.add_tlc(model_check('HasStates', 'MC_HasStates.cfg', timeout=300))
    # start_machine as the two steps it is, against cycles of the poll thread: fine when request and cycle
    # exclude each other; the two unsynchronised orders must each break their invariant (the check has teeth)
    chk.add_tlc(model_check('HasStatesDesign', 'MC_HasStatesDesign.cfg', timeout=300))
    if not quick:
        for cfg, inv in (('MC_HasStatesDesign_asimpl.cfg', 'BusyWhileRunning'),
                         ('MC_HasStatesDesign_reordered.cfg', 'QuiescentNotBusy')):
            r = run_tlc('HasStatesDesign', cfg, timeout=300)
            if r.violated != ('invariant', inv):
                raise MachineryError(f'{cfg} is expected to violate {inv}, got {r.violated or r.error}')
    n = 200 if quick else 4000
    seeds = [(chk.seed * 1000033 + i, 25) for i in range(n)]
    traces = _gmap(chk, _hs_random_trace, seeds, 8, 'HasStates', None)
    metas = [{'mode': 'random', 'seed': sd, 'nops': k} for sd, k in seeds]
    metas = [m for m, tr in zip(metas, traces) if tr is not None]
    traces = [tr for tr in traces if tr is not None]
    ns = 6 if quick else 120
    for part in _gmap(chk, _hs_conc_scenario, [chk.seed * 7907 + i for i in range(ns)], 240, 'HasStates', [], chunksize=1):
        for meta, tr in part:
            metas.append(dict(meta, mode='preempt'))
            traces.append(tr)
    ns = 30 if quick else 400
    for part in _gmap(chk, _hs_req_scenario, [chk.seed * 7901 + i for i in range(ns)], 240, 'HasStates', [], chunksize=1):
        for meta, tr in part:
            metas.append(dict(meta, mode='preempt-request'))
            traces.append(tr)
    verdicts, st, tr = validate_traces('Trace_HasStates', traces, 'Trace_HasStates.cfg', timeout=1000)
    chk.states += st
    chk.transitions += tr
    for i, v in verdicts.items():
        chk.impl_traces += 1
        chk.case('h%d' % i, True)
        if v is not None:
            sig = {'module': 'HasStates', 'mode': metas[i]['mode'], **_hs_classify(traces[i], v[0], metas[i]['mode'])}
            chk.violation(sig, {'meta': metas[i], 'trace': traces[i], 'failed_at': v[0], 'clause': v[1]})
    chk.sample({'hasstates_trace_prefix': traces[0][:8]})
    chk.notes['hasstates_preempted_runs'] = sum(1 for m in metas if m['mode'] == 'preempt')
    chk.notes['hasstates_preempted_requests'] = sum(1 for m in metas if m['mode'] == 'preempt-request')
    chk.assumptions += ['thread switches are placed at line boundaries of frappy/lib/statemachine.py and '
                        'frappy/states.py (CPython GIL); the second thread performs ONE start/stop request per cycle',
                        'state functions, cleanup function and hook are plain Python functions; raising hooks and '
                        'BaseException are outside the alphabet']
    chk.exhaustive = False


def replay(chk, rep):
    d = rep['detail']
    hs = rep.get('signature', {}).get('module') == 'HasStates'
    if 'hang' in d:
        h = d['hang']
        a = h['arg']
        a = tuple(tuple(x) if isinstance(x, list) and h['fn'] == '_random_trace' and i == 2 else x
                  for i, x in enumerate(a)) if isinstance(a, list) else a
        r = _guarded((h['fn'], a, h['limit']))
        print('the call does not return' if isinstance(r, str) and r == HANG else r)
        return 0
    if 'behaviour' in d:
        print(json.dumps(_replay((d['behaviour'], d['maxloops'])), indent=1))
    elif hs and d['meta']['mode'] == 'random':
        for e in _hs_random_trace((d['meta']['seed'], d['meta']['nops'])):
            print(e)
        print('TLC rejected event', d['failed_at'])
    elif hs:
        fn = _hs_req_scenario if d['meta']['mode'] == 'preempt-request' else _hs_conc_scenario
        for meta, tr in fn(d['meta']['seed']):
            if meta['k'] == d['meta']['k'] and meta['kind'] == d['meta']['kind']:
                for e in tr:
                    print(e)
        print('TLC rejected event', d['failed_at'])
    elif d.get('meta', {}).get('mode') == 'random':
        for e in _random_trace((d['meta']['seed'], d['meta']['nops'], tuple(d['meta']['variant']))):
            print(e)
        print('TLC rejected event', d['failed_at'])
    elif d.get('meta', {}).get('mode') == 'preempt':
        for meta, tr in _conc_scenario(d['meta']['seed']):
            if meta['k'] == d['meta']['k'] and meta['kind'] == d['meta']['kind']:
                for e in tr:
                    print(e)
        print('TLC rejected event', d['failed_at'])
    else:
        print(json.dumps(d, indent=1))
    return 0
