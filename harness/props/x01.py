"""X01 - the SECoP router (frappy/protocol/router.py): several upstream SEC nodes presented as one.

spec/Router.tla.  Binding:
  spec -> code : every behaviour of Gen_Router (upstream update / request / node lost / given up / back /
                 activate / deactivate / describe) is replayed on the REAL Router dispatcher with one REAL
                 SecopClient per upstream node (all their rx/tx/reconnect threads) over scripted in-memory
                 upstream nodes, under the deterministic scheduler in virtual time; the projected state
                 (cache per node, node states, what every downstream connection received, replies,
                 which upstream saw the request, restart requests) is compared after every step.
  code -> spec : seeded random histories (longer, more values, random thread schedules during the steps)
                 are recorded and validated by TLC (Trace_Router).
"""
import json
import os
import random

from .. import detsched as ds
from ..core import emit_behaviours, model_check, pool_map, sany, validate_traces
from ..env import LoggerStub, boot

META = {
    'text': 'TLC model-checks the router design (merge of descriptions, ownership of modules, exact forwarding of '
            'requests, per-connection update streams, node loss / give-up / return, restart on changed description); '
            'every depth-bounded behaviour TLC enumerates is replayed on the real Router + real SecopClient objects '
            '(all client threads under a deterministic scheduler, virtual time) over scripted upstream nodes with '
            'the projected state compared after each step; seeded random histories of the real objects are validated '
            'by TLC against Trace_Router.',
    'note': 'Trusted: TLC, harness/detsched.py, the scripted upstream node and the fake AsynConn / MultiEvent in '
            'harness/props/x01.py. Bounds: 2 upstream nodes, 2-3 modules, 2 downstream connections, small value '
            'catalogue. Steps are executed one after the other (each runs to quiescence); thread schedules inside '
            'a step are varied randomly in the code->spec direction only.',
    'tech': 'TLA+ spec (Router.tla) + TLC model checking; spec->code replay of all TLC behaviours on the real '
            'objects; code->spec TLC trace validation',
    'ref': 'growth module X01 (router), DESIGN.md section 8',
}

T0 = 1000000.0

# ------------------------------------------------------------------ catalogue (gamma / alpha of values)
# every upstream module has the same three parameters and one command; the abstract values 0..NV-1 of the
# specification are concretised per datatype so that wire value and internal (imported) value differ where
# the datatype makes them differ (scaled: wire 10*k / internal 1.0*k; enum: wire k / internal EnumMember)
PARAMS = {
    'value': {'type': 'double'},
    'sp': {'type': 'scaled', 'scale': 0.1, 'min': 0, 'max': 1000},
    'mode': {'type': 'enum', 'members': {'m0': 0, 'm1': 1, 'm2': 2, 'm3': 3, 'm4': 4, 'm5': 5}},
}
WIRE = {'value': lambda k: k + 0.5, 'sp': lambda k: 10 * k, 'mode': lambda k: k}
UNWIRE = {'value': lambda w: w - 0.5, 'sp': lambda w: w / 10, 'mode': lambda w: w}
ERRCLS = {'hw': 'HardwareError', 'range': 'RangeError', 'comm': 'CommunicationFailed', 'nomod': 'NoSuchModule',
          'nopar': 'NoSuchParameter', 'nocmd': 'NoSuchCommand', 'ro': 'ReadOnly', 'internal': 'InternalError',
          'disabled': 'Disabled', 'proto': 'ProtocolError'}
CLSERR = {v: k for k, v in ERRCLS.items()}
BADVAL = 99       # alpha of a wire value outside the catalogue (type-stable for TLC)


def unwire(param, w):
    """wire value -> abstract value (BADVAL when it is not the wire form of a catalogue value)"""
    try:
        if isinstance(w, bool) or not isinstance(w, (int, float)):
            return BADVAL
        k = UNWIRE[param](w)
        if k == int(k) and 0 <= k < 50 and type(w) is type(WIRE[param](int(k))):
            return int(k)
    except Exception:
        pass
    return BADVAL


def moddesc(descr):
    acc = {p: {'description': p, 'datainfo': dict(di), 'readonly': p == 'value'} for p, di in PARAMS.items()}
    acc['go'] = {'description': 'cmd', 'datainfo': {'type': 'command', 'argument': {'type': 'int', 'min': 0, 'max': 99},
                                                    'result': {'type': 'int', 'min': 0, 'max': 99}}}
    return {'description': descr, 'interface_classes': ['Readable'], 'features': [], 'accessibles': acc}


class Up:
    """scripted in-memory upstream SEC node (answers synchronously inside the client's send)"""

    def __init__(self, world, name, modules, version=0):
        self.w = world
        self.name = name
        self.uri = 'fake://' + name
        self.modules = list(modules)
        self.version = version         # descriptive data version (a change = another node description)
        self.open = True               # accepts connections
        self.mute = False              # connected but does not answer requests
        self.io = None
        self.active = False
        self.values = {}               # (m, p) -> ('v', k, t) | ('e', errkey, t)
        self.tick = 0
        self.received = []             # [action, ident, data] of read / change / do requests
        self.react = None              # scripted outcome of the next request ('ok', k) | ('err', errkey)

    def description(self):
        d = {'equipment_id': 'eq_' + self.name, 'description': 'node ' + self.name, 'firmware': 'fw%d' % self.version,
             'modules': {m: moddesc('module %s of %s v%d' % (m, self.name, self.version)) for m in self.modules}}
        return d

    def stamp(self):
        self.tick += 1
        return self.tick

    def line_for(self, m, p, prefix='update'):
        e = self.values[m, p]
        if e[0] == 'v':
            return '%s %s:%s %s' % (prefix, m, p, json.dumps([WIRE[p](e[1]), {'t': e[2]}]))
        return 'error_%s %s:%s %s' % (prefix, m, p, json.dumps([ERRCLS[e[1]], 'text ' + e[1], {'t': e[2]}]))

    def push(self, line):
        if self.io is not None and not self.io.closed:
            self.io.p2c.append(line)

    # --- driver side
    def set_value(self, m, p, k=None, err=None):
        self.values[m, p] = ('v', k, 100 + k) if err is None else ('e', err, 200)
        if self.active:
            self.push(self.line_for(m, p))

    def drop(self):
        self.open = False
        self.active = False
        if self.io is not None:
            self.io.closed = True
        self.io = None

    # --- connection side
    def handle(self, io, line):
        parts = line.split(' ', 2)
        action = parts[0]
        ident = parts[1] if len(parts) > 1 else None
        data = json.loads(parts[2]) if len(parts) > 2 else None
        if action == '*IDN?':
            io.p2c.append('ISSE,SECoP,V2019-09-16,v1.0')
        elif action == 'describe':
            io.p2c.append('describing . ' + json.dumps(self.description()))
        elif action == 'activate':
            for key in sorted(self.values):
                io.p2c.append(self.line_for(*key))
            self.active = True
            io.p2c.append('active')
        elif action == 'ping':
            if not self.mute:
                io.p2c.append('pong %s %s' % (ident, json.dumps([None, {'t': self.tick}])))
        elif action in ('read', 'change', 'do'):
            self.received.append([action, ident, data])
            if self.mute:
                return
            react, self.react = self.react or ('ok', 0), None
            m, _, p = ident.partition(':')
            reply = {'read': 'reply', 'change': 'changed', 'do': 'done'}[action]
            if react[0] == 'err':
                io.p2c.append('error_%s %s %s' % (action, ident, json.dumps([ERRCLS[react[1]], 'text ' + react[1], {}])))
            elif action == 'do':
                io.p2c.append('done %s %s' % (ident, json.dumps([react[1], {'t': 100 + react[1]}])))
            else:
                self.values[m, p] = ('v', react[1], 100 + react[1])
                io.p2c.append(self.line_for(m, p, reply))
        else:
            io.p2c.append('error_%s %s %s' % (action, ident or '.', json.dumps(['ProtocolError', 'unknown', {}])))


class FakeIO:
    """what frappy.client sees as AsynConn(uri)"""
    world = None
    timeout = 1

    def __init__(self, uri, *a, **k):
        w = FakeIO.world
        s = w.sched
        if s.me() is not None and not s.aborting:
            s.yield_('io.connect')
        up = w.ups[uri]
        if not up.open:
            from frappy.errors import CommunicationFailedError
            raise CommunicationFailedError('can not connect to %s (refused)' % uri)
        self.w = w
        self.up = up
        self.p2c = []
        self.closed = False
        up.io = self
        up.active = False

    def writeline(self, line):
        self.send(line + b'\n')

    def send(self, data):
        s = self.w.sched
        if s.me() is not None and not s.aborting:
            s.yield_('io.send')
        if self.closed:
            return         # bytes written to a connection the peer has closed are lost silently
        for line in data.split(b'\n'):
            if line:
                self.up.handle(self, line.decode())

    def readline(self, timeout=None):
        s = self.w.sched
        s.yield_('io.readline')
        s.block(lambda: bool(self.p2c) or self.closed, timeout or self.timeout, 'readline')
        if self.p2c:
            return self.p2c.pop(0).encode()
        if self.closed:
            from frappy.lib.asynconn import ConnectionClosed
            raise ConnectionClosed()
        if timeout:
            raise TimeoutError('timeout in readline')
        return None

    def shutdown(self):
        self.closed = True
        if self.up.io is self:
            self.up.io = None
            self.up.active = False

    def disconnect(self):
        self.closed = True

    def __del__(self):
        pass


class FakeMultiEvent:
    """scheduler-aware stand-in for frappy.lib.multievent.MultiEvent as far as Router.__init__ uses it
    (the real one derives from the real threading.Event, which would block the scheduled thread for real)"""

    def __init__(self, default_timeout=None):
        self.waiting = []

    def new(self, timeout=None, name=None):
        ev = ds.DEvent()
        self.waiting.append(ev)
        return ev

    def get_trigger(self, timeout=None, name=None):
        return self.new(timeout, name).set

    def wait(self, timeout=None):
        s = ds.S()
        if s is None or s.me() is None:
            return all(e.flag for e in self.waiting)
        s.yield_('mev.wait')
        return s.block(lambda: all(e.flag for e in self.waiting), timeout, 'multievent')


class DownConn:
    """downstream connection at the router: records everything it is sent"""

    def __init__(self, world, name):
        self.w = world
        self.name = name
        self.msgs = []

    def send_reply(self, msg):
        s = self.w.sched
        if s.me() is not None and not s.aborting:
            s.yield_('conn.send')
        self.msgs.append(msg)

    def __repr__(self):
        return 'DownConn(%s)' % self.name


# ------------------------------------------------------------------ the world: real Router + real SecopClients

class Quiet:
    """strategy: the running thread continues while it can, else the first enabled one (deterministic)"""

    def __call__(self, enabled, s):
        return s.cur if s.cur in enabled else enabled[0]


class World:
    """layout: {'nodes': {'A': ['ma'], 'B': ['mb']}, 'conns': ['c1', 'c2'], 'startdown': [], 'local': []}"""

    def __init__(self, layout, strategy=None, repairs=(), max_steps=400000):
        boot()
        import frappy.client as fc
        import frappy.protocol.router as fr
        import frappy.protocol.dispatcher as fd
        self.fc, self.fr, self.fd = fc, fr, fd
        self.layout = layout
        self.sched = ds.Scheduler(strategy or Quiet(), max_steps=max_steps, eps=1e-5)
        self.quiet = Quiet()
        self.ups = {}
        self.order = list(layout['nodes'])
        for n in self.order:
            up = Up(self, n, layout['nodes'][n])
            up.open = n not in layout.get('startdown', ())
            self.ups[up.uri] = up
        self.up = {u.name: u for u in self.ups.values()}
        self.conns = {c: DownConn(self, c) for c in layout['conns']}
        self.restarts = 0
        self.router = None
        self.repairs = set(repairs)
        FakeIO.world = self
        self.patch = ds.Patch(fc, fr, fd, extra={'frappy.client': {'AsynConn': FakeIO},
                                                 'frappy.protocol.router': {'MultiEvent': FakeMultiEvent}})
        self.init_error = None

    # --- construction (inside the driver thread)
    def build(self):
        from frappy.secnode import SecNode
        w = self

        class Srv:
            def restart(self):
                w.restarts += 1

            def shutdown(self):
                pass

        srv = Srv()
        log = LoggerStub('router')
        srv.secnode = SecNode('router', log.getChild('secnode'), {'equipment_id': 'eq_router'}, srv)
        srv.secnode.add_secnode_property('description', 'the router')
        self.srv = srv
        fr = self.fr
        fr.SecopClient.__del__ = lambda self: None      # finalizers must not touch primitives of later runs
        cls = fr.Router
        if self.repairs:
            cls = repaired(fr, self.repairs)
        opts = {'nodes': [self.up[n].uri for n in self.order]} if len(self.order) > 1 or self.layout.get('aslist') \
            else {'node': self.up[self.order[0]].uri}
        created = []
        orig_init = fr.SecopClient.__init__

        def init(client, uri, log, dispatcher):
            created.append(client)
            orig_init(client, uri, log, dispatcher)
        fr.SecopClient.__init__ = init
        try:
            self.router = cls('router', log.getChild('dispatcher'), opts, srv)
        except Exception as e:  # noqa
            self.init_error = repr(e)
            return
        finally:
            fr.SecopClient.__init__ = orig_init
        srv.dispatcher = self.router
        self.clients = {self.ups[c.uri].name: c for c in created}
        for c in self.conns.values():
            self.router.add_connection(c)

    # --- quiescence
    def settle(self):
        """let every other thread run until all of them are blocked (without letting virtual time pass)"""
        s = self.sched
        me = s.me()

        def quiet():
            for t in s.threads.values():
                if t is me or t.finished:
                    continue
                if t.pred is None or t.pred() or (t.deadline is not None and t.deadline <= s.now):
                    return False
            return True
        s.block(quiet, None, 'settle')

    def wait(self, secs):
        """let virtual time pass; do not stop right before a timer of the system fires (reading the clock costs a
        little virtual time, so such a timer would fire during one of the next steps instead of during this wait)"""
        s = self.sched
        me = s.me()
        s.sleep(secs)
        for _ in range(20):
            self.settle()
            near = [t.deadline for t in s.threads.values()
                    if t is not me and not t.finished and t.deadline is not None and t.deadline - s.now < 0.25]
            if not near:
                break
            s.sleep(max(near) - s.now + 1e-3)

    # --- alpha
    def entry(self, node, m, p, item):
        """cache item / update payload -> abstract entry {'k': 'v'|'e'|'u', 'v': int, 'e': str}"""
        value, t, err = item
        if err is not None:
            if isinstance(err, self.fc.Cache.Undefined):
                return {'k': 'u', 'v': 0, 'e': ''}
            name = getattr(err, 'name', type(err).__name__)
            return {'k': 'e', 'v': 1 if (t or 0) >= T0 else 0, 'e': CLSERR.get(name, '?' + str(name))}
        try:
            dt = self.clients[node].modules[m]['parameters'][p]['datatype']
            k = unwire(p, dt.export_value(value))
        except Exception:
            k = BADVAL
        return {'k': 'v', 'v': k if t == 100 + k else BADVAL, 'e': ''}

    def msg(self, msg):
        """message sent to a downstream connection -> abstract"""
        try:
            action, spec, data = msg
            m, _, p = (spec or '').partition(':')
            if action == 'update':
                w, q = data
                k = unwire(p, w) if p in PARAMS else BADVAL
                return {'a': 'update', 'm': m, 'p': p, 'en': {'k': 'v', 'v': k if q.get('t') == 100 + k else BADVAL, 'e': ''}}
            if action == 'error_update':
                return {'a': 'update', 'm': m, 'p': p,
                        'en': {'k': 'e', 'v': 1 if (data[2].get('t') or 0) >= T0 else 0, 'e': CLSERR.get(data[0], '?' + str(data[0]))}}
            return {'a': str(action), 'm': m, 'p': p, 'en': {'k': 'u', 'v': 0, 'e': ''}}
        except Exception as e:  # noqa
            return {'a': '?' + repr(msg)[:60], 'm': '', 'p': '', 'en': {'k': 'u', 'v': 0, 'e': ''}}

    def node_state(self, n):
        c = self.clients[n]
        if c.state == 'connected' and c.online:
            return 'up'
        return 'lost' if c.online else 'off'

    def observe(self):
        obs = {'st': {}, 'cache': {}, 'active': sorted(c.name for c in self.router._active_connections),
               'restarts': self.restarts}
        for n in self.order:
            obs['st'][n] = self.node_state(n)
            c = self.clients[n]
            for m in self.up[n].modules:
                for p in PARAMS:
                    obs['cache'][f'{n}.{m}:{p}'] = self.entry(n, m, p, c.cache[m, p])
            extra = sorted(f'{n}.{k[0]}:{k[1]}' for k in c.cache if k[0] not in self.up[n].modules or k[1] not in PARAMS)
            if extra:
                obs['cache_extra'] = extra
        return obs

    def reply(self, action, spec, fn):
        """what the interface layer (frappy/protocol/interface/handler.py) turns the outcome of handle_request into"""
        from frappy.errors import SECoPError
        try:
            r = fn()
        except ds.SchedAbort:
            raise
        except SECoPError as e:
            return ('error_' + action, spec, [e.name, str(e), {}])
        except Exception as e:  # noqa
            return ('error_' + action, spec, ['InternalError', repr(e), {}])
        if not r:
            # the interface layer logs 'empty result', fails on result[0] and closes the connection
            return ('error_' + action, spec, ['InternalError', 'no reply (handler returned %r)' % (r,), {}])
        return r

    # --- one abstract action
    def step(self, a):
        act = a.get('act') or a.get('ev')
        s = self.sched
        for c in self.conns.values():
            del c.msgs[:]
        for u in self.up.values():
            del u.received[:]
        t0 = s.now
        obs = {}
        if act == 'upd':
            self.up[a['n']].set_value(a['m'], a['p'], a.get('v'), a.get('e') or None)
        elif act == 'lose':
            self.up[a['n']].drop()
        elif act == 'back':
            u = self.up[a['n']]
            u.open = True
            u.version = a.get('ver', u.version)
        elif act == 'wait':
            self.wait(a['d'])
        elif act in ('act', 'deact', 'desc'):
            conn = self.conns[a['c']]
            action = {'act': 'activate', 'deact': 'deactivate', 'desc': 'describe'}[act]
            r = self.reply(action, None, lambda: self.router.handle_request(conn, (action, a.get('spec'), None)))
            if act == 'desc':
                obs['desc'] = self.desc_alpha(r)
            else:
                obs['rep'] = r[0] if not r[0].startswith('error') else r[0] + ':' + str(r[2][0]) + ':' + str(r[2][1])[:80]
        elif act == 'req':
            conn = self.conns[a['c']]
            u = self.owner_up(a['m'])
            if u is not None:
                u.react = ('err', a['re']) if a.get('re') else ('ok', a.get('rv', 0))
            spec = f"{a['m']}:{a['p']}"
            data = None if a['k'] == 'read' else (WIRE[a['p']](a['arg']) if a['k'] == 'change' else a['arg'])
            r = self.reply(a['k'], spec, lambda: self.router.handle_request(conn, (a['k'], spec, data)))
            obs['rep'] = self.reply_alpha(a, r)
        else:
            raise ValueError('unknown action %r' % (a,))
        self.settle()
        obs['dt'] = int(round((s.now - t0) * 10))
        obs['out'] = {c.name: [self.msg(m) for m in c.msgs] for c in self.conns.values()}
        obs['routed'] = sorted([n, r[0], r[1], self.arg_alpha(r)] for n, u in self.up.items() for r in u.received)
        obs.update(self.observe())
        excs = {n: repr(t.exc)[:100] for n, t in s.threads.items() if t.exc is not None}
        obs['excs'] = sorted(excs.values())
        return obs

    def step_joint(self, subs):
        """several actions at the same time: upstream updates are queued for the rx threads, requests of downstream
        connections run in threads of their own (as the interface does); returns one event per action plus the
        observation at quiescence under '_post'"""
        s = self.sched
        for c in self.conns.values():
            del c.msgs[:]
        for u in self.up.values():
            del u.received[:]
        t0 = s.now
        replies = {}

        def actor(i, a):
            action = {'act': 'activate', 'deact': 'deactivate'}[a['act']]
            conn = self.conns[a['c']]
            r = self.reply(action, None, lambda: self.router.handle_request(conn, (action, None, None)))
            replies[i] = r[0] if not r[0].startswith('error') else r[0] + ':' + str(r[2][0]) + ':' + str(r[2][1])[:80]
        for i, a in enumerate(subs):
            if a['act'] == 'upd':
                self.up[a['n']].set_value(a['m'], a['p'], a.get('v'), a.get('e') or None)
            else:
                s.spawn('actor', actor, i, a)
        self.settle()
        post = {'dt': int(round((s.now - t0) * 10)),
                'out': {c.name: [self.msg(m) for m in c.msgs] for c in self.conns.values()}, 'routed': []}
        post.update(self.observe())
        post['excs'] = sorted(repr(t.exc)[:100] for t in s.threads.values() if t.exc is not None)
        group = to_event(self, {'act': 'group'}, dict(post, rep=None))
        group['subs'] = []
        for i, a in enumerate(subs):
            e = to_event(self, a, dict(post, rep=replies.get(i)))
            group['subs'].append({k: e[k] for k in ('ev', 'n', 'm', 'p', 'c', 'en', 'rep') if k in e})
        return group

    def owner_up(self, m):
        ups = [self.up[n] for n in self.order if m in self.up[n].modules]
        return ups[-1] if ups and self.layout.get('react_last') else (ups[0] if ups else None)

    @staticmethod
    def arg_alpha(r):
        action, ident, data = r
        if action == 'read':
            return 0
        p = ident.partition(':')[2]
        return unwire(p, data) if action == 'change' and p in PARAMS else (data if isinstance(data, int) else BADVAL)

    def reply_alpha(self, a, r):
        action, spec, data = r
        out = {'a': str(action), 'spec': str(spec), 'v': 0, 'e': ''}
        try:
            if action.startswith('error'):
                out['e'] = CLSERR.get(data[0], '?%s' % (data[0],))
                out['text'] = __import__('re').sub(r'0x[0-9a-f]+|\d+', '#', str(data[1]))[:70]
            elif action == 'done':
                out['v'] = data[0] if isinstance(data[0], int) else BADVAL
            else:
                k = unwire(a['p'], data[0])
                out['v'] = k if data[1].get('t') == 100 + k else BADVAL
        except Exception as e:  # noqa
            out['e'] = '?alpha ' + repr(e)[:60]
        return out

    def desc_alpha(self, r):
        action, spec, data = r
        if action != 'describing':
            return {'err': '%s:%s' % (data[0], str(data[1])[:80]), 'eq': '', 'mods': {}, 'parts': []}
        mods = {}
        for m, d in data.get('modules', {}).items():
            text = d.get('description', '')
            owner, ver = '?', 0
            mm = __import__('re').match(r'module (\w+) of (\w+) v(\d+)$', text)
            if mm:
                owner, ver = mm.group(2), int(mm.group(3))
            mods[m] = {'owner': owner, 'ver': ver, 'acc': sorted(d.get('accessibles', {})),
                       'oid': d.get('original_id', '')}
        import re
        parts = re.findall(r'--- eq_(\w+) ---', data.get('description', ''))
        return {'err': '', 'eq': data.get('equipment_id', ''), 'mods': mods, 'parts': parts,
                'fw': str(data.get('firmware', ''))[:12]}


REPAIRS = ('stale-snapshot', 'modules-attr', 'deactivate-noreply', 'update-not-exported', 'shutdown-flag', 'snapshot-to-all',
           'startdown-nodes', 'describe-mutates', 'collision-owner', 'unknown-module')


def repaired(fr, repairs):
    """subclass of the real Router with the proposed minimal patches of the named (open) findings applied as
    wrappers around the original methods, so that everything behind a finding is still bound to the real code"""
    import copy
    import threading
    from frappy.errors import NoSuchModuleError

    Base = fr.SecopClient

    class C(Base):
        def updateValue(self, module, param, value, timestamp, readerror):
            if 'collision-owner' in repairs and self.dispatcher.node_by_module.get(module, self) is not self:
                return None      # module name owned by another node
            if 'stale-snapshot' in repairs:
                with self.dispatcher.snaplock:      # cache write + broadcast are one step for handle_activate
                    return Base.updateValue(self, module, param, value, timestamp, readerror)
            return Base.updateValue(self, module, param, value, timestamp, readerror)

        def nodeStateChange(self, online, state):
            if 'stale-snapshot' in repairs:
                with self.dispatcher.snaplock:
                    return Base.nodeStateChange(self, online, state)
            return Base.nodeStateChange(self, online, state)

        def updateEvent(self, module, parameter, value, timestamp, readerror):
            if 'collision-owner' in repairs and self.dispatcher.node_by_module.get(module, self) is not self:
                return None      # module name owned by another node
            if 'update-not-exported' in repairs and not readerror:
                value = self.modules[module]['parameters'][parameter]['datatype'].export_value(value)
            return Base.updateEvent(self, module, parameter, value, timestamp, readerror)

        def descriptiveDataChange(self, module, data):
            ev = self._shutdown
            try:
                return Base.descriptiveDataChange(self, module, data)
            finally:
                if 'shutdown-flag' in repairs and self._shutdown is True:
                    self._shutdown = ev
                    ev.set()

    class R(fr.Router):
        snaplock = None

        def handle_request(self, conn, msg):
            if 'stale-snapshot' in repairs and msg[0] == 'activate':
                with self.snaplock:
                    return fr.Router.handle_request(self, conn, msg)
            return fr.Router.handle_request(self, conn, msg)

        def __init__(self, *args):
            self.snaplock = ds.DRLock()
            saved = fr.SecopClient
            fr.SecopClient = C
            try:
                fr.Router.__init__(self, *args)
            finally:
                fr.SecopClient = saved
            if 'startdown-nodes' in repairs:
                self.nodes = [n for n in self.nodes if n.online]
            if 'collision-owner' in repairs:
                self.node_by_module = {}
                for node in self.nodes:
                    for module in node.modules:
                        self.node_by_module.setdefault(module, node)
                for node in self.nodes:
                    for key in list(node.cache):
                        if self.node_by_module.get(key[0]) is not node:
                            del node.cache[key]

        def handle_activate(self, conn, specifier, data):
            if 'stale-snapshot' in repairs:
                with self.snaplock:
                    return self.handle_activate1(conn, specifier, data)
            return self.handle_activate1(conn, specifier, data)

        def handle_activate1(self, conn, specifier, data):
            if 'snapshot-to-all' not in repairs:
                return fr.Router.handle_activate(self, conn, specifier, data)
            me = threading.get_ident()
            orig = self.broadcast_event

            def only_me(msg, reallyall=False):
                if threading.get_ident() == me:
                    return conn.send_reply(msg)
                return orig(msg, reallyall)
            self.broadcast_event = only_me
            try:
                return fr.Router.handle_activate(self, conn, specifier, data)
            finally:
                del self.broadcast_event

        def handle_deactivate(self, conn, specifier, data):
            r = fr.Router.handle_deactivate(self, conn, specifier, data)
            if 'deactivate-noreply' in repairs and not r:
                return ('inactive', specifier or None, None)
            return r

        def handle_describe(self, conn, specifier, data):
            if 'describe-mutates' not in repairs:
                return fr.Router.handle_describe(self, conn, specifier, data)
            saved = [copy.deepcopy(n.descriptive_data) for n in self.nodes]
            try:
                return fr.Router.handle_describe(self, conn, specifier, data)
            finally:
                for n, d in zip(self.nodes, saved):
                    n.descriptive_data = d

        def _known(self, specifier):
            module = specifier.split(':')[0]
            if 'unknown-module' in repairs and module not in self.secnode.modules and module not in self.node_by_module:
                raise NoSuchModuleError('Module %r does not exist' % module)

        def handle_read(self, conn, specifier, data):
            self._known(specifier)
            return fr.Router.handle_read(self, conn, specifier, data)

        def handle_change(self, conn, specifier, data):
            self._known(specifier)
            return fr.Router.handle_change(self, conn, specifier, data)

        def handle_do(self, conn, specifier, data):
            self._known(specifier)
            return fr.Router.handle_do(self, conn, specifier, data)

    if 'modules-attr' in repairs:
        R._modules = property(lambda self: self.secnode.modules)
    return R


def run_world(layout, driver, strategy=None, repairs=()):
    """run driver(world) in a scheduled thread; returns (world, result of driver or exception text)"""
    w = World(layout, strategy, repairs)
    s = w.sched
    box = {}

    def main():
        w.build()
        if w.router is not None:
            w.settle()
        box['res'] = driver(w)
        box['done'] = True

    with w.patch:
        s.spawn('driver', main)
        s.stop_when = lambda: box.get('done') or s.threads['driver'].finished
        s.run()
    if 'done' not in box:
        t = s.threads['driver']
        box['res'] = None
        box['stuck'] = {'exc': repr(t.exc), 'deadlock': s.deadlock, 'livelock': s.livelock,
                        'blocked': s.blocked_summary()}
    w.box = box
    return w, box.get('res')


# ------------------------------------------------------------------ spec -> code: replay of TLC behaviours

LAYOUTS = {
    'AB': {'nodes': {'A': ['ma'], 'B': ['mb']}, 'conns': ['c1', 'c2']},
    'A': {'nodes': {'A': ['ma']}, 'conns': ['c1', 'c2']},
    'A2': {'nodes': {'A': ['ma', 'mx']}, 'conns': ['c1', 'c2']},
    'Coll': {'nodes': {'A': ['ma', 'mx'], 'B': ['mx']}, 'conns': ['c1', 'c2']},
    'ABdown': {'nodes': {'A': ['ma'], 'B': ['mb']}, 'conns': ['c1', 'c2'], 'startdown': ['B']},
}
ORDER = ('excs', 'init', 'misrouted', 'rep', 'routed', 'desc', 'restart', 'st', 'active', 'cache', 'out', 'dt')


def gamma(a):
    """input of a TLC step -> action of the world"""
    act = a['act']
    if act == 'upd':
        en = a['en']
        return {'act': 'upd', 'n': a['n'], 'm': a['m'], 'p': a['p'], 'v': en['v'] if en['k'] == 'v' else None,
                'e': en['e'] if en['k'] == 'e' else None}
    if act == 'req':
        g = {'act': 'req', 'c': a['c'], 'k': a['k'], 'm': a['m'], 'p': a['p'], 'arg': a['arg']}
        if a['ok']:
            g['rv'] = a['x']
        else:
            g['re'] = a['ec']
        return g
    return {k: v for k, v in a.items() if k != 'exp'}


def inputs(beh):
    return [{k: v for k, v in s.items() if k != 'exp'} for s in beh]


def compare(w, a, exp, obs):
    """expected observation (printed by TLC) against the projected observation -> {field: how} of differences"""
    diff = {}
    if obs['excs']:
        diff['excs'] = obs['excs'][0][:60]
    if exp['restart']:
        # the router asked to be restarted: what it does until then is not specified
        if obs['restarts'] < 1:
            diff['restart'] = 'not requested'
        return diff
    if exp['st'] != obs['st']:
        diff['st'] = ','.join('%s:%s/%s' % (n, exp['st'][n], obs['st'].get(n)) for n in sorted(exp['st'])
                              if exp['st'][n] != obs['st'].get(n))
    if sorted(exp['active']) != obs['active']:
        diff['active'] = 'expected %s' % sorted(exp['active'])
    if obs['restarts']:
        diff['restart'] = 'requested without need'
    bad = [c for c in exp['cache'] if c['vis'] and obs['cache'].get('%s.%s:%s' % (c['n'], c['m'], c['p'])) != c['en']]
    if bad or obs.get('cache_extra'):
        c = bad[0] if bad else None
        diff['cache'] = 'extra keys' if not bad else '%s:%s expected %s got %s' % (
            c['p'], c['en']['k'], _en(c['en']), _en(obs['cache'].get('%s.%s:%s' % (c['n'], c['m'], c['p']))))
    act = a['act']
    if act == 'req':
        er, r = exp['rep'], obs['rep']
        if er['a'] == 'error':
            ok = r['a'] == 'error_' + a['k'] and r['e'] == er['e']
        else:
            ok = r['a'] == er['a'] and r['v'] == er['v'] and not r['e']
        if not ok or r['spec'] != '%s:%s' % (a['m'], a['p']):
            diff['rep'] = ('%s %s' % (r['e'] or '%s %s' % (r['a'], r['v']), r.get('text', ''))).strip().replace(
                repr(a['m']), '<module>')
        if obs['dt'] > 100:
            diff['dt'] = 'request took %d ticks' % obs['dt']
    elif act in ('act', 'deact'):
        if obs['rep'] != exp['rep']['a']:
            diff['rep'] = str(obs['rep'])[:80]
    elif act == 'desc':
        d = obs['desc']
        if d['err']:
            diff['rep'] = d['err']
        else:
            how = []
            for e in exp['desc']:
                how = []
                if d['eq'] != 'eq_' + e['eq']:
                    how.append('equipment_id')
                if d['parts'] != e['parts']:
                    how.append('node descriptions %s' % d['parts'])
                if {m: x['owner'] for m, x in d['mods'].items()} != {m: o for m, o in e['mods']}:
                    how.append('modules %s' % sorted((m, x['owner']) for m, x in d['mods'].items()))
                elif any(x['ver'] != 0 or x['acc'] != sorted(list(PARAMS) + ['go']) for x in d['mods'].values()):
                    how.append('module description')
                if not how:
                    break
            if how:
                diff['desc'] = '; '.join(how)
    routed = sorted([r['n'], r['k'], '%s:%s' % (r['m'], r['p']), r['arg']] for r in exp['routed'])
    if routed != obs['routed']:
        wrong = sorted({r[0] for r in obs['routed']} - {r[0] for r in routed})
        if wrong:
            diff['misrouted'] = 'sent to another node than the owner of the module'
        else:
            diff['routed'] = 'sent %s expected %s' % ([r[1:] for r in obs['routed']], [r[1:] for r in routed])
    # update streams, per connection and per parameter name
    want = {}
    for o in exp['out']:
        if o['seq']:
            want[o['c'], o['m'], o['p']] = o['seq']
    opt = {(o['c'], o['m'], o['p']) for o in exp['opt']}
    got = {}
    for c, msgs in obs['out'].items():
        for m in msgs:
            if m['a'] != 'update':
                diff.setdefault('out', 'foreign message %s to %s' % (m['a'], c))
            else:
                got.setdefault((c, m['m'], m['p']), []).append(m['en'])
    for k in sorted(set(want) | set(got)):
        e, g = want.get(k, []), got.get(k, [])
        if e != g and not (k in opt and not g):
            who = 'requester' if k[0] == a.get('c') else 'other'
            if len(g) == len(e):
                how = 'wrong entry %s' % _en([x for x, y in zip(g, e) if x != y][0])
            else:
                how = '%s updates than expected' % ('more' if len(g) > len(e) else 'fewer')
                if act == 'act':
                    how = 'the %s connection gets %s' % ({'requester': 'activating', 'other': 'other'}[who], how)
            if 'out' not in diff:
                diff['param'] = k[2]
            diff.setdefault('out', how)
    return diff


def _en(en):
    if not en:
        return 'nothing'
    return {'u': 'undefined', 'v': 'value %s' % ('not in wire form' if en['v'] == BADVAL else en['v']),
            'e': 'error %s%s' % (en['e'], '' if en['v'] else '(upstream stamp)')}[en['k']]


def replay_one(args):
    """replay one behaviour; returns None or (step index, diff, observation)"""
    layout, beh, repairs = args

    def driver(w):
        if w.router is None:
            return (0, {'init': w.init_error}, {})
        for i, st in enumerate(beh):
            a = gamma(st)
            obs = w.step(a)
            diff = compare(w, st, st['exp'], obs)
            if diff:
                return (i, diff, obs)
        return None
    w, res = run_world(LAYOUTS[layout], driver, repairs=repairs)
    if 'stuck' in w.box:
        return (-1, {'excs': 'harness stuck: %s' % json.dumps(w.box['stuck'])[:300]}, {})
    return res


def signature(beh, i, diff):
    st = beh[i] if 0 <= i < len(beh) else {'act': 'init'}
    clause = [f for f in ORDER if f in diff][0]
    act = st['act'] + (':' + st['k'] if st['act'] == 'req' else '')
    sig = {'module': 'Router', 'action': act, 'clause': clause, 'how': diff[clause]}
    if clause == 'out' and 'param' in diff:
        sig['param'] = diff['param']
    if clause == 'restart':
        sig['after_describe'] = any(s['act'] == 'desc' for s in beh[:i])
    return sig


def replay_all(chk, jobs, label, partial=(), pristine_every=1):
    """jobs: list of (layout, behaviour).  Behaviours with identical inputs are alternatives of a nondeterministic
    step: one of them must match.  Round 0 replays (a sample of) the input sequences on the unchanged code; what
    deviates through an OPEN known finding is replayed again with the proposed patch of that finding applied
    (wrappers around the real methods), together with everything not replayed yet, until nothing new shows."""
    import zlib
    groups = {}
    for j, (layout, beh) in enumerate(jobs):
        groups.setdefault((layout, json.dumps(inputs(beh), sort_keys=True)), []).append(j)
    first = set()
    for key, members in groups.items():
        if zlib.crc32(key[1].encode()) % pristine_every == chk.seed % pristine_every:
            first |= set(members)
    todo = sorted(first)
    applied = set()
    passed = set()
    rounds = 0
    pending = set(range(len(jobs))) - first
    while todo and rounds < 8:
        rounds += 1
        rep = tuple(sorted(applied))
        res = pool_map(replay_one, [(jobs[j][0], jobs[j][1], rep) for j in todo])
        chk.impl_traces += len(todo)
        failed = {}
        for j, r in zip(todo, res):
            if r is None:
                passed.add(j)
            else:
                failed[j] = r
        new = set()
        again = set()
        for key, members in groups.items():
            if any(j in passed for j in members) or not any(j in failed for j in members):
                continue
            # the alternative that got furthest speaks for the group
            j = max((j for j in members if j in failed), key=lambda x: failed[x][0])
            i, diff, obs = failed[j]
            layout, beh = jobs[j]
            if j in partial and 0 <= i < len(beh) and beh[i]['exp']['loose']:
                # a simulated behaviour took another alternative of a nondeterministic step than the implementation
                chk.notes['inconclusive_simulated'] = chk.notes.get('inconclusive_simulated', 0) + 1
                continue
            sig = signature(beh, i, diff)
            sig['layout'] = layout
            e = chk.known.match(chk.prop, sig)
            detail = {'layout': layout, 'behaviour': beh[:i + 1], 'inputs': inputs(beh), 'step': i, 'diff': diff,
                      'observed': obs, 'expected': beh[i]['exp'] if 0 <= i < len(beh) else None,
                      'repairs': list(rep)}
            if e and e.get('repair', e['id'][4:]) in applied:
                sig['how'] = 'PATCH OF %s DOES NOT HELP: %s' % (e['id'], sig['how'])
                e = None
            chk.violation(sig, detail)
            if e and e.get('repair', e['id'][4:]) in REPAIRS:
                new.add(e.get('repair', e['id'][4:]))
                again |= {m for m in members if m in failed}
        applied |= new
        todo = sorted(again | pending)
        pending = set()
        if not new and not todo:
            break
    chk.notes.setdefault('replay', {})[label] = {'behaviours': len(jobs), 'input_sequences': len(groups),
                                                 'rounds': rounds, 'patched_findings': sorted(applied)}
    return applied


# ------------------------------------------------------------------ code -> spec: random histories

def to_event(w, a, obs):
    """world action + observation -> event of Trace_Router"""
    owner = {}
    for n in w.order:
        for m in w.up[n].modules:
            owner.setdefault(m, n)
    e = {'ev': a['act']}
    for k in ('n', 'm', 'p', 'c', 'd', 'ver', 'k', 'arg'):
        if k in a:
            e[k] = a[k]
    if a['act'] == 'upd':
        e['en'] = {'k': 'v', 'v': a['v'], 'e': ''} if a.get('e') is None else {'k': 'e', 'v': 0, 'e': a['e']}
    if a['act'] == 'req':
        e.update(ok='re' not in a, x=a.get('rv', 0), ec=a.get('re', 'hw'))
        r = obs['rep']
        e['rep'] = {'a': 'error', 'v': 0, 'e': r['e'] + ('' if r['a'] == 'error_' + a['k'] else '!' + r['a'])} if r['e'] \
            else {'a': r['a'] + ('' if r['spec'] == '%s:%s' % (a['m'], a['p']) else '!' + r['spec']), 'v': r['v'], 'e': ''}
    elif a['act'] in ('act', 'deact'):
        e['rep'] = {'a': str(obs['rep'])[:90], 'v': 0, 'e': ''}
    elif a['act'] == 'desc':
        d = obs['desc']
        e['rep'] = {'a': 'describing' if not d['err'] else d['err'], 'v': 0, 'e': ''}
        good = all(x['ver'] == 0 and x['acc'] == sorted(list(PARAMS) + ['go']) for x in d['mods'].values())
        e['desc'] = {'eq': d['eq'][3:] if d['eq'].startswith('eq_') else '?' + d['eq'], 'parts': d['parts'],
                     'mods': sorted([m, x['owner'] if good else '?'] for m, x in d['mods'].items())}
    else:
        e['rep'] = {'a': 'none', 'v': 0, 'e': ''}
    e['routed'] = [{'n': r[0], 'k': r[1], 'm': r[2].partition(':')[0], 'p': r[2].partition(':')[2], 'arg': r[3]}
                   for r in obs['routed']]
    e['st'] = obs['st']
    e['active'] = obs['active']
    e['restarts'] = obs['restarts']
    e['excs'] = obs['excs']
    e['dt'] = obs['dt']
    e['cache'] = []
    for key, en in obs['cache'].items():
        n, _, mp = key.partition('.')
        m, _, p = mp.partition(':')
        if en['k'] != 'u':
            e['cache'].append({'n': n, 'm': m, 'p': p, 'en': en})
    for x in obs.get('cache_extra', ()):
        e['cache'].append({'n': '?', 'm': x, 'p': '?', 'en': {'k': 'u', 'v': 0, 'e': ''}})
    out = {}
    for c, msgs in obs['out'].items():
        for m in msgs:
            if m['a'] != 'update':
                out.setdefault((c, '?', m['a'], '?'), []).append(m['en'])
            else:
                out.setdefault((c, owner.get(m['m'], '?'), m['m'], m['p']), []).append(m['en'])
    e['out'] = [{'c': k[0], 'n': k[1], 'm': k[2], 'p': k[3], 'seq': v} for k, v in sorted(out.items())]
    return e


TRACE_PARAMS = ['value', 'sp', 'mode']


def random_history(args):
    """seeded random history on the real objects: list of events; steps that ran concurrently form one 'group'
    event (the order in which they took effect is not observable: TLC looks for one)"""
    seed, layout, nsteps, conc, repairs = args
    rnd = random.Random(seed)
    lay = LAYOUTS[layout]
    trace = []

    def driver(w):
        if w.router is None:
            return 'init: %s' % w.init_error
        mods = [(n, m) for n in w.order for m in w.up[n].modules]
        for _ in range(nsteps):
            st = {n: w.node_state(n) for n in w.order}
            opn = {n: w.up[n].open for n in w.order}
            r = rnd.random()
            n, m = rnd.choice(mods)
            if conc and r < conc:
                subs = joint_actions(rnd, w, st, mods)
                if subs:
                    trace.append(w.step_joint(subs))
                    if trace[-1]['restarts'] or trace[-1]['excs']:
                        break
                continue
            r = rnd.random()
            if r < 0.32:
                a = {'act': 'upd', 'n': n, 'm': m, 'p': rnd.choice(TRACE_PARAMS)}
                if rnd.random() < 0.15:
                    a['e'] = rnd.choice(['hw', 'range'])
                else:
                    a['v'] = rnd.randrange(6)
            elif r < 0.55:
                kind = rnd.choice(['read', 'read', 'change', 'do'])
                if rnd.random() < 0.1:
                    m = 'zz'
                elif st[n] != 'up' and opn[n]:
                    continue          # reachable again but not yet reconnected: outcome not modelled
                a = {'act': 'req', 'c': rnd.choice(lay['conns']), 'k': kind, 'm': m,
                     'p': 'go' if kind == 'do' else rnd.choice(TRACE_PARAMS), 'arg': 0 if kind == 'read' else rnd.randrange(6)}
                if rnd.random() < 0.3:
                    a['re'] = rnd.choice(['hw', 'range'])
                else:
                    a['rv'] = rnd.randrange(6)
            elif r < 0.65:
                a = {'act': 'act', 'c': rnd.choice(lay['conns'])}
            elif r < 0.70:
                a = {'act': 'deact', 'c': rnd.choice(lay['conns'])}
            elif r < 0.73:
                a = {'act': 'desc', 'c': rnd.choice(lay['conns'])}
            elif r < 0.81:
                if not opn[n]:
                    continue
                a = {'act': 'lose', 'n': n}
            elif r < 0.89:
                if opn[n]:
                    continue
                a = {'act': 'back', 'n': n, 'ver': 1 if rnd.random() < 0.15 or w.up[n].version else 0}
            else:
                d = rnd.choice([2, 2, 12])
                if d == 2 and any(st[x] == 'off' and opn[x] for x in w.order):
                    d = 12
                a = {'act': 'wait', 'd': d}
            obs = w.step(a)
            trace.append(to_event(w, a, obs))
            if obs['restarts'] or obs['excs']:
                break
        return None
    w, res = run_world(lay, driver, strategy=ds.RandomStrategy(seed * 31 + 7, stay=0.75), repairs=repairs)
    if 'stuck' in w.box or res:
        trace.append({'ev': 'stuck', 'excs': [res or json.dumps(w.box['stuck'])[:200]]})
    return trace


def joint_actions(rnd, w, st, mods):
    """an activate / deactivate racing with one or two upstream updates"""
    up = [(n, m) for n, m in mods if st[n] == 'up']
    if not up:
        return None
    subs = [{'act': rnd.choice(['act', 'act', 'act', 'deact']), 'c': rnd.choice(sorted(w.conns))}]
    keys = set()
    for _ in range(rnd.choice([1, 1, 2])):
        n, m = rnd.choice(up)
        p = rnd.choice(TRACE_PARAMS)
        if (n, m, p) in keys:
            continue        # (two updates of one parameter have an order of their own)
        keys.add((n, m, p))
        subs.append({'act': 'upd', 'n': n, 'm': m, 'p': p, 'v': rnd.randrange(6)})
    rnd.shuffle(subs)
    return subs


GEN = {'quick': [('AB', 'Gen_Router_quick.cfg', {}, 2), ('A', 'Gen_Router_A_quick.cfg', {}, 1),
                 ('Coll', 'Gen_Router_coll_quick.cfg', {}, 1), ('ABdown', 'Gen_Router_down_quick.cfg', {}, 1),
                 ('AB', 'Gen_Router_sim.cfg', {'simulate': 'num=150', 'depth': 9}, 1)],
       'thorough': [('AB', 'Gen_Router_thorough.cfg', {}, 1), ('A', 'Gen_Router_A_thorough.cfg', {}, 1),
                    ('Coll', 'Gen_Router_coll_thorough.cfg', {}, 1), ('ABdown', 'Gen_Router_down_thorough.cfg', {}, 1),
                    ('AB', 'Gen_Router_sim.cfg', {'simulate': 'num=3000', 'depth': 12}, 1)]}
TRACE_CFG = {'AB': 'Trace_Router.cfg', 'A': 'Trace_Router_A.cfg'}


def trace_signature(trace, l, clause):
    ev = trace[l - 1] if 0 < l <= len(trace) else {}
    kind = ev.get('ev', '?')
    sig = {'module': 'Router', 'clause': clause}
    if kind == 'group':
        kind = 'group:' + '+'.join(sorted(x['ev'] for x in ev['subs']))
        odd = [x['rep']['a'] for x in ev['subs'] if x['rep']['a'] not in ('none', 'active', 'inactive')]
        if odd:
            sig['how'] = __import__('re').sub(r'[^A-Za-z_: (]', '', odd[0])[:80]
        elif clause == 'update streams':
            # (description only) does some connection end with an entry that is not the cached one?
            cache = {(c['m'], c['p']): c['en'] for c in ev['cache']}
            stale = any(o['c'] in ev['active'] and o['seq'][-1] != cache.get((o['m'], o['p'])) for o in ev['out'])
            sig['how'] = 'last update sent is not the cached entry' if stale else 'other'
    elif kind == 'req':
        kind += ':' + ev.get('k', '?')
    sig['trace_event'] = kind
    if clause == 'thread died with an exception':
        sig['how'] = (ev.get('excs') or ['?'])[0][:60]
    if clause == 'restart request':
        sig['after_describe'] = any(e['ev'] == 'desc' for e in trace[:l])
    return sig


def random_phase(chk, applied, layout, seeds, nsteps, conc):
    """random histories of the real objects, validated by TLC; deviations through open findings that have a patch
    are run again (same seeds) with the patch applied"""
    applied = set(applied)
    todo = list(seeds)
    for rnd_ in range(4):
        rep = tuple(sorted(applied))
        traces = pool_map(random_history, [(sd, layout, nsteps, conc, rep) for sd in todo])
        # the last trace of the batch is a copy of the first one with one observed value changed: TLC must reject it
        bad = json.loads(json.dumps(traces[0]))
        spot = [e for e in bad if e.get('cache') and not e.get('restarts') and not e.get('excs')]
        if spot:
            en = spot[-1]['cache'][0]['en']
            en['v'] = (en['v'] + 1) % 6 if en['k'] == 'v' else 0
            en['k'], en['e'] = 'v', ''
        verdicts, st, tr = validate_traces('Trace_Router', traces + ([bad] if spot else []), TRACE_CFG[layout], timeout=600)
        chk.states += st
        chk.transitions += tr
        if spot and verdicts.pop(len(traces)) is None:
            from ..core import MachineryError
            raise MachineryError('Trace_Router accepted a corrupted trace')
        new = set()
        again = []
        for i, v in verdicts.items():
            chk.impl_traces += 1
            chk.case(('trace', layout, todo[i], rep), any(e['ev'] == 'group' for e in traces[i]))
            if v is None:
                continue
            sig = trace_signature(traces[i], v[0], v[1])
            sig['layout'] = layout
            e = chk.known.match(chk.prop, sig)
            if e and e.get('repair', e['id'][4:]) in applied:
                sig['clause'] = 'PATCH OF %s DOES NOT HELP: %s' % (e['id'], sig['clause'])
                e = None
            chk.violation(sig, {'random': [todo[i], layout, nsteps, conc], 'repairs': list(rep), 'failed_at': v[0],
                                'clause': v[1], 'trace': traces[i][:v[0]]})
            if e and e.get('repair', e['id'][4:]) in REPAIRS:
                new.add(e.get('repair', e['id'][4:]))
                again.append(todo[i])
        if traces and rnd_ == 0:
            chk.sample({'random_history_prefix': [{k: v for k, v in e.items() if k not in ('cache', 'st')}
                                                  for e in traces[0][:3]]})
        if not new:
            break
        applied |= new
        todo = again
    return applied


def run(chk):
    from ..core import run_parallel
    quick = chk.tier == 'quick'
    chk.rule = ('spec->code: one behaviour per transition of the abstract state graph of Gen_Router to the depth bound '
                '(layouts: two nodes, one node passed through, module name collision, node away at start) plus '
                'simulated deep behaviours, replayed on the real Router/SecopClient objects with comparison of the '
                'projected state after every step; code->spec: seeded random histories (3 parameters, 6 values, '
                'concurrent activate/deactivate/update groups under random thread schedules) validated by '
                'Trace_Router. Distinct = distinct input sequence / (seed, patch set); non-trivial = more than one step')
    chk.assumptions += [
        'where the unchanged router deviates through an OPEN known finding, the same inputs are run again with the '
        'proposed patch of that finding applied as a wrapper around the real method (harness/props/x01.py repaired()), '
        'so that the code behind the finding is still compared with the specification',
        'steps run one after the other to quiescence; concurrency only inside the group events of the random histories',
        'requests to a node that is reachable again but not yet reconnected, and upstream nodes that are connected '
        'but mute, are outside the model']
    if os.environ.get('VERIF_X01_FINDINGS'):
        # judge against another findings file (e.g. findings.d/X01.json.fixed for a repaired tree)
        with open(os.environ['VERIF_X01_FINDINGS']) as f:
            chk.known.entries = [e for e in chk.known.entries if e.get('property') != 'X01'] + json.load(f)['findings']
    for m in ('Router', 'Gen_Router', 'Trace_Router'):
        sany(m)
    thunks = [lambda: model_check('Router', 'MC_Router_quick.cfg', timeout=900, workers=1) if quick else
              model_check('Router', 'MC_Router_thorough.cfg', timeout=1500)]
    if not quick:
        thunks.append(lambda: model_check('Router', 'MC_Router_coll.cfg', timeout=900))
    nmc = len(thunks)
    for layout, cfg, kw, _ in GEN[chk.tier]:
        if 'simulate' in kw:
            kw = dict(kw, seed=chk.seed + 1)
        thunks.append(lambda cfg=cfg, kw=kw: emit_behaviours('Gen_Router', cfg, maximal_only=False, timeout=600, **kw))
    results = run_parallel(thunks, width=3)
    for r in results[:nmc]:
        chk.add_tlc(r)
    import zlib
    jobs = []
    partial = set()
    for (layout, cfg, kw, every), (r, behs) in zip(GEN[chk.tier], results[nmc:]):
        chk.add_tlc(r)
        if every > 1:      # quick tier: a seed-dependent part of the input sequences (all alternatives of each)
            behs = [b for b in behs
                    if zlib.crc32(json.dumps(inputs(b), sort_keys=True).encode()) % every == chk.seed % every]
        if kw:
            partial |= set(range(len(jobs), len(jobs) + len(behs)))
        jobs += [(layout, b) for b in behs]
        chk.notes.setdefault('generated', {})[cfg + (' (simulated)' if kw else '')] = len(behs)
    for layout, beh in jobs:
        chk.case(json.dumps([layout, inputs(beh)], sort_keys=True), len(beh) > 1)
    applied = replay_all(chk, jobs, 'tlc behaviours', partial, pristine_every=4)
    for layout, beh in jobs[len(jobs) // 2:len(jobs) // 2 + 1]:
        chk.sample({'layout': layout, 'behaviour': beh[-1:]})
    n = 60 if quick else 1200
    applied = random_phase(chk, applied, 'AB', [chk.seed * 100003 + i for i in range(n)], 25 if quick else 40, 0.25)
    random_phase(chk, applied, 'A', [chk.seed * 100003 + 50000 + i for i in range(n // 3)], 25 if quick else 40, 0.25)
    chk.exhaustive = False


def replay(chk, rep):
    d = rep['detail']
    if 'random' in d:
        seed, layout, nsteps, conc = d['random']
        for e in random_history((seed, layout, nsteps, conc, tuple(d['repairs'])))[:d['failed_at']]:
            print(json.dumps(e, sort_keys=True))
        print('rejected at event', d['failed_at'], ':', d['clause'])
        return 0
    beh = d['behaviour']

    def driver(w):
        for st in beh:
            obs = w.step(gamma(st))
            print(json.dumps({k: v for k, v in st.items() if k != 'exp'}))
            print('   observed:', json.dumps(obs, sort_keys=True))
            print('   expected:', json.dumps(st['exp'], sort_keys=True))
            print('   diff:', compare(w, st, st['exp'], obs))
    run_world(LAYOUTS[d['layout']], driver, repairs=d.get('repairs', ()))
    return 0
