"""X05 (growth module) - the enumeration library frappy/lib/enum.py (Enum, EnumMember) and its class level use
(Readable.Status / Drivable.Status, StatusType, EnumType(Enum)).

spec/EnumLib.tla     : an enum is a finite partial bijection name <-> int plus a display name; construction piece by
                       piece (dict / keywords / Enum parent, None and name-reference sugar, refusal of duplicates),
                       lookup, comparison, arithmetic, conversions, immutability - all as pure functions, with named
                       switches for the places where the pinned code does something else than documented.
spec/EnumStatus.tla  : a chain of module classes, each declaring its status parameter in one of the ways the code
                       base uses; the class attribute Status, the described enum and the accepted status codes.
Binding:
  spec -> code : TLC walks the state graph and prints one line per TRANSITION (path of constructions + the step +
                 the demanded result); every line is replayed on the real classes and the projected result compared.
  code -> spec : seeded random programs over up to three enums (wider alphabets: status-like codes, reserved member
                 names, longer extension chains) are executed, every call and its projected result recorded and
                 validated by TLC against Trace_EnumLib (deviation disjuncts record themselves in `devs`).
Python concretises and projects; the verdicts are TLC's.
"""
import json
import operator
import random
from fractions import Fraction

from ..core import MachineryError, model_check, pool_map, run_parallel, run_tlc, sany, validate_traces
from ..env import boot

META = {
    'text': 'TLC model-checks the enum design (name <-> value stays a bijection through every construction and '
            'extension, sugar values are fresh, an enum is determined by its pairs in any order, one call equals the '
            'chain of extensions, every lookup yields the one member of that name / value or KeyError / AttributeError / '
            'TypeError, a member compares, hashes and computes like its value, nothing but a construction changes an '
            'enum) and prints one line per transition of the state graph; every line (construction pieces over names '
            'a b c name and values -1 0 1 2 5 with None / name-reference / float / bool / string / unhashable values, '
            'dict, keyword and Enum-parent call forms, then lookups, comparisons, arithmetic, conversions, mutation '
            'attempts, equality) is replayed on the real frappy.lib.enum.Enum with the projected result compared, all '
            'ancestors re-inspected afterwards; seeded random programs are recorded and validated by TLC against '
            'Trace_EnumLib; chains of module classes extending their Status enum are built for real and compared with '
            'EnumStatus (class attribute = described enum = accepted codes, parents untouched).',
    'note': 'Bounded: at most 2 pieces per construction call and 3 constructions on top of each other in generated '
            'behaviours (random programs: up to 4 pieces, 6 extensions, 3 enums); operands from a fixed alphabet; floats '
            'only as halves; bit operators on |values| < 512. The result class of refused constructions (TypeError, '
            'ValueError for a non-numeric string value), the ordering against None / unknown strings ("XXX" in the '
            'code: greater than every member) and numeric strings (ordered by value, never equal) are transcribed from '
            'the code, not from documentation. Trusted: TLC, the gamma / alpha glue in harness/props/x05.py.',
    'tech': 'TLA+ spec (EnumLib, EnumStatus) + TLC model checking with must-fail switches; spec->code replay of every '
            'transition of the TLC state graph; code->spec TLC trace validation of random programs',
    'ref': 'growth module X05 (not one of the 20 listed properties)',
}

_E = {}


def _lib():
    if not _E:
        boot()
        from frappy.lib import enum as fe
        import enum as pyenum
        _E['Enum'] = fe.Enum
        _E['Member'] = fe.EnumMember
        _E['OTHER'] = fe.Enum('o', a=1, b=5, q=2, z=7)
        _E['PyEnum'] = pyenum.Enum('PyEnum', {'a': 1, 'b': 2})
    return _E


# ------------------------------------------------------------------ gamma (abstract value -> python object)

def _gval(v, cur=None, others=None):
    ty = v['ty']
    if ty == 'int':
        return v['v']
    if ty == 'bool':
        return bool(v['v'])
    if ty == 'float':
        return v['v'] / 2
    if ty == 'str':
        return v['s']
    if ty == 'numstr':
        return str(v['v'])
    if ty == 'none':
        return None
    if ty == 'list':
        return []
    if ty == 'mem':
        if others is not None and 'reg' in v:
            return others[v['reg']][v['s']]
        return _lib()['OTHER'][v['s']]
    if ty == 'own':
        return cur[v['s']]
    raise MachineryError(f'unknown abstract value {v}')


def _bad_parent(step):
    L = _lib()
    k = (len(step.get('nm', '')) + sum(len(p['k']) + p['val']['v'] for p in step.get('kp', []))) % 5
    return [['a', 'b'], L['PyEnum'], 5, ('a',), 'parentname'][k]


def _build(step, cur, others=None):
    """execute a construction step; returns the new Enum (exceptions propagate)"""
    Enum = _lib()['Enum']
    kw = {p['k']: _gval(p['val'], cur, others) for p in step.get('kp', [])}
    dp = {p['k']: _gval(p['val'], cur, others) for p in step.get('dp', [])}
    form, nm = step['form'], step['nm']
    if form == 'kw':
        return Enum(nm, **kw) if nm or len(kw) % 2 or 'name' in kw or 'parent' in kw else Enum(**kw)
    if form == 'dict':
        return Enum(nm, dp, **kw)
    if form == 'dictswap':
        return Enum(dp, **kw)
    if form == 'badname':
        return Enum(5, **kw)
    if form == 'badpar':
        return Enum(nm, _bad_parent(step), **kw)
    if form == 'enum':
        return Enum(nm, cur, **kw) if nm or len(kw) % 2 else Enum(None, cur, **kw)
    if form == 'enumswap':
        return Enum(cur, **kw)
    raise MachineryError(f'unknown call form {form}')


# ------------------------------------------------------------------ alpha (python object -> abstract result)

def _R(r, v=0, w=0, s='', m=(), k=()):
    return {'r': r, 'v': v, 'w': w, 's': s, 'm': list(m), 'k': list(k)}


def _proj_enum(e):
    """everything that can be seen of an enum: display name, members, the lookup table"""
    L = _lib()
    try:
        mem = [{'n': m.name, 'v': m.value} for m in e.members]
        keys = []
        for key, m in dict.items(e):
            if not isinstance(m, L['Member']) or m.enum is not e:
                keys.append({'int': False, 'ki': 0, 'ks': f'?{key!r}', 'n': '?', 'v': 0})        # a foreign entry
            elif isinstance(key, str):
                keys.append({'int': False, 'ki': 0, 'ks': key, 'n': m.name, 'v': m.value})
            elif type(key) is int:
                keys.append({'int': True, 'ki': key, 'ks': '', 'n': m.name, 'v': m.value})
            else:
                keys.append({'int': False, 'ki': 0, 'ks': f'?{key!r}', 'n': m.name, 'v': m.value})
        keys.sort(key=lambda x: (x['v'], not x['int'], x['ks']))
        for m in e.members:             # one object per member, reachable under both keys
            if dict.get(e, m.name) is not m or dict.get(e, m.value) is not m:
                keys.append({'int': False, 'ki': 0, 'ks': '?identity', 'n': m.name, 'v': m.value})
        return _R('enum', s=e.name, m=mem, k=keys)
    except Exception as ex:             # not even inspectable any more
        return _R('broken', s=type(ex).__name__)


def _proj(res, cur=None):
    L = _lib()
    if isinstance(res, L['Member']):
        if cur is not None and res.enum is cur and dict.get(cur, res.name) is res:
            return _R('mem', v=res.value, s=res.name)
        if cur is not None and res.enum is cur:
            return _R('mem', v=res.value, s=res.name, w=1)          # detached member object
        return _R('foreign', v=res.value, s=str(res.name))
    if isinstance(res, bool):
        return _R('bool', v=int(res))
    if isinstance(res, int):
        return _R('int', v=res)
    if isinstance(res, float):
        f = Fraction(res).limit_denominator(1 << 20)
        return _R('frac', v=f.numerator, w=f.denominator)
    if isinstance(res, tuple) and len(res) == 2 and all(type(x) is int for x in res):
        return _R('pair', v=res[0], w=res[1])
    if isinstance(res, str):
        return _R('str', s=res)
    if isinstance(res, L['Enum']):
        return _proj_enum(res)
    return _R('other', s=type(res).__name__)


def _exc(ex):
    return _R('exc', s=type(ex).__name__)


CMP = {'eq': operator.eq, 'ne': operator.ne, 'lt': operator.lt, 'le': operator.le, 'gt': operator.gt, 'ge': operator.ge}
BIN = {'add': operator.add, 'sub': operator.sub, 'mul': operator.mul, 'truediv': operator.truediv,
       'floordiv': operator.floordiv, 'mod': operator.mod, 'divmod': divmod, 'pow': operator.pow,
       'lshift': operator.lshift, 'rshift': operator.rshift, 'and': operator.and_, 'or': operator.or_, 'xor': operator.xor}
IOP = {'add': operator.iadd, 'sub': operator.isub, 'mul': operator.imul, 'truediv': operator.itruediv,
       'floordiv': operator.ifloordiv, 'mod': operator.imod, 'pow': operator.ipow, 'lshift': operator.ilshift,
       'rshift': operator.irshift, 'and': operator.iand, 'or': operator.ior, 'xor': operator.ixor}
CONV = {'int': int, 'float': float, 'index': operator.index, 'bool': bool, 'hash': hash, 'repr': repr, 'str': str,
        'fmt_d': lambda m: format(m, 'd'), 'fmt_g': lambda m: f'{m:g}', 'fmt_': lambda m: f'{m}',
        'neg': operator.neg, 'pos': operator.pos, 'abs': abs, 'invert': operator.invert,
        'name': lambda m: m.name, 'value': lambda m: m.value, 'enumname': lambda m: m.enum.name,
        'pow3': lambda m: pow(m, 2, 3)}


RESERVED = ('name', 'members', 'enum', 'value', 'parent')      # attribute names of Enum / EnumMember / __init__ arguments


def _first(cur):
    """the member a mutation attempt is aimed at (one whose name is not also an attribute name)"""
    return next(m for m in cur.members if m.name not in RESERVED)


def _mutate(cur, kind):
    """one attempt to change an enum / a member after construction"""
    L = _lib()
    if kind == 'setitem_new':
        cur['zz'] = 3
    elif kind == 'setitem_old':
        cur[_first(cur).name] = 99
    elif kind == 'delitem':
        del cur[_first(cur).name]
    elif kind == 'setattr_new':
        cur.zz = 3
    elif kind == 'setattr_old':
        setattr(cur, _first(cur).name, 99)
    elif kind == 'del_name':
        del cur.name
    elif kind == 'del_members':
        del cur.members
    elif kind == 'clear':
        cur.clear()
    elif kind == 'pop':
        cur.pop(_first(cur).name)
    elif kind == 'popitem':
        cur.popitem()
    elif kind == 'update':
        cur.update(zz=3)
    elif kind == 'setdefault':
        cur.setdefault('zz', 3)
    elif kind == 'ior':
        operator.ior(cur, {'zz': 3})
    elif kind == 'reinit':
        cur.__init__(cur.name, zz=3)
    elif kind == 'm_set_name':
        _first(cur).name = 'q'
    elif kind == 'm_set_value':
        _first(cur).value = 99
    elif kind == 'm_set_enum':
        _first(cur).enum = L['OTHER']
    elif kind == 'm_set_new':
        _first(cur).foo = 1
    elif kind == 'm_del_value':
        del _first(cur).value
    elif kind == 'm_del_name':
        del _first(cur).name
    elif kind == 'm_iadd':
        m = _first(cur)
        m += 1
    elif kind == 'm_ior':
        m = _first(cur)
        m |= 1
    else:
        raise MachineryError(f'unknown mutation {kind}')


def _do(step, cur, made, others=None):
    """execute one step on the real library; returns (projected result, new current enum or None)"""
    L = _lib()
    act = step['act']
    new = None
    try:
        if act in ('new', 'extend'):
            new = _build(step, cur, others)
            res = _proj_enum(new)
        elif act == 'rename':
            cur.name = step['nm']
            res = _proj_enum(cur)
        elif act == 'look':
            key = _gval(step['key'], cur, others)
            how = step['how']
            r = cur(key) if how == 'call' else cur[key] if how == 'item' else getattr(cur, key)
            res = _proj(r, cur)
        elif act == 'sib':
            res = _proj(getattr(cur[step['mn']], step['key']), cur)
        elif act == 'rep':
            res = _proj(repr(cur))
        elif act == 'cmp':
            m, x = cur[step['mn']], _gval(step['x'], cur, others)
            r = CMP[step['op']](m, x) if step['side'] == 'l' else CMP[step['op']](x, m)
            res = _proj(r) if isinstance(r, bool) else _R('other', s=type(r).__name__)
        elif act == 'cmp3':
            res = _proj(cur[step['mn']].__cmp__(_gval(step['x'], cur, others)))
        elif act in ('et_look', 'et_export', 'et_copy', 'et_rename'):
            from frappy.datatypes import EnumType
            dt = EnumType(cur)
            if dt._enum is cur or any(dt._enum[k] is cur[k] for k in dict.keys(cur)):
                res = _R('other', s='EnumType shares the enum')
            elif act == 'et_look':
                r = dt(_gval(step['key'], cur, others))
                res = _proj(r, dt._enum)
            elif act == 'et_export':
                res = _proj(dt.export_value(_gval(step['key'], cur, others)))
            elif act == 'et_copy':
                c = dt.copy()
                d = dt.export_datatype()
                if c._enum is dt._enum or d != c.export_datatype() or d['type'] != 'enum' or \
                        d['members'] != {m.name: m.value for m in cur.members} or dt.default is not dt._enum.members[0]:
                    res = _R('other', s='copy / export_datatype')
                else:
                    res = _proj_enum(c._enum)
            else:
                dt.set_name('renamed')
                res = _proj_enum(dt._enum)
        elif act == 'ar':
            m, x = cur[step['mn']], _gval(step['x'], cur, others)
            res = _proj(BIN[step['op']](m, x) if step['side'] == 'l' else BIN[step['op']](x, m))
        elif act == 'iop':
            res = _proj(IOP[step['op']](cur[step['mn']], 1))
        elif act == 'cv':
            res = _proj(CONV[step['what']](cur[step['mn']]))
        elif act == 'mut':
            _mutate(cur, step['kind'])
            res = _R('accepted')
        elif act == 'mctor':
            if step['kind'] == 'noenum':
                res = _proj(L['Member']({'a': 1}, 'a', 1))          # a plain dict is not an Enum
            else:
                r = L['Member'](cur, 'zz', 9)
                res = _R('mem', v=r.value, s=r.name) if r.enum is cur else _R('foreign')
        elif act == 'twin':
            t = _build(made[-1][0], made[-1][2], others) if made[-1][0]['act'] != 'rename' else None
            if t is None:
                res = _R('bool', v=1)
            else:
                same = t == cur and cur == t and not (t != cur) and t is not cur and \
                    all(t[k] is not cur[k] for k in dict.keys(cur)) and _proj_enum(t)['m'] == _proj_enum(cur)['m']
                t.name = 'w'           # the twin is independent: renaming it does not rename the original
                res = _R('bool', v=int(bool(same)))
        elif act == 'eqe':
            o = step['other']
            other = L['Enum'](o['s'], **{x['n']: x['v'] for x in o['m']})
            eq, ne = cur == other, cur != other
            res = _R('bool', v=int(eq)) if eq is (not ne) else _R('other', s='== and != disagree')
        else:
            raise MachineryError(f'unknown step {act}')
    except MachineryError:
        raise
    except Exception as ex:
        res = _exc(ex)
    return res, new


def _sig(step, obs):
    sig = {'module': 'EnumLib', 'act': step['act']}
    if step.get('dev') and obs == step.get('alt'):
        sig['deviation'] = 'Dev_' + step['dev']
        return sig
    for key in ('op', 'how', 'kind', 'what', 'form', 'side'):
        if key in step:
            sig[key] = step[key]
    for key in ('x', 'key'):
        if isinstance(step.get(key), dict):
            sig['ty'] = step[key]['ty']
    sig['observed'] = obs['r'] + (':' + obs['s'] if obs['r'] == 'exc' else '')
    sig['expected'] = step['exp']['r'] + (':' + step['exp']['s'] if step['exp']['r'] == 'exc' else '')
    return sig


def _replay(beh):
    """one printed line: the constructions of the path, then the step.  returns None or a failure record"""
    cur = None
    made = []            # (step, enum object, parent object) of every construction on the path
    for j, step in enumerate(beh):
        last = j == len(beh) - 1
        obs, new = _do(step, cur, made)
        if obs != step['exp']:
            return {'step': j, 'action': step, 'observed': obs, 'sig': _sig(step, obs)}
        if new is not None:
            made.append((step, new, cur))
            cur = new
        elif step['act'] == 'rename':
            made.append((step, cur, None))
        if last or step['act'] in ('mut', 'twin', 'mctor', 'eqe', 'et_rename'):
            # nothing but a construction / rename changes an enum: every enum made on the path is what it was
            seen = {}
            for st, obj, _ in made:
                seen[id(obj)] = (st, obj)          # a renamed enum: its latest description counts
            for st, obj in seen.values():
                now = _proj_enum(obj)
                if now != st['exp']:
                    return {'step': j, 'action': step, 'observed': now, 'changed': st['exp'],
                            'sig': {'module': 'EnumLib', 'act': step['act'], 'changed': 'ancestor' if obj is not cur else 'self',
                                    'kind': step.get('kind', step.get('form', ''))}}
    return None


PAT = '<<"BEH", "'


def _parse_line(line):
    """a line printed by PrintT(<<"BEH", ToJson(..)>>) -> behaviour (the TLA+ string escapes are JSON's)"""
    return json.loads(json.loads('"' + line[len(PAT):-3] + '"'))


def _replay_chunk(lines):
    """parse and replay printed lines; returns (failures [(line, behaviour, failure)], count per action, non-trivial, samples)"""
    out, acts, nontrivial, samples = [], {}, 0, {}
    for line in lines:
        b = _parse_line(line)
        act = b[-1]['act']
        acts[act] = acts.get(act, 0) + 1
        nontrivial += any(s['exp']['r'] == 'enum' and s['exp']['m'] for s in b)
        if act in ('extend', 'cmp', 'mut') and len(b) > 1:
            samples.setdefault(act, b)
        try:
            bad = _replay(b)
        except MachineryError:
            raise
        except Exception as ex:         # the library (or its import) fails in a way no step expects
            bad = {'step': -1, 'observed': repr(ex), 'sig': {'module': 'EnumLib', 'act': act, 'crash': type(ex).__name__}}
        if bad:
            out.append((line, b, bad))
    return out, acts, nontrivial, samples


def _emit_status(tier):
    r, lines = _emit(f'Gen_EnumStatus_{tier}.cfg', 'Gen_EnumStatus')
    if tier == 'thorough':          # longer chains over a smaller alphabet
        r2, more = _emit('Gen_EnumStatus_thorough_deep.cfg', 'Gen_EnumStatus')
        r.distinct += r2.distinct
        r.generated += r2.generated
        r.depth = max(r.depth, r2.depth)
        lines += more
    return r, lines


def _emit(cfg, module='Gen_EnumLib'):
    r = run_tlc(module, cfg, workers=1, timeout=1500)
    if r.violated or not r.ok:
        raise MachineryError(f'behaviour emission {module}/{cfg} failed: {r.violated or r.error}\n{r.out[-2000:]}')
    lines = [x for x in r.out.splitlines() if x.startswith(PAT) and x.endswith('">>')]
    r.out = ''
    return r, lines


# ------------------------------------------------------------------ code -> spec: random programs

ALPHABETS = [
    (['a', 'b', 'c', 'd'], [-1, 0, 1, 2, 3, 5]),
    (['a', 'b', 'name', 'value'], [0, 1, 2, 3, 4]),
    (['IDLE', 'WARN', 'BUSY', 'ERROR', 'name'], [0, 100, 130, 200, 300, 370, 400, 401]),
    (['a', 'b', 'c', 'enum', 'members'], [-3, -2, -1, 0, 1, 2, 7, 8, 9]),
]


def _V(ty, v=0, s='', **kw):
    return dict({'ty': ty, 'v': v, 's': s}, **kw)


def _rand_program(seed):
    """a seeded program over three registers; returns the recorded trace (list of events)"""
    L = _lib()
    rnd = random.Random(seed)
    names, vals = rnd.choice(ALPHABETS)
    regs = {1: None, 2: None, 3: None}
    trace = []

    def live():
        return [r for r in regs if regs[r] is not None]

    def member_operand(r):
        """a member of some live register, abstract"""
        cands = [(q, m) for q in live() for m in regs[q].members]
        if not cands:
            return _V('int', rnd.choice(vals))
        q, m = rnd.choice(cands)
        if q == r:
            return _V('own', m.value, m.name)
        return _V('mem', m.value, m.name, reg=q)

    def operand(r, wide=True):
        k = rnd.random()
        if k < 0.3:
            return _V('int', rnd.choice(vals + [v + 1 for v in vals]))
        if k < 0.5:
            return member_operand(r)
        if k < 0.62 and wide:
            return _V('str', 0, rnd.choice(names + ['zz']))
        if k < 0.74 and wide:
            return _V('float', rnd.choice([2 * v + d for v in vals for d in (-1, 0, 1)]))
        if k < 0.8 and wide:
            return _V('bool', rnd.choice([0, 1]))
        if k < 0.86 and wide:
            return _V('numstr', rnd.choice(vals))
        if k < 0.92 and wide:
            return _V('none')
        if k < 0.95 and wide:
            return _V('list')
        return _V('int', rnd.choice(vals))

    def piece():
        k = rnd.random()
        if k < 0.55:
            val = _V('int', rnd.choice(vals))
        elif k < 0.7:
            val = _V('none')
        elif k < 0.82:
            val = _V('str', 0, rnd.choice(names + ['zz']))
        elif k < 0.87:
            val = _V('float', rnd.choice([2 * v + d for v in vals for d in (0, 0, 1)]))
        elif k < 0.9:
            val = _V('bool', rnd.choice([0, 1]))
        elif k < 0.93:
            val = _V('numstr', rnd.choice(vals))
        elif k < 0.95:
            val = _V('list')
        else:
            val = member_operand(0)
            if val['ty'] == 'own':
                val['ty'] = 'mem'
        return {'k': rnd.choice(names), 'val': val}

    def pieces(n, kw):
        out, seen = [], set()
        for _ in range(n):
            p = piece()
            if p['k'] in seen or (kw and p['k'] in ('name', 'parent') and rnd.random() < 0.8):
                continue
            seen.add(p['k'])
            out.append(p)
        return out

    def small(v):
        return abs(v) <= 9

    for _ in range(rnd.randint(10, 34)):
        lv = live()
        k = rnd.random()
        if not lv or k < 0.22:
            reg = rnd.choice([1, 2, 3])
            ev = {'ev': 'new', 'reg': reg, 'src': 0, 'nm': rnd.choice(['', 'x', 'y', 'Status']), 'nmok': True,
                  'par': 'none', 'dp': [], 'kp': pieces(rnd.randint(0, 3), True)}
            form = rnd.choice(['kw', 'dict', 'dict', 'dictswap', 'enum', 'enum', 'enumswap', 'badname', 'badpar'])
            if form in ('enum', 'enumswap') and not lv:
                form = 'dict'
            if form in ('dict', 'dictswap'):
                ev['par'] = 'dict'
                ev['dp'] = pieces(rnd.randint(0, 3), False)
            elif form in ('enum', 'enumswap'):
                ev['par'] = 'enum'
                ev['src'] = rnd.choice(lv)
            elif form == 'badpar':
                ev['par'] = 'bad'
            elif form == 'badname':
                ev['nmok'] = False
            if form in ('dictswap', 'enumswap', 'badname'):
                ev['nm'] = ''
            step = {'act': 'new', 'form': form, 'nm': ev['nm'], 'dp': ev['dp'], 'kp': ev['kp']}
            try:
                new = _build(step, regs.get(ev['src']), regs)
                ev['out'] = _proj_enum(new)
                regs[reg] = new
            except MachineryError:
                raise
            except Exception as ex:
                ev['out'] = _exc(ex)
            trace.append(ev)
        else:
            reg = rnd.choice(lv)
            cur = regs[reg]
            mems = [m.name for m in cur.members]
            mn = rnd.choice(mems) if mems else None
            plain = [x for x in names if x not in RESERVED]
            if k < 0.3:
                step = {'act': 'rename', 'nm': rnd.choice(['', 'x', 'y', 'z'])}
                ev = {'ev': 'ren', 'reg': reg, 'nm': step['nm']}
            elif k < 0.45:
                how = rnd.choice(['call', 'item', 'attr'])
                key = operand(reg) if how != 'attr' else rnd.choice([_V('str', 0, rnd.choice(plain + ['zz', 'name'])), _V('numstr', 1)])
                step = {'act': 'look', 'how': how, 'key': key}
                ev = {'ev': 'look', 'reg': reg, 'how': how, 'key': key}
            elif k < 0.5 and mn:
                step = {'act': 'sib', 'mn': mn, 'key': rnd.choice(plain + ['zz', 'value', 'name'])}
                ev = {'ev': 'sib', 'reg': reg, 'mn': mn, 'key': step['key']}
            elif k < 0.53:
                step = {'act': 'rep'}
                ev = {'ev': 'rep', 'reg': reg}
            elif k < 0.55 and mn:
                step = {'act': 'cmp3', 'mn': mn, 'x': operand(reg)}
                ev = dict(step, ev='cmp3', reg=reg)
            elif k < 0.58 and mn:
                step = {'act': 'et_look', 'key': operand(reg)}
                ev = dict(step, ev='et_look', reg=reg)
            elif k < 0.7 and mn:
                step = {'act': 'cmp', 'mn': mn, 'op': rnd.choice(sorted(CMP)), 'side': rnd.choice('lr'), 'x': operand(reg)}
                ev = dict(step, ev='cmp', reg=reg)
            elif k < 0.84 and mn:
                op = rnd.choice(sorted(BIN))
                side = rnd.choice('llr')
                x = operand(reg, wide=False) if side == 'l' else _V('int', rnd.choice(vals))
                a, b = (cur[mn].value, x['v']) if side == 'l' else (x['v'], cur[mn].value)
                if op in ('pow', 'lshift', 'rshift') and not (small(a) and small(b)):
                    continue                      # (TLC: 32 bit integers)
                step = {'act': 'ar', 'mn': mn, 'op': op, 'side': side, 'x': x}
                ev = dict(step, ev='ar', reg=reg)
            elif k < 0.86 and mn:
                step = {'act': 'iop', 'mn': mn, 'op': rnd.choice(sorted(IOP))}
                ev = dict(step, ev='iop', reg=reg)
            elif k < 0.92 and mn:
                what = rnd.choice(sorted(CONV))
                if what == 'pow3' and not small(cur[mn].value):
                    continue
                step = {'act': 'cv', 'mn': mn, 'what': what}
                ev = dict(step, ev='cv', reg=reg)
            elif k < 0.96:
                kind = rnd.choice(['setitem_new', 'setitem_old', 'delitem', 'setattr_new', 'setattr_old', 'del_name',
                                   'del_members', 'clear', 'pop', 'popitem', 'update', 'setdefault', 'ior', 'reinit',
                                   'm_set_name', 'm_set_value', 'm_set_enum', 'm_set_new', 'm_del_value', 'm_del_name',
                                   'm_iadd', 'm_ior'])
                if not [x for x in mems if x not in RESERVED] and \
                        (kind.startswith('m_') or kind in ('pop', 'popitem', 'setitem_old', 'setattr_old', 'delitem')):
                    continue
                step = {'act': 'mut', 'kind': kind}
                ev = {'ev': 'mut', 'reg': reg, 'kind': kind}
            elif len(lv) > 1:
                reg2 = rnd.choice([r for r in lv if r != reg])
                ev = {'ev': 'eqe', 'reg': reg, 'reg2': reg2}
                eq, ne = cur == regs[reg2], cur != regs[reg2]
                ev['out'] = _R('bool', v=int(eq)) if eq is (not ne) else _R('other', s='== and != disagree')
                trace.append(ev)
                continue
            else:
                continue
            ev.pop('act', None)
            out, _ = _do(step, cur, [], regs)
            ev['out'] = out
            trace.append(ev)
            if step['act'] == 'mut' and out['r'] == 'accepted':
                regs[reg] = None               # spoiled: not used any more
        # whatever happened: every live enum is still what the specification says it is
        if rnd.random() < 0.5:
            for r in live():
                trace.append({'ev': 'proj', 'reg': r, 'out': _proj_enum(regs[r])})
    for r in live():
        trace.append({'ev': 'proj', 'reg': r, 'out': _proj_enum(regs[r])})
    return trace


def _rand_chunk(seeds):
    out = []
    for sd in seeds:
        try:
            out.append(_rand_program(sd))
        except MachineryError:
            raise
        except Exception as ex:         # no event of the specification: rejected by Trace_EnumLib
            out.append([{'ev': 'crash', 'reg': 0, 'out': _exc(ex), 'seed': sd, 'text': repr(ex)[:200]}])
    return out


# ------------------------------------------------------------------ class level: status enums along class hierarchies

STATUS_NAMES = ['DISABLED', 'IDLE', 'WARN', 'BUSY', 'RAMPING', 'FINALIZING', 'ERROR', 'X', 'PERSIST', 'NOPE']
STATUS_CODES = [0, 5, 100, 101, 200, 300, 370, 390, 400, 777]


def _status_replay(line):
    """define the classes of one behaviour of Gen_EnumStatus for real, instantiate each, compare"""
    boot()
    from frappy.datatypes import EnumType, StatusType, StringType, TupleOf
    from frappy.lib.enum import Enum
    from frappy.modules import Drivable, Readable
    from frappy.params import Parameter
    from ..env import LoggerStub, ServerStub
    beh = _parse_line(line)
    classes = [Readable, Drivable]
    before = [[[m.name, m.value] for m in c.Status.members] for c in classes]
    kinds = [st['kind'] for st in beh['steps']]
    for j, st in enumerate(beh['steps']):
        base = classes[st['base'] - 1]
        kind, arg = st['kind'], st['arg']
        try:
            body = {}
            if kind == 'std':
                body['status'] = Parameter(datatype=StatusType(base, *arg))
            elif kind == 'kw':
                body['status'] = Parameter(datatype=StatusType(base, **{arg[0]: arg[1]}))
            elif kind in ('enum', 'tuple', 'lost'):
                body['Status'] = Enum(base.Status, **{arg[0]: arg[1]})
                if kind == 'enum':
                    body['status'] = Parameter(datatype=StatusType(body['Status']))
                elif kind == 'tuple':
                    body['status'] = Parameter(datatype=TupleOf(EnumType(body['Status']), StringType()))
            # class layout variation: every other class has a mixin without accessibles in front
            cls = type(f'Cls{j}', (base,) if j % 2 else (type(f'Plain{j}', (), {}), base), body)
            err = ''
        except Exception as ex:
            cls, err = None, type(ex).__name__
        if err != st['err']:
            return {'sig': {'module': 'EnumStatus', 'what': 'definition', 'kind': kind, 'expected': st['err'] or 'accepted',
                            'observed': err or 'accepted'}, 'step': j, 'kinds': kinds}
        if cls is not None:
            classes.append(cls)
    pending = [None]
    for j, (cls, exp) in enumerate(zip(classes, beh['classes'])):
        want = [[x['n'], x['v']] for x in exp['m']]
        obs = {'status': [[m.name, m.value] for m in cls.Status.members]}
        dt = cls.accessibles['status'].datatype
        obs['described'] = sorted(([n, v] for n, v in dt.export_datatype()['members'][0]['members'].items()), key=lambda x: x[1])
        inst_cls = type(f'Inst{j}', (cls,), {'read_status': lambda self: pending[0], 'read_value': lambda self: 0.0})
        m = inst_cls('m', LoggerStub('m'), {'description': ''}, ServerStub())
        obs['instance'] = [[x.name, x.value] for x in m.Status.members]
        obs['instance_described'] = sorted(([n, v] for n, v in m.parameters['status'].datatype.export_datatype()
                                            ['members'][0]['members'].items()), key=lambda x: x[1])
        acc, busy, driving, refused = [], [], [], set()
        for code in STATUS_CODES:
            pending[0] = (code, 'text')
            try:
                r = m.read_status()
                if r[0].value != code or m.status[0].name != dict((v, n) for n, v in want).get(code):
                    refused.add('wrong member')
                acc.append(code)
                if isinstance(m, Drivable):
                    if m.isBusy():
                        busy.append(code)
                    if m.isDriving():
                        driving.append(code)
            except Exception as ex:
                refused.add(type(ex).__name__)
        obs['acc'] = acc
        obs['refused'] = sorted(refused - {'RangeError'})
        emit = []
        for name in STATUS_NAMES:          # what the module can emit through self.Status.<NAME>
            try:
                pending[0] = (getattr(m.Status, name), '')
            except AttributeError:
                continue
            try:
                emit.append([name, m.read_status()[0].value])
            except Exception as ex:
                emit.append([name, type(ex).__name__])
        obs['emit'] = sorted(emit, key=lambda x: str(x[1]).rjust(5))
        expd = {'status': want, 'described': want, 'instance': want, 'instance_described': want,
                'acc': sorted(exp['acc']), 'refused': [], 'emit': want}
        if isinstance(m, Drivable):
            obs['busy'], obs['driving'] = busy, driving
            expd['busy'], expd['driving'] = sorted(exp['busy']), sorted(exp['driving'])
        for key in expd:
            if obs[key] != expd[key]:
                return {'sig': {'module': 'EnumStatus', 'what': key, 'kind': kinds[j - 2] if j >= 2 else 'builtin'},
                        'class': j, 'observed': obs, 'expected': expd, 'kinds': kinds}
    after = [[[m.name, m.value] for m in c.Status.members] for c in classes[:2]]
    if after != before:
        return {'sig': {'module': 'EnumStatus', 'what': 'builtin classes changed'}, 'kinds': kinds}
    return None


def _status_chunk(lines):
    out = []
    for line in lines:
        try:
            bad = _status_replay(line)
        except MachineryError:
            raise
        except Exception as ex:
            bad = {'sig': {'module': 'EnumStatus', 'what': 'crash', 'crash': type(ex).__name__}, 'observed': repr(ex)}
        if bad:
            out.append((line, bad))
    return out


GEN_QUICK = ['Gen_EnumLib_quick_build.cfg', 'Gen_EnumLib_quick_build2.cfg', 'Gen_EnumLib_quick_build3.cfg', 'Gen_EnumLib_quick_ops.cfg',
             'Gen_EnumLib_quick_misc.cfg']
GEN_THOROUGH = ['Gen_EnumLib_thorough_build.cfg', 'Gen_EnumLib_thorough_build2.cfg', 'Gen_EnumLib_thorough_build3.cfg',
                'Gen_EnumLib_thorough_cmp.cfg', 'Gen_EnumLib_thorough_arith.cfg', 'Gen_EnumLib_thorough_misc.cfg']
MUST_FAIL = {'FloatTrunc': 'ComparesLikeItsValue', 'Mutable': 'Frozen', 'PowMember': 'OperatorsUnwrap',
             'ReservedName': 'OrderIndependent', 'NoDupValue': 'IsBijection'}


def _corrupt(tr):
    """a copy of a recorded program with one wrong result (binding self-test), or None"""
    for j, e in enumerate(tr):
        if e['ev'] == 'proj' and e['out']['m']:
            bad = json.loads(json.dumps(tr))
            bad[j]['out']['m'][0]['v'] += 1
            return bad
    return None


def run(chk):
    import time as _t
    quick = chk.tier == 'quick'
    t0 = _t.time()
    stage = {}
    chk.rule = ('every transition of the TLC state graph of EnumLib (source state reached by its first path of '
                'constructions; step = construction / extension / rename / lookup / comparison / arithmetic / conversion / '
                'mutation attempt / equality / use through EnumType) replayed on frappy.lib.enum, a case is distinct by its '
                'printed line, non-trivial = the enum under test has at least one member; every sequence of class '
                'definitions of Gen_EnumStatus built for real; seeded random programs (distinct by their recording) '
                'judged by Trace_EnumLib')
    run_parallel([lambda m=m: sany(m) for m in ('Gen_EnumLib', 'Trace_EnumLib', 'Gen_EnumStatus')], width=3)
    tier = 'quick' if quick else 'thorough'
    gens = GEN_QUICK if quick else GEN_THOROUGH

    # ---- random programs on the real library (recorded now, judged by TLC below)
    n = 800 if quick else 30000
    seeds = [chk.seed * 1000003 + i for i in range(n)]
    traces = []
    for part in pool_map(_rand_chunk, [seeds[i::32] for i in range(32)], chunksize=1):
        traces.extend(part)
    # binding self-test: recordings with one corrupted result ride along and must be rejected
    corrupted = [c for c in (_corrupt(tr) for tr in traces[:40]) if c][:5]
    if not corrupted and not any(tr[0]['ev'] == 'crash' for tr in traces):
        raise MachineryError('no recorded program fit for the self-test')
    stage['programs'] = round(_t.time() - t0, 1)

    # ---- all TLC work side by side
    thunks = [lambda: model_check('EnumLib', f'MC_EnumLib_{tier}.cfg', timeout=1500, workers=2 if quick else 8),
              lambda: validate_traces('Trace_EnumLib', traces + corrupted, 'Trace_EnumLib.cfg', timeout=1500,
                                      collect=('DEVS',), chunk=4000),
              lambda: _emit_status(tier)]
    for cfg in gens:
        thunks.append(lambda cfg=cfg: _emit(cfg))
    # vacuity: the model with a deviation switch (the code as it stands) / a broken design must violate its property
    fails = ['NoDupValue'] if quick else sorted(MUST_FAIL)
    for d in fails:
        thunks.append(lambda d=d: run_tlc('EnumLib', f'MC_EnumLib_asimpl_{d}.cfg', timeout=600, workers=1))
    if not quick:
        thunks.append(lambda: run_tlc('Gen_EnumStatus', 'MC_EnumStatus_fresh.cfg', timeout=600, workers=1))
    out = run_parallel(thunks, width=14)
    if not quick:
        r = out.pop()
        if not (r.violated and r.violated[1] == 'Monotone'):
            raise MachineryError('EnumStatus with a status type that does not extend the base is expected to violate '
                                 f'Monotone: {r.violated or r.error}')
    for d, r in zip(fails, out[3 + len(gens):]):
        if not (r.violated and r.violated[1] == MUST_FAIL[d]):
            raise MachineryError(f'the model with switch {d} is expected to violate {MUST_FAIL[d]}: {r.violated or r.error}')
    chk.add_tlc(out[0])
    verdicts, st, trn, extra = out[1]
    sr, slines = out[2]
    chk.add_tlc(sr)
    lines = set()
    for (r, b), cfg in zip(out[3:3 + len(gens)], gens):
        chk.add_tlc(r)
        if not b:
            raise MachineryError(f'{cfg} emitted nothing')
        lines.update(b)
    lines = sorted(lines)
    stage['tlc'] = round(_t.time() - t0, 1)

    # ---- spec -> code: every printed transition
    nchunk = 64
    acts = {}
    for bad, a, nontrivial, samples in pool_map(_replay_chunk, [lines[i::nchunk] for i in range(nchunk)], chunksize=1):
        for k, v in a.items():
            acts[k] = acts.get(k, 0) + v
        chk.distinct.update(range(len(chk.distinct), len(chk.distinct) + nontrivial))
        for line, b, f in bad:
            chk.violation(f['sig'], {'world': 'gen', 'behaviour': b, **f})
        for k in sorted(samples):
            if not any(k in x for x in chk.samples):
                chk.sample({k: [{kk: v for kk, v in st.items() if kk != 'alt'} for st in samples[k]]}, limit=6)
    chk.impl_traces += len(lines)
    chk.evaluations += len(lines)
    chk.notes['transitions_replayed_by_action'] = acts
    stage['replay'] = round(_t.time() - t0, 1)

    # ---- class level: status enums along class hierarchies
    slines = sorted(set(slines))
    step = 3 if quick else 1
    slines = slines[chk.seed % step::step]
    chk.notes['class_hierarchies_sampled'] = f'1 of {step}'
    if not slines:
        raise MachineryError('Gen_EnumStatus emitted nothing')
    for res in pool_map(_status_chunk, [slines[i::32] for i in range(32)], chunksize=1):
        for line, f in res:
            chk.violation(f['sig'], {'world': 'status', 'line': line, **f})
    for line in slines:
        chk.impl_traces += 1
        chk.case(('status', line))
    chk.sample({'class_hierarchy': _parse_line(slines[len(slines) // 2])['steps']}, limit=8)
    stage['status'] = round(_t.time() - t0, 1)

    # ---- code -> spec: the verdicts on the recorded programs
    chk.states += st
    chk.transitions += trn
    devs = {}
    for i, js in extra['DEVS']:
        d = set(json.loads(js))
        devs[i] = d if i not in devs else min(devs[i], d, key=len)
    count = {}
    for i in range(len(traces), len(traces) + len(corrupted)):
        if verdicts[i] is None:
            raise MachineryError('Trace_EnumLib self-test failed: a recording with a corrupted result was accepted')
    for i, tr in enumerate(traces):
        v = verdicts[i]
        chk.impl_traces += 1
        chk.case(('prog', json.dumps(tr, sort_keys=True)), any(e['ev'] == 'new' and e['out']['r'] == 'enum' and e['out']['m'] for e in tr))
        if v is not None:
            pos = v[0]
            ev = tr[pos - 1] if 0 < pos <= len(tr) else {}
            sig = {'module': 'EnumLib', 'trace_event': ev.get('ev'), 'observed': (ev.get('out') or {}).get('r')}
            for key in ('op', 'how', 'kind', 'what', 'par'):
                if key in ev:
                    sig[key] = ev[key]
            chk.violation(sig, {'world': 'prog', 'failed_at': pos, 'event': ev, 'trace': tr})
        else:
            for dev in sorted(devs.get(i, ())):
                count[dev] = count.get(dev, 0) + 1
                chk.violation({'module': 'EnumLib', 'deviation': dev}, {'world': 'prog', 'trace': tr})
    chk.notes['programs_needing_deviation'] = count
    chk.notes['binding_selftest'] = f'{len(corrupted)} corrupted recordings rejected'
    chk.sample({'program_prefix': traces[len(traces) // 2][:6]}, limit=8)
    stage['verdicts'] = round(_t.time() - t0, 1)
    chk.notes['wall_until_end_of_stage'] = stage
    chk.exhaustive = False


def replay(chk, rep):
    d = rep['detail']
    if d.get('world') == 'gen':
        for s in d['behaviour']:
            print({k: v for k, v in s.items() if k not in ('exp', 'alt')})
        print('expected', d['behaviour'][-1]['exp'])
        print('->', json.dumps(_replay(d['behaviour']), indent=1))
    elif d.get('world') == 'status':
        print(json.dumps(_parse_line(d['line'])['steps'], indent=1))
        print('->', json.dumps(_status_replay(d['line']), indent=1))
    else:
        print(json.dumps({k: v for k, v in d.items() if k != 'trace'}, indent=1)[:3000])
        for j, e in enumerate(d.get('trace', []), 1):
            print(j, e)
    return 0
