"""C03 - Datatype descriptions, copies and compatibility verdicts are faithful.

spec/Datatypes.tla: Describe / Rebuild (must-ignore) with the law Rebuild(Describe(d)) = d checked by TLC on the
model, Deco (presentation properties), the compatibility relation by its meaning: Subset(a, b) computed by TLC over
a finite universe CU(a) that is exact for interval-like and finite value sets, Supported(a, b) (the pairings the
property names) and AllowedPass(a, b) = the allowed verdicts of a.compatible(b).
  spec -> code : Gen_Datatypes/EmitPairs prints AllowedPass for every ordered pair of the pair catalogue, the real
                 a.compatible(b) must give an allowed verdict; Gen_Datatypes/EmitEq prints the decorated type trees
                 with their probe candidates, each is built, exported through JSON, rebuilt (also with unknown keys),
                 copied, probed on all three objects, and every mutable part of the copy is changed.
  code -> spec : the recorded datainfos / verdicts - also for seeded random types and pairs - are judged by TLC
                 (Trace_Datatypes records compat / equiv / alias): the datainfo must denote the type (Rebuild), be
                 reproduced by the rebuilt type and by the copy, the original must be unaffected by mutations of the
                 copy, a passing compatible() must imply Subset, Supported and Subset must imply passing.
"""
import json
import random

from .. import dt_common as dc
from ..core import MachineryError, model_check, pool_map, run_tlc, sany

META = {
    'text': 'TLC checks on the abstract algebra that a description denotes its type (Rebuild(Describe(d)) = d, unknown keys '
            'ignored) and that compatibility-by-meaning is reflexive and transitive; it computes, as a genuine set computation '
            'over a finite universe exact for intervals / grids / finite sets, whether every value of a is valid for b, and '
            'prints the allowed verdict set of a.compatible(b) for every ordered pair of the pair catalogue (about 8.5e3 pairs) '
            '- the real verdicts must be members. Every catalogue type tree (with units containing $, format strings, '
            'resolutions, enums in containers, optional members) is exported, rebuilt through JSON, copied, probed with its '
            'boundary / wrong-kind candidates on all three objects and has every mutable part of its copy changed; the '
            'recorded datainfos are judged by TLC. Seeded random types and pairs are judged the same way.',
    'note': 'Trusted: TLC; gamma/alpha of harness/dt_common.py (info_abs is a generic JSON projection). "valid for b" means '
            'accepted by b.validate (tolerance included, as compatible() itself uses); pairings outside Supported may be '
            'refused; the relative resolution is only exercised at 0, 2^-3 and the default.',
    'tech': 'TLA+ spec (Datatypes.tla) + TLC model checking of describe/rebuild and compatibility laws; spec->code replay of '
            'TLC-enumerated pairs and type trees; code->spec TLC judgement of recorded datainfos and verdicts',
    'ref': 'DESIGN.md section 5 C03',
}

NSHARDS = {'quick': 6, 'thorough': 12}
GC = {'JAVA_TOOL_OPTIONS': '-XX:ParallelGCThreads=2'}


def _pairs_shard(arg):
    tier, shard, nshards = arg
    r = run_tlc('Gen_Datatypes', 'Gen_Datatypes_pairs.cfg', workers=1, timeout=1100,
                env=dict(GC, DT_TIER='c-' + tier, DT_SHARD=shard, DT_NSHARDS=nshards))
    if r.violated or not r.ok:
        raise MachineryError(f'Gen_Datatypes(pairs) shard {shard}: {r.violated or r.error}\n{r.out[-2500:]}')
    fails, n, loose = [], 0, 0
    sample = None
    for rec in r.printed('PAIRS'):
        a = rec['a']
        for p in rec['pairs']:
            b = p['b']
            c = dc.compat_record(a, b, {'via': 'enumerated'})
            n += 1
            loose += len(p['allowed']) > 1
            if c['passes'] not in p['allowed']:
                fails.append(c)
            elif sample is None and c['passes'] and a != b and a['k'] != b['k']:
                sample = {'a': dc.show_type(a), 'b': dc.show_type(b), 'allowed': p['allowed'], 'passes': c['passes']}
    return {'tlc': (r.distinct, r.generated, r.depth, r.wall), 'n': n, 'loose': loose, 'fails': fails, 'sample': sample}


def _eq_shard(arg):
    tier, shard, nshards = arg
    r = run_tlc('Gen_Datatypes', 'Gen_Datatypes_eq.cfg', workers=1, timeout=1100,
                env=dict(GC, DT_TIER='e-' + tier, DT_SHARD=shard, DT_NSHARDS=nshards))
    if r.violated or not r.ok:
        raise MachineryError(f'Gen_Datatypes(eq) shard {shard}: {r.violated or r.error}\n{r.out[-2500:]}')
    recs = []
    probes = 0
    for rec in r.printed('EQ'):
        probes += len(rec['probes'])
        recs += dc.equiv_records(rec['dt'], rec['probes'], {'via': 'enumerated'})
    return {'tlc': (r.distinct, r.generated, r.depth, r.wall), 'recs': recs, 'probes': probes}


UNITS = ['', 'K', '$', '$/min', 'mbar', 'µm']
FMTS = ['%g', '%.3f', '%.1e', '%d %%']


def _rand_records(arg):
    return dc.safe(_rand_records0, arg)


def _rand_records0(arg):
    seed, n = arg
    rnd = random.Random(seed)
    recs = []
    for _ in range(n):
        dt = dc.deco(dc.rand_type(rnd, rnd.choice((0, 1, 1, 2, 3)), open_strings=True),
                     rnd.choice(UNITS), rnd.choice(FMTS), rnd.random() < 0.5)
        probes = [dc.cand_abs(dc.wire_value(v), dc.is_literal) for v in
                  (dc.rand_value(rnd, dt) for _ in range(6)) if _jsonable(v)]
        recs += dc.equiv_records(dt, probes, {'via': 'random'})
        if rnd.random() < 0.3:       # a command built from random argument / result types
            none = {'k': 'none'}
            cmd = {'k': 'command', 'arg': none if rnd.random() < 0.3 else dt,
                   'res': none if rnd.random() < 0.4 else dc.deco(dc.rand_type(rnd, rnd.choice((0, 1))), rnd.choice(UNITS), '%g', True)}
            recs += dc.equiv_records(cmd, [], {'via': 'random'})
            plain = {'k': 'command', 'arg': none if cmd['arg']['k'] == 'none' else dc.rand_type(rnd, rnd.choice((0, 1))),
                     'res': none if cmd['res']['k'] == 'none' else dc.rand_type(rnd, 0)}
            other = _vary(rnd, plain)
            try:
                dc.build_type(other)
            except Exception:   # noqa: the variation produced an ill-formed type (min > max): not a case
                other = plain
            recs.append(dc.compat_record(plain, other, {'via': 'random'}))
            recs.append(dc.compat_record(other, plain, {'via': 'random'}))
        # pairs: unrelated, and related by widening / narrowing one side
        a = dc.rand_type(rnd, rnd.choice((0, 0, 1, 2)))
        b = _vary(rnd, a) if rnd.random() < 0.7 else dc.rand_type(rnd, rnd.choice((0, 0, 1, 2)))
        try:
            dc.build_type(b)
        except Exception:   # noqa: the variation produced an ill-formed type (min > max): not a case
            continue
        recs.append(dc.compat_record(a, b, {'via': 'random'}))
        recs.append(dc.compat_record(b, a, {'via': 'random'}))
    return recs


def _jsonable(v):
    try:
        json.dumps(v)
        return True
    except (TypeError, ValueError):
        return False


def _vary(rnd, a):
    """a type of the same shape with limits moved a little (nested, overlapping or equal value sets)"""
    k = a['k']
    d = lambda: rnd.choice((-16, -1, 0, 0, 1, 16))   # noqa
    if k == 'double':
        lo = a['min'] if a['min'] == -dc.NOLIM or rnd.random() < 0.1 else a['min'] + d()
        hi = a['max'] if a['max'] == dc.NOLIM else max(a['max'] + (0 if rnd.random() < 0.1 else d()), lo if lo != -dc.NOLIM else -10 ** 6)
        if rnd.random() < 0.1:
            return {'k': 'scaled', 'scale': 4, 'min': (max(lo, -4000) // 4) * 4, 'max': (max(min(hi, 4000), max(lo, -4000)) // 4) * 4 + 4}
        return dict(a, min=lo, max=hi)
    if k == 'int':
        r = rnd.random()
        if r < 0.15:
            return {'k': 'bool'}
        if r < 0.3 and a['max'] - a['min'] < 8:
            vals = sorted(set(range(a['min'], a['max'] + 1)) - ({rnd.randint(a['min'], a['max'])} if rnd.random() < 0.5 else set()))
            if vals:
                return {'k': 'enum', 'mem': [{'n': 'v%d' % i, 'v': v} for i, v in enumerate(vals)]}
        if r < 0.45:
            lo = (a['min'] + d() // 16) * 16
            return {'k': 'double', 'min': lo, 'max': max(lo, (a['max'] + 1) * 16 + d()), 'abs': 0, 'rel': 0}
        lo = a['min'] + d() // 16
        return dict(a, min=lo, max=max(lo, a['max'] + d() // 16))
    if k == 'scaled':
        lo = a['min'] + d() // 16 * a['scale']
        return dict(a, min=lo, max=max(lo, a['max'] + d() // 16 * a['scale']))
    if k == 'enum':
        mem = [m for m in a['mem'] if rnd.random() < 0.8] or a['mem'][:1]
        if rnd.random() < 0.3:
            mem = mem + [{'n': 'extra', 'v': 77}]
        if rnd.random() < 0.2:
            vs = [m['v'] for m in a['mem']]
            return {'k': 'int', 'min': min(vs) + rnd.choice((0, 1)), 'max': max(vs)}
        return {'k': 'enum', 'mem': sorted(mem, key=lambda m: m['v'])}
    if k == 'string' and a.get('text'):       # a TextType only has a maximum length
        return dict(a, maxc=a['maxc'] if a['maxc'] == dc.NOLIM and rnd.random() < 0.5 else
                    max(1, (a['maxc'] if a['maxc'] != dc.NOLIM else 20) + rnd.choice((-1, 0, 0, 1))))
    if k == 'string':
        lo = max(0, a['minc'] + rnd.choice((-1, 0, 0, 1)))
        hi = a['maxc'] if a['maxc'] == dc.NOLIM and rnd.random() < 0.7 else \
            max(lo, (a['maxc'] if a['maxc'] != dc.NOLIM else lo + 6) + rnd.choice((-1, 0, 0, 1)))
        if lo > 0 and hi == dc.NOLIM:
            hi = lo + 4
        return dict(a, minc=lo, maxc=hi, utf8=a['utf8'] if rnd.random() < 0.7 else not a['utf8'])
    if k == 'blob':
        lo = max(0, a['minb'] + rnd.choice((-1, 0, 0, 1)))
        return dict(a, minb=lo, maxb=max(lo, a['maxb'] + rnd.choice((-1, 0, 0, 1)), 1))
    if k == 'array':
        lo = max(0, a['minlen'] + rnd.choice((-1, 0, 0, 1)))
        return dict(a, el=_vary(rnd, a['el']), minlen=lo, maxlen=max(lo, a['maxlen'] + rnd.choice((-1, 0, 0, 1)), 1))
    if k == 'tuple':
        return dict(a, els=[_vary(rnd, e) for e in a['els']])
    if k == 'command':
        none = {'k': 'none'}
        arg = a['arg'] if a['arg']['k'] == 'none' and rnd.random() < 0.8 else (none if rnd.random() < 0.1 else _vary(rnd, a['arg']) if a['arg']['k'] != 'none' else {'k': 'bool'})
        res = a['res'] if a['res']['k'] == 'none' and rnd.random() < 0.8 else (none if rnd.random() < 0.1 else _vary(rnd, a['res']) if a['res']['k'] != 'none' else {'k': 'bool'})
        return {'k': 'command', 'arg': arg, 'res': res}
    if k == 'struct':
        names = [m['n'] for m in a['mem']]
        opt = sorted(n for n in names if (n in a['opt']) != (rnd.random() < 0.25))
        mem = [{'n': m['n'], 't': _vary(rnd, m['t'])} for m in a['mem']]
        if rnd.random() < 0.2:
            mem = mem + [{'n': 'z', 't': {'k': 'bool'}}]
            if rnd.random() < 0.5:
                opt = opt + ['z']
        return {'k': 'struct', 'mem': mem, 'opt': opt}
    return a


def _kids(r):
    if r['kind'] == 'compat':
        return [dc.compat_record(x, y, {'via': 'element'}) for x, y in dc.compat_children(r['a'], r['b'])]
    # equiv / alias: the same examination of the element types
    dt = r['dt']
    subs = {'array': lambda: [dt['el']], 'tuple': lambda: dt['els'],
            'struct': lambda: [m['t'] for m in dt['mem']],
            'command': lambda: [x for x in (dt['arg'], dt['res']) if x['k'] != 'none']}.get(dt['k'], lambda: [])()
    res = []
    for sdt in subs:
        res += [x for x in dc.equiv_records(sdt, [], {'via': 'element'}) if x['kind'] == r['kind']]
    return res


def _tk(dt):
    k = dt['k']
    if k == 'array':
        return 'array(%s)' % _tk(dt['el'])
    if k == 'tuple':
        return 'tuple(%s)' % ','.join(_tk(e) for e in dt['els'])
    if k == 'struct':
        return 'struct(%s;%d)' % (','.join(_tk(m['t']) for m in dt['mem']), len(dt['opt']))
    if k == 'string' and dt['maxc'] == dc.NOLIM and dt['minc'] > 0:
        return 'string-open'
    if k == 'command':
        return 'command(%s->%s)' % (_tk(dt['arg']), _tk(dt['res']))
    return k


def _struct_rel(a, b):
    """structural fact about a struct pair (not a verdict): how optional members of a appear in b"""
    if a['k'] != 'struct' or b['k'] != 'struct':
        return None
    bn = {m['n'] for m in b['mem']}
    if any(n in bn and n not in b['opt'] for n in a['opt']):
        return 'optional-in-a-mandatory-in-b'
    return 'other'


def _signature(root, clause):
    if root['kind'] == 'compat':
        a, b = root['a'], root['b']
        sig = {'module': 'Datatypes', 'clause': clause, 'a': a['k'], 'b': b['k'], 'exc': root.get('exc') or 'none'}
        rel = _struct_rel(a, b)
        if rel:
            sig['members'] = rel
        return sig
    dt = root['dt']
    sig = {'module': 'Datatypes', 'clause': clause, 'kind': dt['k']}
    if dt['k'] == 'string':
        sig['limits'] = 'minchars>0,maxchars unlimited' if dt['maxc'] == dc.NOLIM and dt['minc'] > 0 else 'other'
    for f in ('d2', 'd2x', 'd3'):
        if root.get(f, {}).get('j') == 'raised':
            sig['raised'] = f + ':' + root[f]['e']
            break
    return sig


def run(chk):
    quick = chk.tier == 'quick'
    chk.rule = ('compatibility: a case = an ordered pair (a, b) of datatype trees, distinct by the pair, non-trivial = the allowed '
                'verdict set is a singleton (Subset fails, or Supported and Subset hold); description: a case = a decorated '
                'datatype tree with the datainfos of original / rebuilt / rebuilt-with-unknown-keys / copy, its probe candidates '
                'and the datainfo of the original after mutating the copy. Enumerated cases come from TLC, random ones are '
                'judged by TLC.')
    for m in ('Datatypes', 'Gen_Datatypes', 'Trace_Datatypes'):
        sany(m)
    chk.add_tlc(model_check('Datatypes', 'MC_Datatypes_eq.cfg', timeout=1100, workers=1))
    chk.add_tlc(model_check('Datatypes', 'MC_Datatypes_compat.cfg', timeout=1100, workers=1))

    n = NSHARDS[chk.tier]
    jobs = [('p', chk.tier, s, n) for s in range(n)] + [('e', chk.tier, s, n) for s in range(n)]
    failing, recs = [], []
    for job, res in zip(jobs, pool_map(_shard, jobs, chunksize=1)):
        d, g, dep, wall = res['tlc']
        chk.states += d
        chk.transitions += g
        chk.notes.setdefault('tlc_runs', []).append({'distinct': d, 'generated': g, 'depth': dep, 'wall_s': round(wall, 1)})
        if job[0] == 'p':
            chk.impl_traces += res['n']
            chk.evaluations += res['n']
            chk.notes['pairs'] = chk.notes.get('pairs', 0) + res['n']
            chk.notes['pairs_with_free_verdict'] = chk.notes.get('pairs_with_free_verdict', 0) + res['loose']
            failing += res['fails']
            if res['sample']:
                chk.sample({'pair': res['sample']})
        else:
            recs += res['recs']
            chk.notes['probe_candidates'] = chk.notes.get('probe_candidates', 0) + res['probes']
    chk.distinct.update(range(chk.notes['pairs'] - chk.notes['pairs_with_free_verdict']))
    nrand = 300 if quick else 6000
    for b in pool_map(_rand_records, [(chk.seed * 15485863 + i, 50) for i in range(nrand // 50)]):
        recs += b
    # binding self test: corrupted copies of accepted records must be rejected by TLC
    probes = []
    for r in recs:
        if r['kind'] == 'alias' and r['dt']['k'] == 'int' and not probes:
            x = json.loads(json.dumps(r))
            x['after']['kv'][1]['v']['s'] += ' '
            probes.append(x)
        if r['kind'] == 'compat' and r['passes'] and r['a']['k'] == 'blob' and r['b']['k'] == 'blob' and len(probes) < 2 \
                and r['a']['maxb'] <= r['b']['maxb']:
            x = json.loads(json.dumps(r))
            x['b']['maxb'] = x['a']['maxb'] - 1
            x['b']['minb'] = min(x['b']['minb'], x['b']['maxb'])
            probes.append(x)
    verdicts = dc.judge(chk, recs + probes)
    if probes:
        chk.notes['binding_selftest'] = 'corrupted records -> ' + str(verdicts[len(recs):])
        if any(v is None for v in verdicts[len(recs):]):
            raise MachineryError('Trace_Datatypes accepted a corrupted record')
    for r, v in zip(recs, verdicts):
        chk.impl_traces += 1
        chk.case(hash(dc.rkey(r)), True)
        if v is not None:
            failing.append(r)
    ex = next((r for r in recs if r['kind'] == 'equiv' and r['dt']['k'] == 'struct'), None)
    if ex:
        chk.sample({'type': dc.show_type(ex['dt']), 'datainfo': dc.build_type(ex['dt']).export_datatype(),
                    'same_after_rebuild': ex['d2'] == ex['d1'], 'same_after_copy': ex['d3'] == ex['d1']})
    groups = {}
    for r in failing:
        k = (r['kind'], _tk(r['a']), _tk(r['b']), r['passes']) if r['kind'] == 'compat' else (r['kind'], _tk(r['dt']))
        groups.setdefault(k, []).append(r)
    chk.notes['failing_records'] = len(failing)
    reps = [g[0] for g in groups.values()]
    for root, clause, top in dc.localise(chk, reps, _kids):
        sig = _signature(root, clause)
        if root['kind'] == 'compat':
            detail = {'a': dc.show_type(root['a']), 'b': dc.show_type(root['b']), 'passes': root['passes'], 'exc': root.get('exc'),
                      'seen_in': {'a': dc.show_type(top['a']), 'b': dc.show_type(top['b']), 'via': top.get('via')}}
        else:
            detail = {'type': dc.show_type(root['dt']), 'probes': root.get('probes'), 'what': root.get('what'),
                      'seen_in': {'type': dc.show_type(top['dt']), 'via': top.get('via')}}
        detail['record'] = {k: root[k] for k in dc.SPEC_FIELDS if k in root}
        detail['clause'] = clause
        chk.violation(sig, detail)
    chk.exhaustive = False
    chk.assumptions += ['"valid for b" = accepted by b.validate (resolution tolerance included)',
                        'struct member order is not part of the datainfo; enum names do not take part in compatibility']


def _shard(job):
    return dc.safe(_pairs_shard if job[0] == 'p' else _eq_shard, job[1:])


def replay(chk, rep):
    d = rep['detail']
    r = d['record']
    if r['kind'] == 'compat':
        oa, ob = dc.build_type(r['a']), dc.build_type(r['b'])
        print('a:', repr(oa))
        print('b:', repr(ob))
        try:
            oa.compatible(ob)
            print('a.compatible(b): passes')
        except Exception as e:   # noqa
            print('a.compatible(b): raises', type(e).__name__, e)
        rec = dc.compat_record(r['a'], r['b'])
        print('TLC verdict:', dc.judge(chk, [rec])[0] or 'allowed')
    else:
        obj = dc.build_type(r['dt'])
        print('type    :', repr(obj))
        print('datainfo:', obj.export_datatype())
        try:
            print('rebuilt :', dc.rebuild_type(obj).export_datatype())
        except Exception as e:   # noqa
            print('rebuilt : raises', type(e).__name__, e)
        try:
            print('copy    :', obj.copy().export_datatype())
        except Exception as e:   # noqa
            print('copy    : raises', type(e).__name__, e)
        recs = dc.equiv_records(r['dt'], [p['c'] for p in (r.get('probes') or [])])
        for rec, v in zip(recs, dc.judge(chk, recs)):
            print(rec['kind'], '->', v or 'allowed', rec.get('probes') or '')
    print('recorded:', d.get('clause'), d.get('seen_in'))
    return 0
