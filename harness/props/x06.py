"""X06 (growth module) - the run loop of a node: frappy/server.py Server.__init__ / run / restart / shutdown /
_interfaceThread / signal_handler (with the real TCPServer.__init__ and the real UDPListener).

spec/ServerRun.tla     code-shaped: one action per step of run(), restart(), shutdown(), _interfaceThread and of the
                       responder thread; generations counted; two designs (Repaired = FALSE: the code as pinned, the
                       `_restart` flag read and written without a lock; TRUE: the proposed repair).  TLC checks
                       ModulesBeforeListen, AnnounceExact, CleanEnd, GenerationOrder, OneResponder, ShutdownFinal,
                       RequestsReturn, OneGenPerRestart and (fair threads) ShutdownHonoured, RestartHonoured,
                       Terminates on the repaired design (must hold) and on the pinned one (must fail where a finding
                       says so).
spec/ServerRunObs.tla  the same demands over observable events only (+ Trace_ServerRun.tla with named deviations).
Binding:
  spec -> code : Gen_ServerRun emits every behaviour of both designs under a canonical schedule (which interface
                 comes up at which (re)start, which request arrives after which observable step); the script (inputs)
                 of each behaviour is run on the REAL Server under the deterministic scheduler with the same schedule;
                 events and projected state are compared step by step with what the repaired design prescribes; an
                 execution that follows the as-implemented design instead must be explained by named deviations.
  code -> spec : a catalogue of scenarios (interfaces that fail / come late / retry / crash, requests and signals at
                 explored moments, test mode, systemd, Windows branch, bad configuration ...) under enumerated
                 (bounded preemption, also at every source line of server.py) and random schedules; every execution
                 is validated by TLC against Trace_ServerRun.
Python concretises, schedules and projects; the verdicts are TLC's.
"""
import json
import random

from .. import detsched as ds
from ..core import (VERIF, MachineryError, emit_behaviours, model_check, pool_map, run_parallel, run_tlc, sany,
                    validate_traces)

META = {
    'text': 'TLC model-checks the run loop of a node at statement granularity (run / restart / shutdown / interface '
            'threads / discovery responder, generations counted): modules are created and started before any interface '
            'listens and shut down after the last one closed, the responder and the _interfaces property name exactly '
            'the interfaces that listen, an interface that does not come up is reported and the node serves with the '
            'others, without any it stops leaving no module running, every module / thread / responder of generation g '
            'is gone before g+1 begins and the hook is called once in between, one generation per accepted restart '
            'request, a shutdown request is final and never lost, requests return without exception - on the repaired '
            'design (holds) and on the code as pinned (fails: findings).  Every behaviour of both designs under a '
            'canonical schedule is replayed on the real Server (all threads real, under a deterministic scheduler, '
            'virtual time) with events and projected state compared per step; scenario executions under enumerated '
            'and random schedules (requests and signals at explored moments) are validated by TLC against an '
            'observable-level trace specification with named deviations.',
    'note': 'Bounded: 1-3 interfaces, kinds ok / fail / late (/ retry / crash / unknown scheme / left-over option in the '
            'scenario catalogue), at most 2-3 requests per execution, 2 modules (one polled); preemption at '
            'synchronisation points, at every recorded event and - for the flag races - at every source line of '
            'server.py, bounded number of preemptions.  The bind layer of DualStackTCPServer, a scheme fake:// and the '
            'UDP socket are fakes with the blocking semantics of socketserver (shutdown() waits for the serving loop). '
            'Signals are delivered in the thread of run() at its scheduling points.  The daemon start (start(), pid '
            'file) is not exercised.  An interface that comes up after the 12 s time-out is reported, later listens '
            'and is not announced: accepted as specified behaviour.  Trusted: TLC, the deterministic scheduler, the '
            'glue in harness/srvworld.py and harness/props/x06.py.  Module lifecycle inside a generation is C15, the '
            'answers of the responder are C19.',
    'tech': 'TLA+ specs (ServerRun code-shaped with design switch, ServerRunObs observable) + TLC model checking incl. '
            'liveness; spec->code replay of TLC scenario scripts under a deterministic scheduler; code->spec TLC trace '
            'validation of enumerated / random schedules',
    'ref': 'growth module X06 (not one of the 20 listed properties)',
}

CMP_SKIP = ()          # events of the model vocabulary that are not compared


# --------------------------------------------------------------------------- running the real server

def run_case(case, strategy=None, line_level=False, canon=False):
    from ..srvworld import CanonStrategy, World
    w = World(case, strategy or ds.GuidedStrategy([]), line_level=line_level)
    if canon:
        w.s.strategy = CanonStrategy(w)
    return w.execute()


def clean_trace(trace):
    """what TLC gets: no snapshots, small"""
    return [{k: v for k, v in e.items() if k != 'th' or True} for e in trace]


# --------------------------------------------------------------------------- spec -> code

def script_of(beh):
    kinds, reqs, nobs = [], [], 0
    for st in beh:
        if st['act'] == 'M_Cfg':
            kinds.append(list(st['arg']))
        if st['act'] == 'R_Begin':
            reqs.append([st['th'], 'restart' if st['th'].startswith('res') else 'shutdown', nobs])
        nobs += len(st['evs'])
    return {'kinds': kinds, 'reqs': reqs}


def case_of(script, nif):
    rows = script['kinds'] or [['ok'] * nif]
    late = [any(r[i] == 'late' for r in rows) for i in range(nif)]
    schemes = ['fake' if late[i] else 'tcp' for i in range(nif)]
    tr = {'tcp': {'ok': 'ok', 'fail': 'denied'}, 'fake': {'ok': 'ok', 'fail': 'fail', 'late': 'late'}}
    kinds = [[tr[schemes[i]][r[i]] for i in range(nif)] for r in rows]
    threads = {rid: [{'do': kind, 'nobs': n}] for rid, kind, n in script['reqs']}
    return {'ifaces': schemes, 'kinds': kinds, 'threads': threads, 'tmax': 40}


def expectation(beh):
    """flattened events with the index of the step they belong to + projection after each step that has events"""
    evs, proj = [], []
    for k, st in enumerate(beh):
        for e in st['evs']:
            evs.append(dict(e, step=k))
        if st['evs']:
            proj.append((len(evs) - 1, st['exp'], k))
    return evs, proj


def _ev_equal(exp, obs):
    if exp['ev'] != obs['ev']:
        return False
    if 'i' in exp and exp['i'] != obs.get('i'):
        return False
    if exp['ev'] == 'req_b' and exp.get('kind') != obs.get('kind'):
        return False
    if exp['ev'] == 'req_e' and bool(exp.get('exc')) != bool(obs.get('exc')):
        return False
    return True


def compare(beh, trace, snaps):
    """-> None if the execution is the behaviour, else a description of the first difference"""
    from ..srvworld import OBS
    evs, proj = expectation(beh)
    real = [(e, s) for e, s in zip(trace, snaps) if e['ev'] in OBS and e['ev'] not in CMP_SKIP]
    for k, exp in enumerate(evs):
        if k >= len(real):
            return {'at': k, 'step': exp['step'], 'act': beh[exp['step']]['act'], 'expected': exp, 'observed': None}
        if not _ev_equal(exp, real[k][0]):
            return {'at': k, 'step': exp['step'], 'act': beh[exp['step']]['act'], 'expected': exp,
                    'observed': {x: y for x, y in real[k][0].items() if x not in ('vt',)}}
    if len(real) > len(evs):
        return {'at': len(evs), 'step': len(beh), 'act': 'end', 'expected': None,
                'observed': {x: y for x, y in real[len(evs)][0].items() if x not in ('vt',)}}
    for k, exp, step in proj:
        snap = real[k][1]
        if exp['ret'] and not snap['ret']:
            continue        # (the 'ret' event is recorded when run() has returned; the snapshot follows)
        for key in ('gen', 'lis', 'disc', 'mods'):
            a, b = exp[key], snap[key]
            if sorted(a) != sorted(b) if isinstance(a, list) else a != b:
                return {'at': k, 'step': step, 'act': beh[step]['act'], 'state': key, 'expected': exp, 'observed': snap}
    return None


def _replay(job):
    key, nif, design, behs = job
    script = json.loads(key)
    case = case_of(script, nif)
    r = run_case(case, canon=True)
    res = {'case': case, 'trace': r['trace'], 'match': False, 'thread_exc': r['thread_exc'],
           'stuck': bool(r['deadlock'] or r['livelock'])}
    for beh in behs:
        d = compare(beh, r['trace'], r['snaps'])
        if d is None:
            res['match'] = True
            break
        res.setdefault('diff', d)
    return res


# --------------------------------------------------------------------------- code -> spec: the scenario catalogue

def _after(ev, **k):
    return dict(ev=ev, **k)


R, SH = 'restart', 'shutdown'
OK2 = [['ok', 'ok']]
SCEN = {
    # requests while the node serves
    'serve_restart_shutdown': {'ifaces': ['tcp', 'tcp'], 'kinds': OK2, 'threads': {
        'rA': [{'do': R, 'after': _after('up', g=1)}], 'rB': [{'do': SH, 'after': _after('up', g=1)}]}},
    'serve_two_restarts': {'ifaces': ['tcp', 'fake'], 'kinds': OK2, 'threads': {
        'rA': [{'do': R, 'after': _after('up', g=1)}], 'rB': [{'do': R, 'after': _after('up', g=1)}],
        'rC': [{'do': SH, 'after': _after('up', g=2)}]}},
    'restart_restart_shutdown': {'ifaces': ['tcp'], 'kinds': [['ok']], 'threads': {
        'rA': [{'do': R, 'after': _after('disc_new', g=1)}, {'do': R, 'after': _after('disc_new', g=2)},
               {'do': SH, 'after': _after('disc_new', g=3)}]}},
    'shutdown_then_restart': {'ifaces': ['tcp'], 'kinds': [['ok']], 'threads': {
        'rA': [{'do': SH, 'after': _after('disc_new', g=1)}], 'rB': [{'do': R, 'after': _after('req_b', r='rA1')}]}},
    # requests while the node starts
    'startup_restart': {'ifaces': ['tcp', 'tcp'], 'kinds': OK2, 'threads': {
        'rA': [{'do': R, 'after': _after('boot', g=1)}], 'rB': [{'do': SH, 'vt': 20}]}},
    'startup_shutdown': {'ifaces': ['tcp', 'tcp'], 'kinds': OK2, 'threads': {
        'rA': [{'do': SH, 'after': _after('boot', g=1)}]}},
    'startup2_shutdown': {'ifaces': ['tcp', 'tcp'], 'kinds': OK2, 'threads': {
        'rA': [{'do': R, 'after': _after('disc_new', g=1)}], 'rB': [{'do': SH, 'after': _after('boot', g=2)}]}},
    'startup2_restart': {'ifaces': ['tcp'], 'kinds': [['ok']], 'threads': {
        'rA': [{'do': R, 'after': _after('disc_new', g=1)}], 'rB': [{'do': R, 'after': _after('boot', g=2)}],
        'rC': [{'do': SH, 'vt': 25}]}},
    'before_run_shutdown': {'ifaces': ['tcp'], 'kinds': [['ok']], 'threads': {'rA': [{'do': SH}]}},
    'before_run_restart': {'ifaces': ['tcp'], 'kinds': [['ok']], 'threads': {
        'rA': [{'do': R}], 'rB': [{'do': SH, 'vt': 20}]}},
    'between_ifaces_restart': {'ifaces': ['tcp', 'tcp', 'fake'], 'kinds': [['ok', 'ok', 'ok']], 'threads': {
        'rA': [{'do': R, 'after': _after('bind', g=1, i=1)}], 'rB': [{'do': SH, 'vt': 20}]}},
    'winddown_restart': {'ifaces': ['tcp'], 'kinds': [['ok']], 'threads': {
        'rA': [{'do': SH, 'after': _after('disc_new', g=1)}], 'rB': [{'do': R, 'after': _after('stopped', g=1)}]}},
    # interfaces that do not come up
    'noiface': {'ifaces': ['tcp', 'fake'], 'kinds': [['denied', 'fail']], 'threads': {}},
    'noiface_second': {'ifaces': ['tcp', 'fake'], 'kinds': [['ok', 'ok'], ['inuse5', 'fail']], 'threads': {
        'rA': [{'do': R, 'after': _after('disc_new', g=1)}]}},
    'partial': {'ifaces': ['tcp', 'tcp'], 'kinds': [['ok', 'denied'], ['denied', 'ok']], 'threads': {
        'rA': [{'do': R, 'after': _after('disc_new', g=1)}, {'do': SH, 'after': _after('disc_new', g=2)}]}},
    'retry': {'ifaces': ['tcp', 'tcp'], 'kinds': [['inuse3', 'ok'], ['inuse5', 'inuse1']], 'threads': {
        'rA': [{'do': R, 'after': _after('disc_new', g=1)}, {'do': SH, 'after': _after('disc_new', g=2)}]}},
    'retry_exhausted': {'ifaces': ['tcp', 'tcp'], 'kinds': [['inuse9', 'ok']], 'threads': {
        'rA': [{'do': SH, 'vt': 20}]}},
    'late': {'ifaces': ['tcp', 'fake'], 'kinds': [['ok', 'late']], 'threads': {'rA': [{'do': SH, 'vt': 20}]}},
    'late_shutdown': {'ifaces': ['tcp', 'fake'], 'kinds': [['ok', 'late']], 'threads': {'rA': [{'do': SH, 'vt': 13}]}},
    'slow': {'ifaces': ['fake', 'tcp'], 'kinds': [['slow', 'ok']], 'threads': {
        'rA': [{'do': R, 'vt': 3}], 'rB': [{'do': SH, 'vt': 20}]}},
    'unknown_scheme': {'ifaces': ['tcp', 'unk'], 'kinds': [['ok', '-']], 'threads': {'rA': [{'do': SH, 'vt': 20}]}},
    'unknown_only': {'ifaces': ['unk'], 'kinds': [['-']], 'threads': {}},
    'leftover_option': {'ifaces': ['fake', 'tcp'], 'kinds': [['opts', 'ok']], 'threads': {
        'rA': [{'do': SH, 'after': _after('disc_new', g=1)}]}},
    'three': {'ifaces': ['tcp', 'fake', 'tcp'], 'kinds': [['ok', 'ok', 'denied'], ['ok', 'fail', 'ok']], 'threads': {
        'rA': [{'do': R, 'after': _after('disc_new', g=1)}, {'do': SH, 'after': _after('disc_new', g=2)}]}},
    # a serving loop that fails
    'crash_one': {'ifaces': ['tcp', 'tcp'], 'kinds': OK2, 'threads': {
        'rA': [{'do': 'crash', 'i': 1, 'after': _after('disc_new', g=1)}, {'do': SH, 'after': _after('if_end', g=1, i=1)}]}},
    'crash_all': {'ifaces': ['tcp'], 'kinds': [['ok']], 'threads': {
        'rA': [{'do': 'crash', 'i': 1, 'after': _after('disc_new', g=1)}]}},
    'crash_restart': {'ifaces': ['tcp'], 'kinds': [['ok']], 'threads': {
        'rA': [{'do': 'crash', 'i': 1, 'after': _after('disc_new', g=1)}],
        'rB': [{'do': R, 'after': _after('crash', i=1)}], 'rC': [{'do': SH, 'vt': 20}]}},
    # signals
    'sigterm_serving': {'ifaces': ['tcp', 'tcp'], 'kinds': OK2, 'threads': {
        'sg': [{'do': 'sigterm', 'after': _after('disc_new', g=1)}]}},
    'sigint_serving': {'ifaces': ['tcp'], 'kinds': [['ok']], 'threads': {
        'sg': [{'do': 'sigint', 'after': _after('up', g=1)}]}},
    'sigterm_startup': {'ifaces': ['tcp', 'tcp'], 'kinds': OK2, 'threads': {
        'sg': [{'do': 'sigterm', 'after': _after('boot', g=1)}]}},
    'sigterm_restart': {'ifaces': ['tcp'], 'kinds': [['ok']], 'threads': {
        'rA': [{'do': R, 'after': _after('disc_new', g=1)}], 'sg': [{'do': 'sigterm', 'after': _after('req_b', r='rA1')}]}},
    # modes of the constructor / of run()
    'testonly': {'ifaces': ['tcp'], 'kinds': [['ok']], 'mode': 'testonly', 'threads': {}},
    'windows': {'ifaces': ['tcp', 'tcp'], 'kinds': OK2, 'mode': 'nt', 'threads': {
        'rA': [{'do': R, 'after': _after('disc_new', g=1)}, {'do': SH, 'after': _after('disc_new', g=2)}]}},
    'systemd': {'ifaces': ['tcp'], 'kinds': [['ok']], 'mode': 'systemd', 'threads': {
        'rA': [{'do': R, 'after': _after('disc_new', g=1)}, {'do': SH, 'after': _after('disc_new', g=2)}]}},
    'systemd_broken': {'ifaces': ['tcp'], 'kinds': [['ok']], 'mode': 'systemd_broken', 'threads': {
        'rA': [{'do': SH, 'after': _after('disc_new', g=1)}]}},
    'start_raises': {'ifaces': ['tcp'], 'kinds': [['ok']], 'mode': 'startexc', 'threads': {}},
    'badcfg_first': {'ifaces': ['tcp'], 'kinds': [['ok']], 'mode': 'badcfg1', 'threads': {}},
    'badcfg_second': {'ifaces': ['tcp'], 'kinds': [['ok']], 'mode': 'badcfg2', 'threads': {
        'rA': [{'do': R, 'after': _after('disc_new', g=1)}]}},
    'args': {'ifaces': ['tcp', 'fake'], 'kinds': OK2, 'mode': 'args', 'threads': {
        'rA': [{'do': SH, 'after': _after('disc_new', g=1)}]}},
    'bare_port': {'ifaces': ['tcp'], 'kinds': [['ok']], 'bare': True, 'threads': {
        'rA': [{'do': SH, 'after': _after('disc_new', g=1)}]}},
    'no_interface_configured': {'ifaces': ['tcp'], 'kinds': [['ok']], 'mode': 'noif', 'threads': {}},
}
# scenarios whose races need preemption inside restart() / shutdown() / run(): every source line of server.py
LINE_LEVEL = ('serve_restart_shutdown', 'shutdown_then_restart', 'winddown_restart', 'startup_restart',
              'startup_shutdown', 'crash_restart', 'serve_two_restarts')


class _Run:
    def __init__(self, r):
        self.choices = r['raw_choices']
        self.res = r


def _explore(args):
    name, mode, seed, nruns = args
    case = SCEN[name]
    out = []
    if mode == 'dfs':
        for st in ds.explore(lambda strat: _Run(run_case(case, strat)), max_preemptions=1, max_runs=nruns, max_depth=3000):
            out.append((st.res['choices'], st.res['trace'], st.res['thread_exc'], False))
    elif mode == 'line':
        for k in range(nruns):
            r = run_case(case, ds.RandomStrategy(seed * 7919 + k, stay=0.9 + 0.03 * (k % 3)), line_level=True)
            out.append((r['choices'], r['trace'], r['thread_exc'], True))
    else:
        for k in range(nruns):
            r = run_case(case, ds.RandomStrategy(seed * 104729 + k, stay=0.75 + 0.08 * (k % 3)))
            out.append((r['choices'], r['trace'], r['thread_exc'], False))
    return name, out


def _corpus(item):
    r = run_case(SCEN[item['scenario']], ds.GuidedStrategy(item['choices']), line_level=bool(item.get('line')))
    return r['choices'], r['trace'], r['thread_exc']


ALLOWED_THREAD_EXC = {'KeyError'}      # an interface thread dies on an unknown scheme (Server.INTERFACES[scheme])


DEV_NAMES = ['Dev_ModulesLeftRunning', 'Dev_ServesAfterStop', 'Dev_StaleAnnounce', 'Dev_ShutdownLost', 'Dev_RestartLost',
             'Dev_RequestRaises_AttributeError', 'Dev_RequestRaises_RuntimeError', 'Dev_Revived', 'Dev_ResponderLeak',
             'Dev_NoHook', 'Dev_InterruptedStartup', 'Dev_SignalHandlerBlocks', 'Dev_RequestRaises_other']       # = DevNames of Trace_ServerRun.tla


def _devs(extra):
    """per trace the smallest set of deviations with which TLC could accept it (bit mask over DEV_NAMES)"""
    devs = {}
    for i, mask in extra['DEVS']:
        d = {n for k, n in enumerate(DEV_NAMES) if mask >> k & 1}
        devs[i] = d if i not in devs else min(devs[i], d, key=lambda x: (len(x), sorted(x)))
    return devs


def _selftest_traces():
    """a recorded execution (deterministic schedule) and copies of it with one corrupted event each"""
    clean = run_case(SCEN['restart_restart_shutdown'])['trace']
    muts = []

    def drop(tr, pred):
        k = next(i for i, e in enumerate(tr) if pred(e))
        del tr[k]

    def swap_gen(tr):
        e = next(e for e in tr if e['ev'] == 'mdown')
        e['g'] += 1
    muts.append(lambda tr: drop(tr, lambda e: e['ev'] == 'mdown'))
    muts.append(lambda tr: drop(tr, lambda e: e['ev'] == 'ready'))
    muts.append(swap_gen)
    muts.append(lambda tr: drop(tr, lambda e: e['ev'] == 'if_end'))
    bad = []
    for m in muts:
        t = json.loads(json.dumps(clean))
        try:
            m(t)
        except StopIteration:       # (the event to corrupt is not there: the code under test is broken anyway)
            continue
        bad.append(t)
    return [clean] + bad


# --------------------------------------------------------------------------- the check

MUST_FAIL = [      # (cfg, what the as-implemented design has to violate)
    ('MC_ServerRun_asimpl_cleanend.cfg', 'CleanEnd'),
    ('MC_ServerRun_asimpl_final.cfg', 'ShutdownFinal'),
    ('MC_ServerRun_asimpl_raises.cfg', 'RequestsReturn'),
    ('MC_ServerRun_asimpl_announce.cfg', 'AnnounceExact'),
    ('MC_ServerRun_asimpl_lostshutdown.cfg', 'ShutdownHonoured'),
    ('MC_ServerRun_asimpl_lostrestart.cfg', 'RestartHonoured'),
    ('MC_ServerRun_asimpl_order.cfg', 'GenerationOrder'),
    ('MC_ServerRun_asimpl_responder.cfg', 'OneResponder'),
]
MUST_FAIL_THOROUGH = []


JVM = {'JAVA_TOOL_OPTIONS': '-XX:ParallelGCThreads=2'}       # many JVMs side by side


def _validate(traces):
    """Trace_ServerRun on all executions, in parallel batches -> (verdicts, devs, states, transitions)"""
    n = len(traces)
    parts = max(1, min(12, n // 120))
    size = (n + parts - 1) // parts
    bounds = [(k, min(n, k + size)) for k in range(0, n, size)]
    outs = run_parallel([lambda lo=lo, hi=hi: validate_traces('Trace_ServerRun', traces[lo:hi], 'Trace_ServerRun.cfg',
                                                              timeout=1500, collect=('DEVS',), chunk=4000,
                                                              extra_env=JVM)
                         for lo, hi in bounds], width=12)
    verdicts, devs, st, trn = {}, {}, 0, 0
    for (lo, hi), (v, s_, t_, extra) in zip(bounds, outs):
        st += s_
        trn += t_
        for i, x in v.items():
            verdicts[lo + i] = x
        for i, d in _devs(extra).items():
            devs[lo + i] = d
    return verdicts, devs, st, trn


def run(chk):
    import multiprocessing as mp
    import os
    import time as _t
    from concurrent.futures import ThreadPoolExecutor
    quick = chk.tier == 'quick'
    tier = 'quick' if quick else 'thorough'
    t0 = _t.time()
    stage = {}
    chk.rule = ('spec -> code: every behaviour of Gen_ServerRun (both designs, canonical schedule: what happens to each '
                'interface at each (re)start x which request arrives after which observable step) is a script run on '
                'the real Server; events and projected state compared per step.  code -> spec: the scenario catalogue '
                'under enumerated (1 preemption) / random / line-level random schedules, each execution validated by '
                'Trace_ServerRun.  A case is distinct by (design, script) resp. (scenario, choice sequence); '
                'non-trivial = a request, a signal or a failing interface is involved')
    procs = int(os.environ.get('VERIF_PROCS', min(os.cpu_count() or 4, 16)))
    pool = mp.get_context('fork').Pool(procs) if procs > 1 else None        # forked before any thread exists
    try:
        run_parallel([lambda m=m: sany(m) for m in ('Gen_ServerRun', 'Trace_ServerRun')], width=2)
        # ---- 1 TLC (in the background): design checks (repaired holds, pinned fails), behaviour emission
        thunks = [lambda: model_check('ServerRun', f'MC_ServerRun_{tier}.cfg', timeout=1500, workers=3 if quick else 8,
                                      env=JVM, heap='2g' if quick else '6g'),
                  lambda: model_check('ServerRun', f'MC_ServerRun_{tier}_live.cfg', timeout=1500, workers=2 if quick else 4,
                                      env=JVM, heap='2g')]
        if not quick:
            thunks.append(lambda: model_check('ServerRun', 'MC_ServerRun_thorough_crash.cfg', timeout=1500, workers=4,
                                              env=JVM, heap='3g'))
        nmc = len(thunks)
        must = MUST_FAIL + ([] if quick else MUST_FAIL_THOROUGH)
        for cfg, _ in must:
            thunks.append(lambda cfg=cfg: run_tlc('ServerRun', cfg, timeout=1500, workers=1, env=JVM, heap='1g'))
        # design -> the emissions whose scripts it has to reproduce (asimpl_noif: pinned + only the first repair)
        if quick:
            gens = [(('fixed',), 'Gen_ServerRun_quick_fixed.cfg'), (('asimpl', 'asimpl_noif'), 'Gen_ServerRun_quick_asimpl.cfg'),
                    (('asimpl',), 'Gen_ServerRun_quick_asimpl_fail.cfg'), (('asimpl_noif',), 'Gen_ServerRun_quick_asimpl_noif.cfg')]
        else:
            gens = [(('fixed',), 'Gen_ServerRun_thorough_fixed.cfg'), (('asimpl',), 'Gen_ServerRun_thorough_asimpl.cfg'),
                    (('asimpl_noif',), 'Gen_ServerRun_thorough_asimpl_noif.cfg')]
        for _, cfg in gens:
            thunks.append(lambda cfg=cfg: emit_behaviours('Gen_ServerRun', cfg, maximal_only=False, timeout=1500,
                                                          env=JVM, heap='2g'))
        ex = ThreadPoolExecutor(max_workers=len(thunks))
        futs = [ex.submit(th) for th in thunks]

        # ---- 2 code -> spec (meanwhile): scenario catalogue under explored schedules
        ejobs = []
        for name in sorted(SCEN):
            ejobs.append((name, 'dfs', chk.seed, 15 if quick else 400))
            ejobs.append((name, 'rnd', chk.seed + 1, 5 if quick else 150))
            if name in LINE_LEVEL:
                ejobs.append((name, 'line', chk.seed + 2, 12 if quick else 500))
        corpus_file = VERIF / 'corpus' / 'X06.json'
        corpus = json.loads(corpus_file.read_text()) if corpus_file.exists() else []
        if pool is not None:
            explored = pool.map(_explore, ejobs, 1)
            cres = pool.map(_corpus, corpus, 1) if corpus else []
        else:
            explored = [_explore(j) for j in ejobs]
            cres = [_corpus(c) for c in corpus]
        traces, origin, seen = [], [], set()
        for name, outs in explored:
            for choices, tr, exc, line in outs:
                key = (name, line, tuple(choices))
                if key in seen:
                    continue
                seen.add(key)
                traces.append(tr)
                origin.append({'world': 'scenario', 'scenario': name, 'choices': choices, 'line': line, 'thread_exc': exc})
        for item, (choices, tr, exc) in zip(corpus, cres):
            traces.append(tr)
            origin.append({'world': 'scenario', 'scenario': item['scenario'], 'choices': choices,
                           'line': bool(item.get('line')), 'thread_exc': exc, 'corpus': item.get('shows', '')})
        stage['explore'] = round(_t.time() - t0, 1)

        out = [f.result() for f in futs]
        ex.shutdown()
        for r in out[:nmc]:
            chk.add_tlc(r)
        for (cfg, prop), r in zip(must, out[nmc:nmc + len(must)]):
            if not ((r.violated and r.violated[1] == prop) or f'Temporal property {prop} was violated' in r.out):
                raise MachineryError(f'{cfg}: the as-implemented design is expected to violate {prop}: '
                                     f'{r.violated or r.error}')
            chk.add_tlc(r)
        stage['tlc'] = round(_t.time() - t0, 1)

        # ---- 3 spec -> code: the scripts of the designs on the real server
        nif = 2
        jobs = []
        for (designs, cfg), (r, bs) in zip(gens, out[-len(gens):]):
            chk.add_tlc(r)
            uniq = {}
            for b in bs:
                uniq.setdefault(json.dumps(script_of(b), sort_keys=True), []).append(b)
            keys = sorted(uniq)
            step = (8 if designs == ('fixed',) else 5 if len(keys) > 400 else 2) if quick else 1
            chk.notes['scripts_' + cfg[14:-4]] = f'{len(keys)} (1 of {step} replayed)'
            for k in keys[chk.seed % step::step]:
                jobs.append((k, nif, designs, uniq[k]))
        res = pool.map(_replay, jobs, max(1, len(jobs) // (procs * 4))) if pool is not None else [_replay(j) for j in jobs]
        count = {'fixed': [0, 0], 'asimpl': [0, 0], 'asimpl_noif': [0, 0]}
        for (k, _, designs, _), r in zip(jobs, res):
            for design in designs:
                count[design][0 if r['match'] else 1] += 1
            traces.append(r['trace'])
            origin.append({'world': 'script', 'design': list(designs), 'script': json.loads(k), 'case': r['case'],
                           'match': r['match'], 'diff': r.get('diff'), 'thread_exc': r['thread_exc'], 'stuck': r['stuck']})
        chk.notes['replay_match_mismatch'] = count
        if jobs:
            chk.sample({'script': json.loads(jobs[len(jobs) // 2][0])})
        stage['replay'] = round(_t.time() - t0, 1)
    finally:
        if pool is not None:
            pool.close()
            pool.join()

    # ---- 4 TLC judges every execution (+ binding self-test: corrupted recordings must be rejected)
    selft = _selftest_traces()
    verdicts, devs, st, trn = _validate(traces + selft)
    chk.states += st
    chk.transitions += trn
    n = len(traces)
    if any(verdicts[n + k] is None and not devs.get(n + k) for k in range(1, len(selft))):
        raise MachineryError('Trace_ServerRun self-test failed: a corrupted recording is accepted: %r'
                             % ([verdicts[n + k] for k in range(len(selft))],))
    chk.notes['binding_selftest'] = len(selft) - 1
    dcount = {}
    for i in range(len(traces)):
        v = verdicts[i]
        o = origin[i]
        chk.impl_traces += 1
        nontrivial = any(e['ev'] in ('req_b', 'bindfail', 'sig_b', 'crash') for e in traces[i])
        if o['world'] == 'script':
            chk.case(('script', o['design'][0], json.dumps(o['script'], sort_keys=True)), nontrivial)
        else:
            chk.case(('scenario', o['scenario'], o['line'], tuple(o['choices'])), nontrivial)
        bad_exc = {k: x for k, x in o['thread_exc'].items() if x not in ALLOWED_THREAD_EXC}
        detail = dict(o, trace=traces[i])
        if bad_exc:
            chk.violation({'module': 'ServerRun', 'kind': 'thread died', 'exc': sorted(bad_exc.values())[0]}, detail)
        if v is not None:
            l = v[0]
            ev = traces[i][l - 1] if 0 < l <= len(traces[i]) else {}
            chk.violation({'module': 'ServerRun', 'clause': v[1], 'event': ev.get('ev')}, dict(detail, failed_at=l, event=ev))
            continue
        d = devs.get(i, set())
        for dev in sorted(d):
            dcount[dev] = dcount.get(dev, 0) + 1
            chk.violation({'module': 'ServerRun', 'deviation': dev}, detail)
    # spec -> code verdict: the code is bound to the code-shaped model - every script of one of the two designs has to
    # be reproduced event by event and state by state (pinned tree: the as-implemented design; repaired tree: the
    # repaired design); what an as-implemented execution means is decided by the deviations above
    mism = {dsg: [i for i in range(len(traces)) if origin[i]['world'] == 'script'
                  and dsg in origin[i]['design'] and not origin[i]['match']] for dsg in ('fixed', 'asimpl', 'asimpl_noif')}
    follows = [dsg for dsg in ('asimpl', 'asimpl_noif', 'fixed') if not mism[dsg]]
    if not follows:
        ref = min(mism, key=lambda dsg: len(mism[dsg]) / max(1, sum(count[dsg])))
        for i in mism[ref][:40]:
            o = origin[i]
            chk.violation({'module': 'ServerRun', 'replay': 'differs from every design',
                           'act': (o['diff'] or {}).get('act'), 'what': (o['diff'] or {}).get('state', 'event')},
                          dict(o, reference_design=ref, trace=traces[i]))
    chk.notes['code_follows_design'] = follows[0] if follows else 'none'
    if os.environ.get('X06_HARVEST'):         # (maintenance) the shortest explored schedule showing each deviation
        best = {}
        for i in range(len(traces)):
            o = origin[i]
            if o['world'] == 'scenario' and verdicts[i] is None:
                for dev in devs.get(i, ()):
                    if dev not in best or len(o['choices']) < len(best[dev]['choices']):
                        best[dev] = {'scenario': o['scenario'], 'choices': o['choices'], 'line': o['line'], 'shows': dev}
        with open(os.environ['X06_HARVEST'], 'w') as f:
            json.dump([best[k] for k in sorted(best)], f)
    chk.notes['deviations_needed'] = dcount
    chk.notes['explored_schedules'] = len(seen)
    chk.notes['corpus_schedules'] = len(corpus)
    stage['validate'] = round(_t.time() - t0, 1)

    chk.notes['wall_until_end_of_stage'] = stage
    chk.exhaustive = False


def replay(chk, rep):
    d = rep['detail']
    if d.get('world') == 'script':
        r = run_case(d['case'], canon=True)
    else:
        r = run_case(SCEN[d['scenario']], ds.GuidedStrategy(d['choices']), line_level=bool(d.get('line')))
    for j, e in enumerate(r['trace'], 1):
        print(j, json.dumps(e))
    print('thread exceptions', r['thread_exc'], 'failed_at', d.get('failed_at'), 'diff', d.get('diff'))
    return 0
