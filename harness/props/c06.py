"""C06 - The node's self-description is true of its behaviour.

spec/Describe.tla (on top of spec/Dispatch.tla).  Binding:
  design       : TLC proves that a node behaving like Dispatch honours Described(shape) (DescriptionTrue).
  spec -> code : Gen_Describe prints, for every shape of the family, the description the node has to give
                 and the probes (payload catalogues, wrong request kinds, attribute names, unknown /
                 unexported modules, constant reads, subscriptions); the real node is built, its describe
                 reply is projected (alpha) and compared with the demanded description, the probes are run.
  code -> spec : random generated nodes (random datainfo, flags, limit parameters, base classes, an
                 unexported module) and shipped configurations built by the real Server._processCfg
                 (threads disabled) are probed from what THEIR description says; every recorded trace
                 starts with the projected describe reply, which is the constant against which TLC
                 (Trace_Describe) judges every later request / reply / update.
"""
import json
import math
import random

from ..core import MachineryError, model_check, pool_map, run_tlc, sany
from .. import dispatch_common as dc
from ..env import Conn, LoggerStub

META = {
    'text': 'TLC proves that the routing design of Dispatch.tla honours the description derived from its shape '
            '(Describe.tla: undescribed names unreachable for read/change/do/activate, readonly/constant flags predict '
            'refusal, constants read as described, described datainfo accepts/rejects like the node, emitted values '
            'importable). For every shape TLC enumerates, the real node is built and its describe reply must equal the '
            'demanded description (exactly the exported names under their wire names, flags, datainfo, constants, '
            'interface class), be strict JSON and stable; probes printed by TLC, random probes on random nodes and '
            'datainfo-derived probes on shipped configurations (real Server._processCfg) are recorded and judged by TLC '
            '(Trace_Describe) against the description the node itself gave; datatypes are rebuilt with '
            'frappy.datatypes.get_datatype for the importability / agreement clauses.',
    'note': 'Trusted: TLC; alpha (describe reply -> abstract description, numbers as ticks or order ranks) and the '
            'probe generator in harness/props/c06.py + harness/dispatch_common.py. Datainfo kinds scaled/blob/matrix are '
            'treated as opaque; units are compared only through DescriptionFaithful on generated nodes; shipped '
            'configurations run without poll/simulation threads and their drivers may refuse valid values (loose).',
    'tech': 'TLA+ spec (Describe.tla over Dispatch.tla) + TLC model checking; spec->code: TLC-enumerated shapes, '
            'descriptions and probes executed on real nodes; code->spec: TLC trace validation with the describe reply '
            'as the trace constant',
    'ref': 'DESIGN.md section 5 C06',
}

NULL = dc.NULL
INHERITED = {      # accessibles the SECoP base classes bring along (generator knowledge)
    'Module': [], 'Readable': ['value', 'status', 'pollinterval'],
    'Writable': ['value', 'status', 'pollinterval', 'target'],
    'Drivable': ['value', 'status', 'pollinterval', 'target', 'stop'],
}
SHIPPED_QUICK = ['demo', 'cryo', 'startup:out-first', 'startup:loop-first']
SHIPPED_THOROUGH = ['demo', 'cryo', 'sim', 'test', 'sim_mlz_cci3he1', 'sim_mlz_htf02', 'ls370sim',
                    'startup:out-first', 'startup:loop-first']
# (sim_mlz_entangle_simulation blocks in a driver when its simulation threads do not run)


# ------------------------------------------------------------------ alpha: numbers, datainfo, JSON values

class Ident:
    """numbers are ticks (generated nodes use small integers)"""

    def num(self, x):
        if dc.abs_special(x):
            return dc.abs_special(x)
        if isinstance(x, (int, float)) and not isinstance(x, bool) and abs(x) >= 10 ** 6:
            return {'k': 'num', 'n': 10 ** 6 if x > 0 else -10 ** 6}
        return dc.abs_number(x)

    def bound(self, x, default):
        r = self.num(default if x is None else x)
        if r['k'] != 'num':
            raise Opaque      # a bound that is no whole tick: the datainfo is treated as opaque
        return r['n']


class Opaque(Exception):
    pass


class Rank:
    """numbers are order ranks among all numbers of the trace (shipped configurations)"""

    def __init__(self, numbers):
        self.rank = {x: i for i, x in enumerate(sorted(set(float(n) for n in numbers if n == n and abs(n) != float('inf'))))}

    def num(self, x):
        if dc.abs_special(x):
            return dc.abs_special(x)
        if isinstance(x, bool) or not isinstance(x, (int, float)):
            return dc.odd(x)
        return {'k': 'num', 'n': self.rank[float(x)]}

    def bound(self, x, default):
        return self.rank[float(default if x is None else x)]


FMAX = 1.7976931348623157e308


def numbers_in(j, acc):
    if isinstance(j, bool) or j is None or isinstance(j, str):
        return
    if isinstance(j, (int, float)):
        acc.append(j)
    elif isinstance(j, list):
        for x in j:
            numbers_in(x, acc)
    elif isinstance(j, dict):
        for x in j.values():
            numbers_in(x, acc)


def absdt(info, c):
    """described datainfo (JSON) -> abstract datainfo of Dispatch.tla"""
    if info is None:
        return {'t': 'none'}
    try:
        return _absdt(info, c)
    except Opaque:
        return {'t': 'other'}


def _absdt(info, c):
    t = info.get('type')
    if t == 'double':
        return {'t': 'double', 'lo': c.bound(info.get('min'), -FMAX), 'hi': c.bound(info.get('max'), FMAX)}
    if t == 'int':
        return {'t': 'int', 'lo': c.bound(info.get('min'), -(1 << 24)), 'hi': c.bound(info.get('max'), 1 << 24)}
    if t == 'enum':
        return {'t': 'enum', 'mem': [{'name': n, 'val': c.bound(v, None)} for n, v in sorted(info['members'].items())]}
    if t == 'string':
        return {'t': 'string', 'minc': info.get('minchars', 0), 'maxc': min(info.get('maxchars', 10 ** 6), 10 ** 6),
                'utf8': bool(info.get('isUTF8', False))}
    if t == 'bool':
        return {'t': 'bool'}
    if t == 'scaled':           # abstract values of a scaled integer are the transported integers
        return {'t': 'scaled', 'lo': c.bound(info.get('min'), -(1 << 24)), 'hi': c.bound(info.get('max'), 1 << 24)}
    if t == 'blob':
        return {'t': 'blob', 'minb': info.get('minbytes', 0), 'maxb': info['maxbytes']}
    if t == 'array':
        return {'t': 'array', 'el': _absdt(info['members'], c), 'minlen': info.get('minlen', 0), 'maxlen': info['maxlen']}
    if t == 'tuple':
        return {'t': 'tuple', 'els': [_absdt(m, c) for m in info['members']]}
    if t == 'struct':
        names = sorted(info['members'])
        return {'t': 'struct', 'mem': [{'name': n, 'dt': _absdt(info['members'][n], c)} for n in names],
                'opt': sorted(info.get('optional', names))}
    return {'t': 'other'}


def abs_json(j, c):
    """transported JSON value -> abstract payload (no datainfo involved)"""
    if j is None:
        return NULL
    if isinstance(j, bool):
        return {'k': 'bool', 'b': j}
    if isinstance(j, (int, float)):
        return c.num(j)
    if isinstance(j, str):
        return dc.abs_str(j)
    if isinstance(j, list):
        return {'k': 'list', 'xs': [abs_json(x, c) for x in j]}
    if isinstance(j, dict):
        return {'k': 'obj', 'kv': [{'key': k, 'val': abs_json(j[k], c)} for k in sorted(j)]}
    return dc.odd(j)


def strict_json(obj):
    try:
        return json.loads(json.dumps(obj, allow_nan=False)) is not None
    except (ValueError, TypeError):
        return False


def project_description(desc, c):
    """describe reply -> desc[m][w] of Describe.tla, interface classes, features"""
    out, iface, feat, units = {}, {}, {}, {}
    for m, md in desc['modules'].items():
        accs = {}
        units[m] = {w: str(ad['datainfo'].get('unit', '')) for w, ad in md['accessibles'].items()}
        for w, ad in md['accessibles'].items():
            info = ad['datainfo']
            if info.get('type') == 'command':
                accs[w] = {'kind': 'cmd', 'arg': absdt(info.get('argument'), c)}
            else:
                accs[w] = {'kind': 'param', 'dt': absdt(info, c), 'ro': bool(ad.get('readonly')),
                           'const': abs_json(ad['constant'], c) if ad.get('constant') is not None else NULL}
        out[m] = accs
        iface[m] = list(md.get('interface_classes', []))
        feat[m] = list(md.get('features', []))
    return out, iface, feat, units


def digest(x):
    import hashlib
    return hashlib.md5(json.dumps(x, sort_keys=True, default=repr).encode()).hexdigest()[:8]


def props_of(kind, get):
    """the descriptive properties C06 compares, from a getter (described JSON or the generator's / object's data)"""
    res = {'description': digest(get('description', '')), 'group': str(get('group', '') or ''),
           'visibility': int(get('visibility', 1) or 1)}
    if kind == 'module':
        mn = get('meaning', None)
        res['meaning'] = '' if not mn or tuple(mn) == ('', 0) else f'{mn[0]}:{mn[1]}'
    return res


def project_props(desc):
    """describe reply -> {module: {'mod': props, 'acc': {wire: props}}} and the node level record"""
    props = {}
    for m, md in desc['modules'].items():
        props[m] = {'mod': props_of('module', md.get),
                    'acc': {w: props_of('acc', ad.get) for w, ad in md['accessibles'].items()}}
    node = {'keys': sorted(desc), 'equipment_id': digest(desc.get('equipment_id')),
            'description': digest(desc.get('description')),
            'custom': {k: digest(v) for k, v in desc.items() if k.startswith('_')} or {'-': '-'}}
    return props, node


# ------------------------------------------------------------------ probing a node

class Prober:
    """runs requests against a dispatcher and records raw (concrete) events; datatypes are rebuilt from
    the description with frappy.datatypes.get_datatype like a client would"""

    def __init__(self, dispatcher):
        from frappy.datatypes import get_datatype
        self.d = dispatcher
        self.conn = Conn('probe', dispatcher)
        d1 = dc.handle(dispatcher, self.conn, ('describe', '.', None))
        d2 = dc.handle(dispatcher, self.conn, ('describe', '.', None))
        # whatever comes back (an error reply, a list, nonsense): the check ends with a verdict, not with a crash
        self.ok = d1[0] == 'describing' and isinstance(d1[2], dict) and isinstance(d1[2].get('modules'), dict) \
            and all(isinstance(md, dict) and isinstance(md.get('accessibles'), dict) and
                    all(isinstance(ad, dict) and isinstance(ad.get('datainfo'), dict) for ad in md['accessibles'].values())
                    for md in d1[2]['modules'].values())
        self.describe_error = None if self.ok else str(d1)[:300]
        self.desc = d1[2] if self.ok else {'modules': {}}
        self.strict = self.ok and strict_json(d1[2])
        self.stable = self.strict and d2[0] == 'describing' and isinstance(d2[2], dict) \
            and json.dumps(d1[2], sort_keys=True) == json.dumps(d2[2], sort_keys=True) \
            and list(d1[2].get('modules', {})) == list(d2[2].get('modules', {}))
        self.desc = json.loads(json.dumps(self.desc, default=repr))      # what a client sees
        self.dts = {}
        for m, md in self.desc['modules'].items():
            for w, ad in md['accessibles'].items():
                try:
                    self.dts[m, w] = get_datatype(ad['datainfo'])
                except Exception as e:
                    self.dts[m, w] = e
        self.seen = {}          # (mod, wire) -> last value seen on the wire
        self.events = []
        self.expnode = None     # set by the caller: what the node level of the report has to contain

    def _rebuilt_ok(self, key, act, payload):
        dt = self.dts.get(key)
        if dt is None or isinstance(dt, Exception):
            return True
        try:
            if act == 'do':
                arg = dt.argument
                if arg is None:
                    return payload is None
                arg.validate(arg.import_value(payload))
            else:
                prev = None
                if key in self.seen:
                    prev = dt.import_value(self.seen[key])
                dt.validate(dt.import_value(payload), previous=prev)
            return True
        except Exception:
            return False

    def _importable(self, key, value):
        dt = self.dts.get(key)
        if dt is None or isinstance(dt, Exception) or dt.IS_COMMAND:
            return True
        try:
            dt.import_value(value)
            return True
        except Exception:
            return False

    def request(self, act, mod, name, payload, strict=False):
        key = (mod, name or dc.wire_of({'act': act, 'name': name}))     # "change m" addresses m:target
        del self.conn.msgs[:]
        spec = f'{mod}:{name}' if name else mod
        ev = {'req': {'act': act, 'mod': mod, 'name': name, 'payload': payload},
              'prev': self.seen.get(key), 'strict': strict, 'same': True,
              'real_ok': self._rebuilt_ok(key, act, payload) if act in ('change', 'do') else True}
        rep = dc.handle(self.d, self.conn, (act, spec, payload))
        ev['cls'] = rep[2][0] if rep[0].startswith('error_') else 'ok'
        if act == 'describe' and ev['cls'] == 'ok':
            part = self.desc['modules'].get(mod, {})
            part = part.get('accessibles', {}).get(name) if name else part
            if not mod:
                part = self.desc          # the whole report: stable after any history
            ev['same'] = json.dumps(rep[2], sort_keys=True, default=repr) == json.dumps(part, sort_keys=True)
        ev['text'] = str(rep[2][1])[:100] if rep[0].startswith('error_') else ''
        ev['value'] = None
        ev['imp'] = True
        if ev['cls'] == 'ok' and act in ('read', 'change'):
            val = rep[2][0] if isinstance(rep[2], list) and rep[2] else rep[2]
            ev['value'] = val
            ev['imp'] = self._importable(key, val)
            ev['strictjson'] = strict_json(rep[2])
            self.seen[key] = val
        self._collect_updates(ev)
        self.events.append(ev)
        return ev

    def _collect_updates(self, ev):
        upd = []
        for msg in self.conn.msgs:
            um, _, un = msg[1].partition(':')
            if msg[0] == 'error_update':      # an error instead of a value
                upd.append({'mod': um, 'name': un, 'v': None, 'imp': True, 'err': True})
                continue
            if msg[0] != 'update':
                continue
            upd.append({'mod': um, 'name': un, 'v': msg[2][0], 'err': False,
                        'imp': self._importable((um, un), msg[2][0]) and strict_json(msg[2])})
            self.seen[um, un] = msg[2][0]
        ev['upd'] = upd

    def internal(self, kind, obj, mod, attr, wire, value=None):
        """a history step that is no request: kind 'poll' = what the poller does (obj.read_<attr>()),
        'assign' = a driver-side assignment (obj.<attr> = value); the updates it announces are recorded"""
        del self.conn.msgs[:]
        ev = {'req': {'act': kind, 'mod': mod, 'name': wire or attr, 'payload': None}, 'prev': None, 'strict': False,
              'same': True, 'real_ok': True, 'cls': 'ok', 'text': '', 'value': None, 'imp': True}
        try:
            if kind == 'poll':
                # the body of the real poll thread, run once: it selects the polled parameters itself, writes the
                # configured values, reads every polled parameter once, calls the callback - which empties the module
                # list, so that the poll loop proper ends at once
                mods = [obj]
                obj._Module__pollThread(mods, mods.clear)
            else:
                setattr(obj, attr, value)
        except Exception as e:
            ev['cls'], ev['text'] = type(e).__name__, str(e)[:100]
        self._collect_updates(ev)
        self.events.append(ev)
        return ev

    def history(self, objs, assigns=()):
        """describe again after reads / changes, then a poll cycle of the real poll thread body and driver-side
        assignments to ordinary (not constant) parameters, then describe and read again"""
        self.request('describe', '', '', None)
        for m, obj in objs.items():
            self.internal('poll', obj, m, '', '')
        for m, attr, value in assigns:
            self.internal('assign', objs[m], m, attr, objs[m].parameters[attr].export, value)
        self.request('describe', '', '', None)
        for m, obj in objs.items():
            for attr, pobj in obj.parameters.items():
                if pobj.export and pobj.constant is not None:
                    self.request('read', m, pobj.export, None)
                    self.request('activate', m, pobj.export, None)

    def trace(self, expect, expdesc=None, rank=False):
        """encode: first record = projected description, then the events"""
        if rank:
            nums = [-FMAX, FMAX, -(1 << 24), 1 << 24]
            numbers_in(self.desc, nums)
            for ev in self.events:
                numbers_in([ev['req']['payload'], ev['prev'], ev['value'], [u['v'] for u in ev['upd']]], nums)
            c = Rank(nums)
        else:
            c = Ident()
        desc, iface, feat, units = project_description(self.desc, c)
        props, node = project_props(self.desc)
        for m in expect:
            if 'props' not in expect[m]:          # unknown to the caller: not compared
                expect[m]['props'] = props.get(m, {})
        for m in expect:
            if 'units' not in expect[m]:      # unknown: at least no '$' may be left where the module has a main unit
                main = units.get(m, {}).get('value', '')
                expect[m]['units'] = {w: (u.replace('$', main) if main else u) for w, u in units.get(m, {}).items()}
        first = {'ev': 'describe', 'desc': desc, 'iface': iface, 'features': feat, 'units': units, 'expect': expect,
                 'props': props, 'node': node, 'expnode': self.expnode or node,
                 'stable': self.stable, 'strict': self.strict and self.ok,
                 'expdesc': expdesc if expdesc is not None else NULL}
        tr = [first]
        for ev in self.events:
            tr.append({'ev': 'req', 'req': dict(ev['req'], payload=abs_json(ev['req']['payload'], c)),
                       'prev': abs_json(ev['prev'], c), 'cls': ev['cls'], 'value': abs_json(ev['value'], c),
                       'real_ok': ev['real_ok'], 'imp': ev['imp'] and ev.get('strictjson', True), 'strict': ev['strict'],
                       'same': ev['same'],
                       'upd': [dict(u, v=abs_json(u['v'], c)) for u in ev['upd']]})
        return tr

    def first_reads(self):
        for m, md in self.desc['modules'].items():
            self.request('activate', m, '', None)
            for w, ad in md['accessibles'].items():
                if ad['datainfo'].get('type') != 'command':
                    self.request('read', m, w, None)


def _expect_of(shape, bases, feats=None):
    return {m: {'wires': sorted({a['wire'] for a in accs.values() if a['wire']} | set(INHERITED[bases.get(m, 'Module')])),
                'iface': [] if bases.get(m, 'Module') == 'Module' else [bases[m]],
                'features': dc.features_of((feats or {}).get(m, ()))}
            for m, accs in shape.items()}


def _strict(shape, mod, name):
    for a in shape.get(mod, {}).values():
        if a['wire'] == name and name and a['kind'] == 'param':
            return not a['hooks'] and a['lim']['kind'] == 'none' and a['drv'] != 'raise' and a['dt']['t'] != 'limits'
    return False


# ---- spec -> code: shapes, demanded descriptions and probes printed by TLC

GEN_NODE = {'keys': sorted(['modules', 'equipment_id', 'firmware', 'description', '_custom']),
            'equipment_id': None, 'description': None, 'custom': None}      # filled in below (digests)


def _gen_expnode():
    return {'keys': GEN_NODE['keys'], 'equipment_id': digest('verif_node'), 'description': digest('generated node'),
            'custom': {'_custom': digest('c1')}}


def _describe_probes(p, shape_names, rnd=None):
    """describe <module> / <module>:<accessible> for described and undescribed names"""
    mods = list(p.desc['modules'])
    cases = [(m, '') for m in mods] + [('h', ''), ('zz', '')]
    for m in mods:
        names = list(p.desc['modules'][m]['accessibles'])
        cases += [(m, n) for n in (names if rnd is None else rnd.sample(names, min(2, len(names))))]
        cases += [(m, n) for n in shape_names.get(m, []) + ['nope']]
    for m, n in cases:
        p.request('describe', m, n, None)


def _undescribed_names(shape):
    """attribute names and class-level names that are no wire names, plus the accessibles that must not exist"""
    res = {}
    for m, accs in shape.items():
        wires = {a['wire'] for a in accs.values()}
        res[m] = sorted(({a for a in accs} | {(x.get('cls') or {}).get('wire', '') for x in accs.values()}
                         | {'_popt', '_copt', '_prem'}) - wires - {''})
    return res


def _const_assignments(shape):
    """(module, attribute, value): a driver-side assignment of another valid value to the ordinary parameters
    (assigning to a constant is a programming error of the driver, not something the framework answers for)"""
    return [(m, a, dc.internal(x['dt'], x['ret']))
            for m, accs in shape.items() for a, x in accs.items()
            if x['kind'] == 'param' and x['const'] == NULL and x['ret'] != NULL and not x.get('feature')
            and not x.get('islimit')]


def _run_node(node):
    dc.boot()
    shape = node['shape']
    bases = {m: node['base'] for m in shape}
    feats = {m: node['feats'] for m in shape}
    try:
        w = dc.World(shape, bases, feats)
    except Exception as e:      # the class / the module cannot even be created
        return {'build_error': repr(e)[:200], 'constants': sorted({x['dt']['t'] for accs in shape.values() for x in accs.values()
                                                                  if x['kind'] == 'param' and x['const'] != NULL})}
    p = Prober(w.srv.dispatcher)
    p.expnode = _gen_expnode()
    p.first_reads()
    _describe_probes(p, _undescribed_names(shape))
    reqs = sorted(node['probes'], key=lambda r: json.dumps(r, sort_keys=True))
    for r in reqs:
        p.request(r['act'], r['mod'], r['name'], dc.conc(r['payload']), _strict(shape, r['mod'], r['name']))
    p.history(w.mods, _const_assignments(shape))
    expect = _expect_of(shape, bases)
    for m in expect:        # what TLC printed for this class hierarchy
        expect[m]['features'] = node['expfeatures']
        expect[m]['iface'] = node['expiface']
    # the SECoP base classes bring accessibles the shape does not list: the full comparison needs base Module
    return p.trace(expect, expdesc=node['desc'] if node['base'] == 'Module' else None)


# ---- code -> spec: random generated nodes

def _random_node(seed):
    try:
        return _random_node_(seed)
    except Exception as e:      # (frappy exceptions do not unpickle in the parent process)
        import traceback
        raise MachineryError(f'random node {seed}: {e!r}\n{traceback.format_exc()[-1500:]}') from None


def _random_node_(seed):
    rnd = random.Random(seed)
    dc.boot()
    shape = dc.rand_shape(rnd)
    for accs in shape.values():            # limits / hooks on a few parameters only: most probes are strict
        for a in accs.values():
            if a['kind'] == 'param' and rnd.random() < 0.6:
                a['hooks'] = [h for h in a['hooks'] if h['at'] == 'LIMIT']
    for accs in shape.values():            # units; '$' must come out as the unit of the module's value
        for attr, a in accs.items():
            if a['kind'] == 'param' and a['dt']['t'] == 'double' and not a.get('islimit') and rnd.random() < 0.6:
                a['unit'] = rnd.choice(['K', 'mbar']) if attr == 'value' else rnd.choice(['$', '$/min', 's', 'V/$'])
    bases = {}
    for m, accs in shape.items():
        b = rnd.choice(['Module', 'Module', 'Readable', 'Writable', 'Drivable'])
        if b != 'Module' and not set(accs) & {'value', 'target', 'status', 'pollinterval', 'stop'}:
            bases[m] = b
    feats = {}
    for m, accs in shape.items():          # 0-2 Feature mixins, directly or through one / two intermediate classes
        names = rnd.sample(['VFeatA', 'VFeatB', 'HasOffset'], rnd.choice([0, 0, 1, 1, 2]))
        feats[m] = [{'name': f, 'how': rnd.choice(['direct', 'mid', 'base'])} for f in names]
        dc.with_features(accs, feats[m])
    # descriptive properties: on accessibles through the class, on modules through the configuration
    modprops = {}
    for m, accs in shape.items():
        for a in accs.values():
            if not a.get('islimit') and not a.get('feature') and rnd.random() < 0.4:
                a['props'] = {'description': rnd.choice(['first line\n\nmore text', 'short', 'with "quotes" and \\ backslash']),
                              'group': rnd.choice(['', 'g1', 'grp2']), 'visibility': rnd.choice([1, 2, 3])}
        if rnd.random() < 0.6:
            modprops[m] = {'description': rnd.choice(['module text', 'other\ntext']), 'group': rnd.choice(['', 'mg']),
                           'visibility': rnd.choice(['user', 'advanced', 'expert']),
                           'meaning': rnd.choice([['temperature', 10], ['', 0], ['magneticfield', 3]])}
    try:
        w = dc.World(shape, bases, feats, modprops)
    except Exception as e:      # a node the generator is entitled to build cannot be created
        if dc.refusable(shape):
            return {'refused': True}    # frappy may refuse such a configuration as a whole (C10)
        return {'build_error': repr(e)[:300], 'shape': shape,
                'constants': sorted({x['dt']['t'] for accs in shape.values() for x in accs.values()
                                     if x['kind'] == 'param' and x['const'] != NULL})}
    p = Prober(w.srv.dispatcher)
    p.expnode = _gen_expnode()
    p.first_reads()
    _describe_probes(p, _undescribed_names(shape), rnd)
    c = Ident()
    desc, _, _, _ = project_description(p.desc, c)
    names = [(m, n) for m in desc for n in desc[m]]
    attrs = [(m, a) for m in shape for a in shape[m]]
    hidden = [(m, x['cls']['wire']) for m in shape for x in shape[m].values()
              if (x.get('cls') or {}).get('wire') and x['cls']['wire'] != x['wire']]
    for _ in range(rnd.randint(25, 50)):
        r = rnd.random()
        if r < 0.12:       # undescribed names
            m, a = rnd.choice(attrs + [('zz', 'target'), ('h', '_pa'), ('h', 'target'), ('m', 'nope')] + 3 * hidden)
            act = rnd.choice(['read', 'change', 'do', 'activate'])
            p.request(act, m, rnd.choice([a, a, '']) if act == 'activate' and m in ('zz', 'h') else a,
                      7 if act == 'change' else None, _strict(shape, m, a))
            continue
        m, n = rnd.choice(names)
        d = desc[m][n]
        if d['kind'] == 'cmd':
            if n == 'stop':
                continue
            act = 'do' if r < 0.9 else rnd.choice(['read', 'change'])
            pay = None if act == 'read' else 1 if act == 'change' else \
                (None if rnd.random() < 0.6 else rnd.choice([0, 0.0, False, '', [], {}, 1, 'x'])) if d['arg']['t'] == 'none' else dc.conc(dc.rand_payload(rnd, d['arg']))
        else:
            act = 'change' if r < 0.75 else 'read' if r < 0.9 else rnd.choice(['do', 'activate'])
            pay = dc.conc(dc.rand_payload(rnd, d['dt'])) if act == 'change' and d['dt']['t'] != 'other' else \
                1 if act == 'change' else None
            if act == 'change' and d['dt']['t'] == 'tuple' and isinstance(pay, list) and len(pay) == 2 \
                    and all(isinstance(x, (int, float)) for x in pay):
                pay.sort()
        p.request(act, m, n, pay, _strict(shape, m, n))
    # the unexported module 'h' (class of the first module): every accessible, commands with and without argument
    for attr, a in next(iter(shape.values())).items():
        nm = a['wire'] or attr
        if a['kind'] == 'cmd':
            p.request('do', 'h', nm, None)
            if a['arg']['t'] != 'none':
                p.request('do', 'h', nm, dc.conc(dc.rand_valid(rnd, a['arg'])))
        elif not a.get('feature'):
            for act in ('read', 'change', 'activate', 'do'):
                p.request(act, 'h', nm, dc.conc(a['init']) if act == 'change' else None)
    p.history(w.mods, _const_assignments(shape))
    expect = _expect_of(shape, bases, feats)
    for m, accs in shape.items():
        if bases.get(m, 'Module') != 'Module':
            continue                      # (inherited accessibles carry units of their own)
        main = accs.get('value', {}).get('unit', '')
        expect[m]['units'] = {w: '' for w in expect[m]['wires']}
        for a in accs.values():
            if a.get('unit'):
                u = a['unit'].replace('$', main) if main else a['unit']
                lims = [a['lim'].get('lo'), a['lim'].get('hi')]       # <p>_min / <p>_max share the datatype
                for b in [a] + [accs[x] for x in lims if x]:
                    if b['wire']:
                        expect[m]['units'][b['wire']] = u
    vis = {'user': 1, 'advanced': 2, 'expert': 3}
    for m, accs in shape.items():
        if bases.get(m, 'Module') != 'Module' or feats.get(m):
            continue                      # (inherited accessibles / features carry descriptions of their own)
        mp = modprops.get(m, {})
        acc_props = {}
        for attr, a in accs.items():
            if not a['wire']:
                continue
            if a.get('islimit'):
                acc_props[a['wire']] = props_of('acc', {'description': 'limit for ' + attr.rpartition('_')[0]}.get)
            else:
                acc_props[a['wire']] = props_of('acc', dict({'description': 'p' if a['kind'] == 'param' else 'c'},
                                                            **(a.get('props') or {})).get)
        expect[m]['props'] = {'mod': props_of('module', {'description': mp.get('description', 'd'), 'group': mp.get('group', ''),
                                                        'visibility': vis[mp.get('visibility', 'user')],
                                                        'meaning': mp.get('meaning')}.get),
                              'acc': acc_props}
    return {'trace': p.trace(expect), 'hidden': [list(h) for h in hidden], 'shape': shape}


# ---- code -> spec: shipped configurations

def candidates(info, cur):
    """payloads worth sending to a parameter of the described datainfo (JSON level)"""
    t = info.get('type')
    wrong = ['x', None, [1, 'a'], {'q': 1}]
    if t in ('double', 'int'):
        lo, hi = info.get('min'), info.get('max')
        res = []
        for b, d in ((lo, -1), (hi, 1)):
            if b is not None and abs(b) < 1e15:
                step = max(1, abs(b) * 0.01)     # well outside FloatRange's relative tolerance
                res += [b, b + d * (int(step) if t == 'int' else step)]
        if lo is not None and hi is not None and abs(lo) < 1e15 and abs(hi) < 1e15:
            mid = (lo + hi) / 2
            res.append(int(mid) if t == 'int' else mid)
        if isinstance(cur, (int, float)) and not isinstance(cur, bool):
            res.append(cur)
        if t == 'int':
            res = [int(x) for x in res if x == int(x)]
        if lo is not None and hi is not None or t == 'int':      # (an unlimited double clamps +-inf: documented)
            res += [float('nan'), float('inf'), float('-inf')]
        else:
            res.append(float('nan'))
        return (res or [1]) + ['x', None, [1]]
    if t == 'enum':
        vals = sorted(info['members'].values())
        return vals + [sorted(info['members'])[0], vals[-1] + 1, 'zz_unknown', [1], None]
    if t == 'string':
        mx = info.get('maxchars', 10 ** 6)
        res = ['ab', 'x' * max(info.get('minchars', 0), 1)]
        if mx < 1000:
            res += ['x' * mx, 'x' * (mx + 1)]
        if info.get('minchars', 0) > 0:
            res.append('x' * (info['minchars'] - 1))
        return res + [5, None, [1]]
    if t == 'bool':
        return [True, False, [1], 'x']
    if t == 'tuple':
        res = [5, None, 'x']
        if isinstance(cur, list):
            res += [cur, cur[:-1], cur + [1]]
        return res
    if t == 'array':
        res = [5, None]
        if isinstance(cur, list):
            res += [cur, cur[:1]]
            if info['maxlen'] < 50 and cur:
                res.append((cur * (info['maxlen'] + 1))[:info['maxlen'] + 1])
        return res
    if t == 'struct':
        res = [5, [1, 2], None]
        if isinstance(cur, dict):
            res += [cur, dict(cur, zz_unknown=1)]
            opt = info.get('optional', list(info['members']))
            if opt and opt[0] in cur:
                res.append({k: v for k, v in cur.items() if k != opt[0]})
        return res
    return []


class _TL(LoggerStub):
    propagate = False

    def getChild(self, name, *a):
        c = _TL(self.name + '.' + name)
        c.parent = self
        return c


def _startup_server(cfg):
    """a node started the way the real server does it: Server._processCfg on a stub - the start-up itself calls
    get_descriptive_data('') while the modules are initialised one after the other (in the order of the
    configuration).  A HasControlledBy output and its HasOutputModule controller: initialising the controller
    extends the enum of the output's controlled_by.  'startup:out-first' / 'startup:loop-first' = configuration order."""
    import io
    import sys
    from frappy.datatypes import FloatRange
    from frappy.mixins import HasControlledBy, HasOutputModule
    from frappy.modules import Parameter, Writable
    from frappy.server import Server

    class Out(HasControlledBy, Writable):
        value = Parameter('v', FloatRange(0, 10), default=0)
        target = Parameter('t', FloatRange(0, 10), readonly=False, default=0)

        def write_target(self, value):
            self.self_controlled()
            return value

    class Loop(HasOutputModule, Writable):
        value = Parameter('v', FloatRange(0, 10), default=0)
        target = Parameter('t', FloatRange(0, 10), readonly=False, default=0)

        def write_target(self, value):
            self.activate_control()
            self.output_module.update_target(self.name, value)
            return value

    mods = {'out': {'cls': Out, 'description': 'output'},
            'loop': {'cls': Loop, 'description': 'controller', 'output_module': 'out'},
            'aux': {'cls': Out, 'description': 'another output nobody controls'}}
    order = ['out', 'loop', 'aux'] if cfg.endswith('out-first') else ['loop', 'aux', 'out']

    class Stub:
        _testonly = True
        name = 'node'
        restart = shutdown = None
    stub = Stub()
    stub.log = _TL('c06').getChild('srv')
    stub.node_cfg = {'cls': 'frappy.protocol.dispatcher.Dispatcher', 'description': 'started like a server',
                     'equipment_id': 'startup_node', '_note': 'n1'}
    stub.module_cfg = {m: dict(mods[m]) for m in order}
    saved = sys.stderr
    sys.stderr = io.StringIO()
    try:
        Server._processCfg(stub)
    finally:
        sys.stderr = saved
    return stub


def _shipped(cfg):
    import os
    import tempfile
    import threading
    from pathlib import Path
    dc.boot()
    from ..core import REPO
    from frappy.lib import generalConfig
    tmp = Path(tempfile.mkdtemp(prefix='c06-'))
    generalConfig.testinit(omit_unchanged_within=0, piddir=tmp, logdir=tmp, confdir=[REPO / 'cfg'])
    import frappy.lib
    import frappy.modulebase
    frappy.lib.mkthread = frappy.modulebase.mkthread = lambda *a, **k: None   # no poll / simulation threads
    threading.Thread.start = lambda self: None                                 # (this is a forked worker process)
    from frappy.server import Server
    try:
        if cfg.startswith('startup:'):
            srv = _startup_server(cfg)
        else:
            srv = Server(cfg, _TL('c06'), cfgfiles=[str(REPO / 'cfg' / f'{cfg}_cfg.py')], interface='tcp://0', testonly=True)
            srv._processCfg()
    except BaseException as e:  # SystemExit on configuration errors
        return {'cfg': cfg, 'error': repr(e)[:300]}
    finally:
        import shutil
        shutil.rmtree(tmp, ignore_errors=True)
    import signal
    signal.signal(signal.SIGINT, signal.SIG_DFL)      # Server.__init__ installed handlers in this worker process
    signal.signal(signal.SIGTERM, signal.SIG_DFL)

    def _stuck(*_):
        raise MachineryError(f'shipped configuration {cfg}: a driver blocks without its threads')
    signal.signal(signal.SIGALRM, _stuck)
    signal.alarm(300)
    sec = srv.secnode
    expect = {}
    base_names = ('Drivable', 'Writable', 'Readable', 'Communicator', 'Module')
    for m, obj in sec.modules.items():
        if not obj.export:
            continue
        mro = [b.__name__ for b in type(obj).__mro__]
        top = next((b for b in mro if b in base_names), 'Module')
        from frappy.modulebase import Feature
        expect[m] = {'wires': sorted(a.export for a in obj.accessibles.values() if a.export),
                     'iface': [] if top == 'Module' else [top],
                     'features': [b.__name__ for b in type(obj).__mro__ if Feature in b.__bases__],
                     # the descriptive properties as the module / accessible objects hold them
                     'props': {'mod': props_of('module', lambda k, d=None, o=obj: getattr(o, k, d)),
                               'acc': {a.export: props_of('acc', lambda k, d=None, o=a: getattr(o, k, d))
                                       for a in obj.accessibles.values() if a.export}}}
    p = Prober(srv.dispatcher)
    p.expnode = {'keys': sorted(['modules', 'equipment_id', 'firmware', 'description'] +
                                [k for k in sec.nodeprops if k.startswith('_')]),
                 'equipment_id': digest(sec.equipment_id), 'description': digest(sec.nodeprops.get('description')),
                 'custom': {k: digest(v) for k, v in sec.nodeprops.items() if k.startswith('_')} or {'-': '-'}}
    p.first_reads()
    _describe_probes(p, {m: [a for a, x in obj.accessibles.items() if a and x.export != a] +
                            [a for a, x in type(obj).accessibles.items() if a and a not in obj.accessibles]
                         for m, obj in sec.modules.items() if obj.export})
    hidden = [m for m, obj in sec.modules.items() if not obj.export]
    for m, md in list(p.desc['modules'].items()):
        obj = sec.modules[m]
        for w, ad in md['accessibles'].items():
            info = ad['datainfo']
            if info.get('type') == 'command':
                p.request('read', m, w, None)
                p.request('change', m, w, 1)
                continue
            for pay in candidates(info, p.seen.get((m, w))):
                p.request('change', m, w, pay)
            p.request('do', m, w, None)
        # names the description does not list
        for a, aobj in obj.accessibles.items():
            if a and aobj.export != a:      # (frappy.simulation creates a parameter with the empty name)
                for act in ('read', 'change', 'do', 'activate'):
                    p.request(act, m, a, 1 if act == 'change' else None)
        for act in ('read', 'change', 'do', 'activate'):
            p.request(act, m, 'zz_nope', 1 if act == 'change' else None)
    for m in hidden + ['zz_nomod']:
        for act in ('read', 'change', 'do', 'activate'):
            p.request(act, m, 'value', 1 if act == 'change' else None)
        p.request('activate', m, '', None)
    for m in hidden:        # every accessible of an unexported module under the name its class gives it
        for a, aobj in type(sec.modules[m]).accessibles.items():
            nm = aobj.export if isinstance(aobj.export, str) and aobj.export else a
            if not a:
                continue
            if hasattr(aobj, 'argument'):       # a command: without payload (and nothing is executed if it is refused)
                p.request('do', m, nm, None)
            else:
                for act in ('read', 'activate'):
                    p.request(act, m, nm, None)
    if cfg.startswith('startup:'):
        # drive the controller: the output's controlled_by takes the value naming the controller, then goes back
        for act, m, w, pay in (('change', 'loop', 'target', 5), ('read', 'out', 'controlled_by', None),
                               ('activate', 'out', '', None), ('change', 'out', 'target', 3),
                               ('read', 'out', 'controlled_by', None), ('change', 'loop', 'target', 2),
                               ('activate', 'out', 'controlled_by', None)):
            p.request(act, m, w, pay)
    p.request('describe', '', '', None)          # after all these reads and changes: the same report
    signal.alarm(0)
    hidden = [[m, w] for m, obj in sec.modules.items() for w, a in obj.accessiblename2attr.items()
              if not obj.accessibles[a].export]
    return {'cfg': cfg, 'trace': p.trace(expect, rank=True), 'raw': [dict(e, upd=len(e['upd'])) for e in p.events],
            'hidden': hidden}


def _fresh_map(fn, items):
    """every item in a process of its own (class-level state of one configuration must not meet the next)"""
    import multiprocessing as mp
    import os
    procs = int(os.environ.get('VERIF_PROCS', min(os.cpu_count() or 4, 8)))
    with mp.get_context('fork').Pool(min(procs, len(items)), maxtasksperchild=1) as pool:
        return pool.map(fn, items, 1)


# ------------------------------------------------------------------ check

def _sig(tr, l, clause, world, hidden=(), shape=None):
    ev = tr[l - 1]
    if l == 1:
        sig = {'module': 'Describe', 'clause': clause, 'world': world}
        if shape and clause == 'DescriptionFaithful':
            sig['constants'] = sorted({x['dt']['t'] for accs in shape.values() for x in accs.values()
                                       if x['kind'] == 'param' and x['const'] != NULL})
        return sig
    req = ev['req']
    d = tr[0]['desc'].get(req['mod'], {}).get(req['name'] or dc.wire_of(req))
    dt = 'undescribed' if d is None else (d['dt'] if d['kind'] == 'param' else d['arg'])['t']
    target = 'undescribed' if d is None else d['kind'] + (':const' if d.get('const', NULL) != NULL else
                                                           ':ro' if d.get('ro') else '')
    if req['act'] == 'activate' and not req['name'] and req['mod'] in tr[0]['desc']:
        target = dt = 'module'
    if req['act'] == 'describe' and not req['mod']:
        target = dt = 'node'
    if req['act'] == 'poll':
        target = dt = 'module'         # one poll cycle of the module's poll thread body
    after = 'requests'
    if any(e['req']['act'] in ('poll', 'assign') and req['mod'] in ('', e['req']['mod']) for e in tr[1:l]):
        after = 'poll'                 # a poll cycle / driver-side assignment happened before
    if [req['mod'], req['name']] in list(hidden):
        target = 'cfg-hidden'
    if shape:        # generated node: the generator knows where the final accessible comes from
        t2 = dc.signature(shape, req, [clause], ev, {})['target']
        if t2.startswith('cfg-'):
            target = t2
    return {'module': 'Describe', 'clause': clause, 'act': req['act'], 'target': target, 'dt': dt,
            'payload': dc.payload_class(req['payload'], ev['prev'], dt), 'obs': ev['cls'], 'world': world, 'after': after}


def run(chk):
    quick = chk.tier == 'quick'
    tier = 'quick' if quick else 'thorough'
    chk.rule = ('one case per probed node: (a) every shape TLC enumerates in Gen_Describe with its demanded description and '
                'probe list, (b) random generated nodes, (c) shipped configurations; each node yields one trace '
                '(describe record + one record per request) judged by Trace_Describe. Distinct = distinct node; every '
                'node is non-trivial (all of them have exported, unexported, readonly and writable accessibles)')
    for m in ('Describe', 'Gen_Describe', 'Trace_Describe'):
        sany(m)
    chk.add_tlc(model_check('Describe', f'MC_Describe_{tier}.cfg', timeout=1000))

    r = run_tlc('Gen_Describe', f'Gen_Describe_{tier}.cfg', workers=1, timeout=600)
    if r.violated or not r.ok:
        raise MachineryError(f'Gen_Describe failed: {r.violated or r.error}\n{r.out[-2000:]}')
    chk.add_tlc(r)
    nodes = r.printed('NODE')
    if not nodes:
        raise MachineryError('Gen_Describe printed nothing')
    traces, worlds, shapes = [], [], []
    for nd, tr in zip(nodes, pool_map(_run_node, nodes)):
        if isinstance(tr, dict):          # the node could not be built at all
            chk.case('generated:' + json.dumps(nd['sid']), True)
            chk.violation({'module': 'Describe', 'clause': 'node.build', 'constants': tr['constants']},
                          {'world': 'generated:' + json.dumps(nd['sid']), 'error': tr['build_error'], 'shape': nd['shape']})
            continue
        traces.append(tr)
        shapes.append(nd['shape'])
        worlds.append('generated:' + json.dumps(nd['sid']))

    n = 60 if quick else 1500
    hidden = [[] for _ in traces]
    for x in pool_map(_random_node, [chk.seed * 1000003 + i for i in range(n)]):
        if 'refused' in x:
            n -= 1
            continue
        if 'build_error' in x:
            chk.violation({'module': 'Describe', 'clause': 'node.build', 'constants': x['constants'], 'world': 'generated'},
                          {'world': 'generated:random', 'error': x['build_error'], 'shape': x['shape']})
            n -= 1
            continue
        traces.append(x['trace'])
        hidden.append(x['hidden'])
        shapes.append(x['shape'])
    worlds += ['generated:random'] * n

    res = _fresh_map(_shipped, SHIPPED_QUICK if quick else SHIPPED_THOROUGH)
    for x in res:
        if 'error' in x:
            raise MachineryError(f"shipped configuration {x['cfg']} does not load: {x['error']}")
        traces.append(x['trace'])
        hidden.append(x['hidden'])
        worlds.append(x['cfg'] if x['cfg'].startswith('startup:') else 'shipped:' + x['cfg'])

    devs, done, st, trn = dc.validate_events('Trace_Describe', traces, 'Trace_Describe.cfg', timeout=1000, chunk=400)
    chk.states += st
    chk.transitions += trn
    for i in range(done):
        chk.impl_traces += 1
        chk.case(worlds[i] if worlds[i] != 'generated:random' else 'rn%d' % i, True)
    chk.evaluations += sum(len(t) - 1 for t in traces)
    for ti, l, clause in devs:
        tr = traces[ti]
        world = worlds[ti].split(':')[0]
        chk.violation(_sig(tr, l, clause, world, hidden[ti], shapes[ti] if ti < len(shapes) else None), {'world': worlds[ti], 'failed_at': l, 'clause': clause,
                                                  'describe': tr[0], 'event': tr[l - 1]})
    chk.sample({'describe_record': {k: v for k, v in traces[0][0].items() if k != 'expdesc'}})
    chk.sample({'event': traces[0][5]})
    chk.notes['events_judged'] = sum(len(t) - 1 for t in traces)
    chk.notes['shipped'] = [x['cfg'] for x in res]
    chk.exhaustive = False
    chk.assumptions.append('shipped configurations: modules created by the real Server._processCfg(testonly), '
                           'mkthread / Thread.start disabled, no poller')


def replay(chk, rep):
    d = rep['detail']
    print('world:', d.get('world'), 'clause:', d.get('clause'), 'event', d.get('failed_at'))
    print(json.dumps(d.get('event'), indent=1))
    ev = d.get('event') or {}
    req = ev.get('req')
    if req and d.get('describe'):
        print('described as:', json.dumps(d['describe']['desc'].get(req['mod'], {}).get(req['name'])))
    return 0
