"""import frappy from /repo's working tree, neutralise environment hazards, stubs."""
import os
import sys

from .core import REPO

_done = False


def boot():
    """make `import frappy` resolve to /repo and patch the version lookup
    (it shells out to git, writes frappy/RELEASE-VERSION and raises in this sandbox)."""
    global _done
    if _done:
        return
    _done = True
    sys.dont_write_bytecode = True
    p = str(REPO)
    if p in sys.path:
        sys.path.remove(p)
    sys.path.insert(0, p)
    import frappy.version
    frappy.version.get_version = lambda abbrev=4: 'v0.0.0-verif'
    from frappy.lib import generalConfig
    generalConfig.testinit(omit_unchanged_within=0)


class LoggerStub:
    """logger that swallows everything (and remembers the last messages)"""
    handlers = []
    parent = None

    def __init__(self, name='log'):
        self.name = name
        self.records = []

    def _log(self, fmt, *args, **kw):
        try:
            self.records.append(str(fmt) % args if args else str(fmt))
        except Exception:
            self.records.append(str(fmt))
        del self.records[:-50]

    debug = info = warning = exception = error = critical = _log

    def log(self, level, fmt, *args, **kw):
        self._log(fmt, *args)

    def getChild(self, name):
        return LoggerStub(self.name + '.' + name)

    def setLevel(self, level):
        pass

    def addHandler(self, h):
        pass


class SecNodeStub:
    def __init__(self):
        self.modules = {}
        self.export = []
        self.name = 'node'
        self.equipment_id = 'eq'
        self.nodeprops = {}

    def add_module(self, module, modname, export=True):
        self.modules[modname] = module
        if export:
            self.export.append(modname)

    def get_module(self, modname):
        return self.modules.get(modname)

    def get_descriptive_data(self, specifier):
        from frappy.secnode import SecNode
        return SecNode.get_descriptive_data(self, specifier)

    def get_exported_modules(self):
        return {m: self.modules[m] for m in self.export}


class ServerStub:
    restart = None
    shutdown = None

    def __init__(self, with_dispatcher=True, log=None):
        boot()
        self.secnode = SecNodeStub()
        self.log = log or LoggerStub('srv')
        if with_dispatcher:
            from frappy.protocol.dispatcher import Dispatcher
            self.dispatcher = Dispatcher('disp', self.log.getChild('dispatcher'), {}, self)
            self.secnode.srv = self


class Conn:
    """fake connection recording what it is sent"""

    def __init__(self, name, dispatcher=None):
        self.name = name
        self.msgs = []
        self.dispatcher = dispatcher
        if dispatcher is not None:
            dispatcher.add_connection(self)

    def send_reply(self, msg):
        self.msgs.append(msg)

    def __repr__(self):
        return f'Conn({self.name})'
