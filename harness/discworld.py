"""C19, server wiring: the real frappy.server.Server (real __init__ on a generated config file, real run(),
_processCfg, _interfaceThread, restart(), shutdown(), real TCPServer.__init__ / WSServer.__init__) on
 - a fake bind layer (DualStackTCPServer.__init__/serve_forever/shutdown/server_close, websockets `serve`): records
   which ports are REALLY listened on and lets scripted interfaces fail to come up,
 - a threaded fake UDP socket for the real UDPListener thread: a broadcast discover request is handed to every
   open discovery socket of the process, the harness waits until each responder asks for the next datagram.
Real threads, no sleeps for synchronisation (events with generous time-outs only to detect a hang).
Schedule control over the start of a responder thread: it can be held before its first statement ('start') or
inside its first sendto ('send') until the harness releases it - restart / shutdown can be issued in between.
Tear-down is observed step by step: the close of the responder's socket and the return of every interface's
shutdown() inside Server.restart() / Server.shutdown() are scheduling points at which a broadcast request is injected
(the next generation is kept from starting until restart() has returned).
The fake UDP socket follows the kernel: close() alone does not wake a thread blocked in recvfrom (the socket stays
in the SO_REUSEPORT group until that thread returns), shutdown() wakes it (empty read) and raises ENOTCONN, sendto
on a closed socket raises EBADF; besides the broadcast probe one unicast request is sent to every socket of the group.
"""
import errno
import os
import queue
import shutil
import signal
import tempfile
import threading
import time
from pathlib import Path

from . import env

WAIT = 30.0          # seconds until a missing hand-shake is declared a hang
PORTS = [10767, 65535, 7, 8080, 443, 20001, 333]
DISCOVER = b'{"SECoP": "discover"}'
WAKE = object()
CUR = [None]         # the world of this process


class StopThread(BaseException):
    """ends a responder thread that spins on a closed socket"""


class ThreadedUDP:
    def __init__(self, *args, **kw):
        self.q = queue.Queue()
        self.sent = []
        self.closed = False
        self.idle = threading.Event()
        self.dead = threading.Event()
        self.reads_after_close = 0
        self.blocked = False                # a thread waits inside recvfrom: the kernel keeps the socket bound
        self.mark = 0
        self.hold = CUR[0].next_hold        # '' | 'start' | 'send': where the responder thread is held
        self.held = threading.Event()       # the thread has reached the hold point
        self.release = threading.Event()
        CUR[0].sockets.append(self)

    def setsockopt(self, *a):
        pass

    def bind(self, addr):
        self.bound = addr

    def recvfrom(self, bufsize, *flags):
        if self.closed:
            self.reads_after_close += 1
            if self.reads_after_close > 50:
                raise StopThread()
            raise OSError(errno.EBADF, 'Bad file descriptor')
        self.idle.set()
        self.blocked = True
        item = self.q.get()
        self.blocked = False
        if item is None:                    # (cleanup of the harness)
            raise OSError(errno.EBADF, 'Bad file descriptor')
        if item is WAKE:                    # shutdown(SHUT_RDWR) by another thread: the read returns empty
            return b'', ('0.0.0.0', 0)
        return item[0][:bufsize], item[1]

    def sendto(self, data, *rest):
        if self.hold == 'send' and not self.held.is_set():
            self.held.set()
            self.release.wait()
        if self.closed:
            raise OSError(errno.EBADF, 'Bad file descriptor')
        self.sent.append((bytes(data), rest[-1]))
        return len(data)

    def shutdown(self, how):
        # Linux: wakes a thread blocked in recvfrom, then reports that a UDP socket is not connected
        if self.blocked:
            self.q.put(WAKE)
        raise OSError(errno.ENOTCONN, 'Transport endpoint is not connected')

    def in_group(self):
        """still a member of the SO_REUSEPORT group: open, or closed while a thread blocks in recvfrom (close()
        alone does not wake that thread and the kernel keeps the socket until it returns)"""
        return not self.closed or (self.blocked and not self.dead.is_set())

    def kill(self):
        self.closed = True
        self.q.put(None)

    def close(self):
        if not self.closed:
            self.closed = True
            w = CUR[0]
            if w is not None and w.tearing_down():
                w.step('stop_responder', 0)


class FakeWS:
    def __init__(self, port):
        self.port = port
        self._stop = threading.Event()

    def serve_forever(self):
        self._stop.wait()

    def shutdown(self):
        first = not self._stop.is_set()
        self._stop.set()
        w = CUR[0]
        w.ws_listening.discard(self.port)
        if first and w.tearing_down():
            w.step('close_iface', self.port)


_patched = []


def _patch():
    """bind layer of the two interface classes (once per process)"""
    if _patched:
        return
    _patched.append(1)
    import frappy.protocol.interface.tcp as T
    import frappy.protocol.interface.ws as W
    import frappy.server as S
    import frappy.protocol.discovery as D

    def init(self, server_address, RequestHandlerClass, bind_and_activate=True, enable_ipv6=False):
        w = CUR[0]
        port = server_address[1]
        self._port = port
        self._stop = threading.Event()
        if not w.comes_up(port):
            raise OSError(errno.EACCES, 'Permission denied')     # (EADDRINUSE would be retried for 9 s)
        w.in_order(port)
        w.listening.add(port)

    def serve_forever(self, poll_interval=0.5):
        self._stop.wait()

    def shutdown(self):      # like socketserver: returns when serve_forever has ended (and, here, the port is free)
        first = not self._stop.is_set()
        self._stop.set()
        w = CUR[0]
        if first and w.tearing_down():
            t0 = time.time()
            while self._port in w.listening and time.time() - t0 < WAIT:
                time.sleep(0.0005)
            w.step('close_iface', self._port)

    def server_close(self):
        CUR[0].listening.discard(self._port)

    for name, fn in (('__init__', init), ('serve_forever', serve_forever), ('shutdown', shutdown),
                     ('server_close', server_close)):
        setattr(T.DualStackTCPServer, name, fn)

    def serve(handler, host, port, **kw):
        w = CUR[0]
        if not w.comes_up(port):
            raise OSError(errno.EACCES, 'Permission denied')
        w.in_order(port)
        w.ws_listening.add(port)
        return FakeWS(port)
    W.serve = serve

    class Listener(D.UDPListener):
        """the real responder; only reports when its thread ends"""
        def run(self):
            try:
                if self.sock.hold == 'start':       # nothing of the real run() has been executed yet
                    self.sock.held.set()
                    self.sock.release.wait()
                super().run()
            except StopThread:
                self.sock.spinning = True
            except BaseException as e:      # whatever escapes ends the responder thread
                self.sock.exc = type(e).__name__
            finally:
                self.sock.dead.set()
    S.UDPListener = Listener


class World:
    """cfg: {'schemes': [tcp|ws ...], 'ups': [[index of an interface that comes up, ...] per (re)start],
    'eq', 'descr', 'bare_main', 'arg_main', 'salt'}"""

    def __init__(self, cfg, sockmod):
        env.boot()
        _patch()
        import frappy.server as S
        from frappy.lib import generalConfig
        CUR[0] = self
        self.cfg = cfg
        self.sockets = []
        self.listening = set()
        self.ws_listening = set()
        self.gen = 0
        self.gate = threading.Event()
        self.gate.set()
        self.teardown_thread = None
        self.steps = []                     # tear-down steps of the current restart / shutdown
        self.next_hold = ''
        self.error = ''
        rot = cfg.get('salt', 0) % len(PORTS)
        self.ports = (PORTS[rot:] + PORTS[:rot])[:len(cfg['schemes'])]
        self.starts = 0                 # (re)starts initiated: selects the failure script of the bind layer
        uris = ['%s://%d' % (k, p) for p, k in zip(self.ports, cfg['schemes'])]
        if cfg.get('bare_main') and uris[0].startswith('tcp://'):
            uris[0] = uris[0][6:]
        self.tmp = tempfile.mkdtemp(prefix='c19srv-')
        generalConfig._config['piddir'] = Path(self.tmp)
        path = os.path.join(self.tmp, 'node_cfg.py')
        # arg_main: the main interface comes from the command line and overrides the one in the file
        main = 'tcp://9' if cfg.get('arg_main') else uris[0]
        arg = (int(uris[0]) if uris[0].isdigit() else uris[0]) if cfg.get('arg_main') else None
        with open(path, 'w', encoding='utf-8') as f:
            f.write('Node(%r, %r, %r, secondary=%r)\n' % (cfg['eq'], self.descr(1), main, uris[1:]))
        self.sockmod = sockmod
        self.saved_factory = sockmod.socket
        sockmod.socket = ThreadedUDP
        handlers = [signal.getsignal(signal.SIGINT), signal.getsignal(signal.SIGTERM)]
        world = self

        class Srv(S.Server):
            def restart_hook(self):         # a restarted node may describe itself differently (router)
                world.gate.wait(WAIT)       # the next generation starts when restart() has returned
                self.node_cfg['description'] = world.descr(world.gen + 1)

        from .props.c19 import Log
        try:
            self.srv = Srv('node', Log(), cfgfiles=[path], interface=arg)
        finally:
            signal.signal(signal.SIGINT, handlers[0])
            signal.signal(signal.SIGTERM, handlers[1])
        self.thread = None

    def comes_up(self, port):
        ups = self.cfg['ups']
        now = ups[min(self.starts, len(ups)) - 1] if ups else []
        return port in self.ports and self.ports.index(port) + 1 in now

    def descr(self, gen):
        return 'g%d %s' % (gen, self.cfg['descr'])

    # -- synchronisation
    def _run(self):
        try:
            self.srv.run()
        except BaseException as e:
            self.error = type(e).__name__

    def _wait_up(self, nsock):
        """until a new responder waits for its first datagram (or ended), or the server's run() ended"""
        t0 = time.time()
        while time.time() - t0 < WAIT:
            if len(self.sockets) > nsock:
                s = self.sockets[-1]
                if s.idle.is_set() or s.dead.is_set() or s.held.is_set():
                    self.gen += 1
                    s.gen = self.gen
                    return True
            if not self.thread.is_alive():
                return False
            time.sleep(0.0005)
        self.error = self.error or 'hang waiting for the responder'
        return False

    def pending(self):
        return [s for s in self.sockets if s.held.is_set() and not s.release.is_set()]

    def run(self):
        """release the held responder threads (oldest first) and let each run until it waits or ends"""
        for s in self.pending():
            s.release.set()
            t0 = time.time()
            while not (s.idle.is_set() or s.dead.is_set()) and time.time() - t0 < WAIT:
                time.sleep(0.0005)
            if not (s.idle.is_set() or s.dead.is_set()):
                self.error = self.error or 'hang after releasing a responder'
        return True

    def boot(self, hold=''):
        self.next_hold = hold
        self.starts = 1
        self.thread = threading.Thread(target=self._run, daemon=True)
        self.thread.start()
        return self._wait_up(0)

    def tearing_down(self):
        return self.teardown_thread is threading.current_thread()

    def step(self, kind, port):
        """scheduling point inside Server.restart() / shutdown(): a request arrives now"""
        probed = not self.pending()
        self.steps.append({'kind': kind, 'port': port, 'listening': sorted(self.listening), 'probed': probed,
                           'msgs': self.probe() if probed else []})

    def in_order(self, port):
        """interfaces register with the server in configuration order (they are torn down in that order)"""
        now = [p for p in self.ports if self.comes_up(p)]
        need = now.index(port) if port in now else 0
        t0 = time.time()
        while len(self.srv.interfaces) < need and time.time() - t0 < 5:
            time.sleep(0.0005)

    def _teardown(self, call):
        self.steps = []
        self.teardown_thread = threading.current_thread()
        try:
            call()
        finally:
            self.teardown_thread = None

    def restart(self, hold=''):
        self.next_hold = hold
        n = len(self.sockets)
        self.gate.clear()
        try:
            self._teardown(self.srv.restart)
        finally:
            self.starts += 1
            self.gate.set()
        return self._wait_up(n)

    def shutdown(self):
        self._teardown(self.srv.shutdown)
        self.thread.join(WAIT)
        if self.thread.is_alive():
            self.error = self.error or 'hang in shutdown'

    def probe(self, sender=('10.0.0.9', 40000)):
        """broadcast one discover request: every open discovery socket gets it.
        -> list of (generation of the socket, raw message, destination)"""
        targets = [s for s in self.sockets if not s.closed]
        for s in targets:
            s.mark = len(s.sent)
            if not s.dead.is_set():
                s.idle.wait(WAIT)
            s.idle.clear()
            s.q.put((DISCOVER, sender))
        out = []
        for s in targets:
            t0 = time.time()
            while not (s.idle.is_set() or s.dead.is_set()) and time.time() - t0 < WAIT:
                time.sleep(0.0005)
            if not (s.idle.is_set() or s.dead.is_set()):
                self.error = self.error or 'hang answering a request'
            out += [(getattr(s, 'gen', 0), raw, dest) for raw, dest in s.sent[s.mark:]]
        return out

    def probe_unicast(self, sender=('10.0.0.8', 40001)):
        """one unicast request per socket bound in the reuse-port group (the kernel picks one member by a hash of the
        sender: any of them, also a closed socket a thread still blocks on) -> per request the list of answers"""
        res = []
        for tgt in [s for s in self.sockets if s.in_group()]:
            marks = [(s, len(s.sent)) for s in self.sockets]
            tgt.idle.wait(WAIT)
            tgt.idle.clear()
            tgt.q.put((DISCOVER, sender))
            t0 = time.time()
            while not (tgt.idle.is_set() or tgt.dead.is_set()) and time.time() - t0 < WAIT:
                time.sleep(0.0005)
            if not (tgt.idle.is_set() or tgt.dead.is_set()):
                self.error = self.error or 'hang answering a request'
            res.append([(getattr(s, 'gen', 0), raw, dest) for s, n in marks for raw, dest in s.sent[n:]])
        return res

    def running_responders(self):
        return sum(1 for s in self.sockets if not s.dead.is_set())

    def close(self):
        try:
            self.gate.set()
            if self.thread is not None and self.thread.is_alive():
                self.srv.shutdown()
                self.thread.join(WAIT)
            for s in self.sockets:
                s.kill()
                s.release.set()
            for s in self.sockets:
                s.dead.wait(2)
        finally:
            self.sockmod.socket = self.saved_factory
            shutil.rmtree(self.tmp, ignore_errors=True)
            CUR[0] = None
