"""Shared machinery: TLC runner, behaviour emission, batch trace validation,
evidence, known findings, violation reporting.

Python never decides correctness here: it runs TLC, moves files, and compares the
implementation's projected state with what the specification printed.
"""
import hashlib
import json
import os
import re
import shutil
import subprocess
import sys
import tempfile
import time
from pathlib import Path

VERIF = Path(__file__).resolve().parent.parent
SPEC = VERIF / 'spec'
REPO = Path(os.environ.get('FRAPPY_REPO', '/repo'))
JAR = '/opt/veriftools/tla/tla2tools.jar:/opt/veriftools/tla/CommunityModules-deps.jar'
NCPU = os.cpu_count() or 4


class MachineryError(Exception):
    """the checker itself failed (exit 2) - never reported as VIOLATION"""


# --------------------------------------------------------------------------- TLC

class TLCResult:
    def __init__(self, out, rc, wall):
        self.out = out
        self.rc = rc
        self.wall = wall
        self.generated = self.distinct = 0
        self.depth = 0
        m = None
        for m in re.finditer(r'(\d+) states generated, (\d+) distinct states found', out):
            pass
        if m:
            self.generated, self.distinct = int(m.group(1)), int(m.group(2))
        m = re.search(r'The depth of the complete state graph search is (\d+)', out)
        if m:
            self.depth = int(m.group(1))
        self.violated = None
        m = re.search(r'Invariant (\S+) is violated', out)
        if m:
            self.violated = ('invariant', m.group(1))
        m = re.search(r'Action property (\S+) is violated', out) or \
            re.search(r'Temporal properties were violated', out)
        if m and not self.violated:
            self.violated = ('property', m.group(1) if m.groups() else 'temporal')
        if 'Deadlock reached' in out and not self.violated:
            self.violated = ('deadlock', '')
        m = re.search(r'The first argument of Assert evaluated to FALSE; the second argument was:\n(.*)', out)
        if m and not self.violated:
            self.violated = ('assert', m.group(1))
        self.ok = (rc == 0 and not self.violated
                   and 'Model checking completed. No error has been found' in out) or \
                  (rc == 0 and not self.violated and 'simulation' in out.lower())
        self.error = None
        if not self.ok and not self.violated:
            m = re.search(r'(Error: .*(?:\n.*){0,12})', out)
            self.error = m.group(1) if m else out[-2000:]

    def printed(self, tag):
        """values printed with PrintT(<<tag, json-string>>) -> list of python objects"""
        res = []
        pat = '<<"%s", "' % tag
        for line in self.out.splitlines():
            if line.startswith(pat) and line.endswith('">>'):
                s = line[len(pat):-3]
                res.append(json.loads(_tla_unescape(s)))
        return res

    def printed_tuples(self, tag):
        """lines printed with PrintT(<<tag, a, b, ...>>) with int / string items"""
        res = []
        pat = '<<"%s"' % tag
        for line in self.out.splitlines():
            if line.startswith(pat) and line.endswith('>>'):
                body = line[2:-2]
                items = []
                for tok in re.findall(r'"((?:[^"\\]|\\.)*)"|(-?\d+)|(TRUE|FALSE)', body):
                    if tok[1]:
                        items.append(int(tok[1]))
                    elif tok[2]:
                        items.append(tok[2] == 'TRUE')
                    else:
                        items.append(_tla_unescape(tok[0]))
                res.append(items[1:])
        return res

    def counterexample(self):
        """the error trace as list of (action label, {var: text})"""
        steps = []
        cur = None
        for line in self.out.splitlines():
            m = re.match(r'State (\d+): <(.*?)>?$', line)
            if m:
                cur = (m.group(2), {})
                steps.append(cur)
                continue
            m = re.match(r'/\\ (\w+) = (.*)', line)
            if m and cur is not None:
                cur[1][m.group(1)] = m.group(2)
        return steps


def _tla_unescape(s):
    out = []
    i = 0
    while i < len(s):
        c = s[i]
        if c == '\\' and i + 1 < len(s):
            n = s[i + 1]
            out.append({'n': '\n', 't': '\t', 'r': '\r', 'f': '\f'}.get(n, n))
            i += 2
        else:
            out.append(c)
            i += 1
    return ''.join(out)


def run_tlc(module, cfg=None, *, workers=None, env=None, timeout=900, simulate=None,
            depth=None, seed=None, dfs=False, deadlock=None, coverage=False,
            heap='4g', extra=(), specdir=None):
    """run TLC on spec/<module>.tla with spec/<cfg> (default <module>.cfg)."""
    specdir = Path(specdir or SPEC)
    cfg = cfg or module + '.cfg'
    meta = tempfile.mkdtemp(prefix='tlc-meta-')
    # TLC unpacks its standard modules into java.io.tmpdir and leaves them behind when it is killed: keep them in
    # the meta directory, which is removed below
    jopts = ['-XX:+UseParallelGC', '-Xmx' + heap, '-Djava.io.tmpdir=' + meta]
    if dfs:
        jopts.append('-Dtlc2.tool.queue.IStateQueue=StateDeque')
    cmd = ['java'] + jopts + ['-cp', JAR, 'tlc2.TLC', '-metadir', meta, '-noGenerateSpecTE',
                              '-config', cfg]
    w = workers if workers is not None else os.environ.get('VERIF_TLC_WORKERS', 'auto')
    cmd += ['-workers', str(w)]
    if simulate:
        cmd += ['-simulate', simulate]
    if depth:
        cmd += ['-depth', str(depth)]
    if seed is not None:
        cmd += ['-seed', str(seed)]
    if deadlock is False:
        cmd += ['-deadlock']
    if coverage:
        cmd += ['-coverage', '1']
    cmd += list(extra) + [module]
    e = dict(os.environ)
    e.pop('JAVA_TOOL_OPTIONS', None)
    if env:
        e.update({k: str(v) for k, v in env.items()})
    t0 = time.time()
    try:
        p = subprocess.run(cmd, cwd=specdir, env=e, stdout=subprocess.PIPE, stderr=subprocess.STDOUT,
                           timeout=timeout, text=True, errors='replace')
        out, rc = p.stdout, p.returncode
    except subprocess.TimeoutExpired as ex:
        out = (ex.stdout or b'').decode(errors='replace') if isinstance(ex.stdout, bytes) else (ex.stdout or '')
        if simulate:
            rc = 0
            out += '\nsimulation stopped by time-out\n'
        else:
            shutil.rmtree(meta, ignore_errors=True)
            raise MachineryError(f'TLC timed out after {timeout}s on {module}/{cfg}')
    finally:
        shutil.rmtree(meta, ignore_errors=True)
    return TLCResult(out, rc, time.time() - t0)


def sany(module, specdir=None):
    p = subprocess.run(['java', '-cp', JAR, 'tla2sany.SANY', module + '.tla'], cwd=specdir or SPEC,
                       stdout=subprocess.PIPE, stderr=subprocess.STDOUT, text=True)
    if p.returncode != 0 or 'Semantic errors' in p.stdout or 'Parse Error' in p.stdout \
            or 'Fatal errors' in p.stdout:
        raise MachineryError(f'SANY rejects {module}:\n{p.stdout[-3000:]}')


def model_check(module, cfg, **kw):
    """design-level check: the spec's own properties must hold in the spec.
    returns TLCResult; raises MachineryError when the *specification* is broken."""
    r = run_tlc(module, cfg, **kw)
    if r.violated:
        raise MachineryError(f'specification {module}/{cfg} violates its own property '
                             f'{r.violated}:\n{r.out[-3000:]}')
    if not r.ok:
        raise MachineryError(f'TLC failed on {module}/{cfg}: {r.error}')
    return r


def emit_behaviours(module, cfg, tag='BEH', maximal_only=True, **kw):
    """run a Gen_* configuration; every reachable state prints its history.
    returns (TLCResult, list of behaviours); a behaviour is a list of steps."""
    kw.setdefault('workers', 1)
    r = run_tlc(module, cfg, **kw)
    if r.violated or not r.ok:
        raise MachineryError(f'behaviour emission {module}/{cfg} failed: {r.violated or r.error}\n'
                             f'{r.out[-2000:]}')
    behs = r.printed(tag)
    if maximal_only:
        behs = maximal(behs)
    return r, behs


def maximal(behs):
    """drop behaviours that are a proper prefix of another one"""
    keys = [json.dumps(b, sort_keys=True) for b in behs]
    prefixes = set()
    for b in behs:
        for n in range(len(b)):
            prefixes.add(json.dumps(b[:n], sort_keys=True))
    seen = set()
    res = []
    for b, k in zip(behs, keys):
        if k in prefixes or k in seen:
            continue
        seen.add(k)
        res.append(b)
    return res


def validate_traces(module, traces, cfg=None, *, extra_env=None, timeout=900, dfs=False, chunk=4000,
                    collect=None):
    """code -> spec.  `traces` is a list of traces, each a list of event dicts.
    Trace_<X>.tla reads them from IOEnv.TRACE_FILE and prints
       <<"ACCEPT", t>>                       trace t is a behaviour of the spec
       <<"REJECT", t, l, "clause">>         event l of trace t is not explained
    returns (verdicts, states, transitions); verdicts[t] = None | (l, clause)"""
    verdicts = {}
    states = trans = 0
    extra = {tag: [] for tag in (collect or ())}
    for base in range(0, len(traces), chunk):
        part = traces[base:base + chunk]
        d = tempfile.mkdtemp(prefix='trace-')
        try:
            f = Path(d) / 'traces.json'
            f.write_text(json.dumps(part))
            env = {'TRACE_FILE': str(f)}
            env.update(extra_env or {})
            r = run_tlc(module, cfg, workers=1, env=env, timeout=timeout, dfs=dfs, deadlock=False)
            if r.violated and r.violated[0] != 'invariant':
                raise MachineryError(f'trace validation {module} broke: {r.violated}\n{r.out[-3000:]}')
            if not r.ok and not r.violated:
                raise MachineryError(f'trace validation {module} failed: {r.error}\n{r.out[-3000:]}')
            states += r.distinct
            trans += r.generated
            for tag in extra:
                for x in r.printed_tuples(tag):
                    extra[tag].append([base + x[0] - 1] + x[1:])
            acc = {x[0] for x in r.printed_tuples('ACCEPT')}
            rej = {}
            for x in r.printed_tuples('REJECT'):
                rej.setdefault(x[0], (x[1], x[2] if len(x) > 2 else ''))
            for i in range(len(part)):
                t = i + 1
                if t in rej:
                    verdicts[base + i] = rej[t]
                elif t in acc:
                    verdicts[base + i] = None
                else:
                    verdicts[base + i] = (-1, 'no verdict printed (trace spec stuck)')
        finally:
            shutil.rmtree(d, ignore_errors=True)
    if collect:
        return verdicts, states, trans, extra
    return verdicts, states, trans


# ------------------------------------------------------------------ known findings

class KnownFindings:
    def __init__(self):
        f = VERIF / 'known_findings.json'
        self.entries = json.loads(f.read_text())['findings'] if f.exists() else []
        for frag in sorted((VERIF / 'findings.d').glob('*.json')) if (VERIF / 'findings.d').exists() else []:
            self.entries += json.loads(frag.read_text())['findings']

    def match(self, prop, sig):
        """open entry whose signature is contained in sig"""
        for e in self.entries:
            if e.get('property') != prop or e.get('status') != 'open':
                continue
            if all(sig.get(k) == v for k, v in e['signature'].items()):
                return e
        return None


# ------------------------------------------------------------------------ verdicts

class Check:
    """one run of one property's check; collects coverage, violations, evidence"""

    def __init__(self, prop, tier, seed, keep_replays=False):
        self.prop = prop
        self.tier = tier
        self.seed = seed
        self.t0 = time.time()
        self.states = 0
        self.transitions = 0
        self.impl_traces = 0       # executions of the real code compared step by step
        self.evaluations = 0
        self.distinct = set()
        self.samples = []
        self.violations = []       # (signature, replay path)
        self.known_hit = {}        # id -> count
        self.known = KnownFindings()
        self.notes = {}
        self.assumptions = []
        self.exhaustive = None
        self.rule = ''
        if not keep_replays:
            shutil.rmtree(VERIF / 'replays' / prop, ignore_errors=True)

    # -- coverage
    def add_tlc(self, r):
        self.states += r.distinct
        self.transitions += r.generated
        self.notes.setdefault('tlc_runs', []).append(
            {'distinct': r.distinct, 'generated': r.generated, 'depth': r.depth, 'wall_s': round(r.wall, 1)})

    def case(self, key=None, nontrivial=True):
        self.evaluations += 1
        if nontrivial and key is not None:
            self.distinct.add(key if isinstance(key, (str, int, tuple)) else json.dumps(key, sort_keys=True))

    def sample(self, obj, limit=4):
        if len(self.samples) < limit:
            self.samples.append(obj)

    # -- violations
    def violation(self, sig, detail):
        """sig: dict identifying the failing input/call site/history class.
        detail: everything needed to replay (must be JSON serialisable)."""
        e = self.known.match(self.prop, sig)
        if e:
            n = self.known_hit.get(e['id'], 0)
            self.known_hit[e['id']] = n + 1
            if n == 0:
                self.notes.setdefault('known_findings_seen', []).append(e['id'])
            return False
        body = json.dumps({'property': self.prop, 'signature': sig, 'detail': detail,
                           'tier': self.tier, 'seed': self.seed}, sort_keys=True, indent=1, default=str)
        h = hashlib.sha1(json.dumps(sig, sort_keys=True, default=str).encode()).hexdigest()[:12]
        d = VERIF / 'replays' / self.prop
        d.mkdir(parents=True, exist_ok=True)
        path = d / f'{h}.json'
        if not any(p == str(path) for _, p in self.violations):
            path.write_text(body)
            self.violations.append((sig, str(path)))
        return True

    # -- finish
    def finish(self, level='model_checking'):
        ev = {
            'property_id': self.prop, 'tier': self.tier, 'seed': self.seed, 'level': level,
            'coverage': {
                'states': self.states, 'transitions': self.transitions,
                'traces_validated_against_impl': self.impl_traces,
                'evaluations': self.evaluations,
                'distinct_nontrivial': len(self.distinct),
                'rule': self.rule,
                'samples': self.samples or ['(none)'],
            },
            'assumptions': self.assumptions,
            'wall_s': round(time.time() - self.t0, 2),
            'violations': len(self.violations),
        }
        if self.exhaustive is not None:
            ev['coverage']['exhaustive'] = self.exhaustive
        ev['coverage'].update(self.notes)
        evdir = Path(os.environ.get('VERIF_EVIDENCE_DIR') or VERIF / 'evidence')     # seed tests write elsewhere
        if self.prop.startswith('X'):
            evdir = evdir / 'extra'      # growth modules beyond the listed properties (not in MANIFEST.checks)
        evdir.mkdir(parents=True, exist_ok=True)
        (evdir / f'{self.prop}.json').write_text(json.dumps(ev, indent=1, default=str) + '\n')
        for e in self.known.entries:
            if e.get('property') == self.prop and e.get('status') == 'open' and e['id'] in self.known_hit:
                print(f"KNOWN-FINDING: property={self.prop} {e['id']}: {e['what']} "
                      f"(seen {self.known_hit[e['id']]}x)")
        for sig, path in self.violations:
            print(f'VIOLATION property={self.prop} replay={path}')
            print('   signature: ' + json.dumps(sig, sort_keys=True, default=str)[:600])
        print(f'{self.prop} {self.tier}: states={self.states} impl_traces={self.impl_traces} '
              f'evaluations={self.evaluations} violations={len(self.violations)} '
              f'wall={ev["wall_s"]}s')
        return 1 if self.violations else 0


def run_parallel(thunks, width=4):
    """run independent TLC invocations (callables) side by side; results in order, first exception re-raised"""
    from concurrent.futures import ThreadPoolExecutor
    if os.environ.get('VERIF_PROCS') == '1' or len(thunks) <= 1:
        return [t() for t in thunks]
    with ThreadPoolExecutor(max_workers=width) as ex:
        futs = [ex.submit(t) for t in thunks]
        return [f.result() for f in futs]


def pool_map(fn, items, procs=None, chunksize=None):
    """map in fresh worker processes (spawned by fork before frappy state is touched)"""
    import multiprocessing as mp
    procs = procs or int(os.environ.get('VERIF_PROCS', min(NCPU, 16)))
    if len(items) <= 1 or procs == 1:
        return [fn(x) for x in items]
    ctx = mp.get_context('fork')
    import gc
    # the parent may hold gigabytes of recorded traces (thorough tiers): keep the children's garbage collector from
    # touching - and thereby un-sharing - every inherited object (16 workers x 10 GB ended in the OOM killer, and a
    # Pool whose worker was killed never returns)
    gc.collect()
    gc.freeze()
    pool = ctx.Pool(procs, maxtasksperchild=None)
    gc.unfreeze()
    try:
        out = pool.map(fn, items, chunksize or max(1, len(items) // (procs * 4)))
        pool.close()        # let the workers end by themselves (tools/cov.sh collects their line coverage at exit)
        pool.join()
        return out
    finally:
        pool.terminate()
