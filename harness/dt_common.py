"""Shared glue for C01 C02 C03 (spec/Datatypes.tla): gamma (abstract -> real frappy objects),
alpha (real results -> abstract values), execution of one case on the real datatype.

Nothing in here decides correctness: verdicts are membership in the outcome set TLC printed
(Gen_Datatypes) or TLC's judgement of a recorded case (Trace_Datatypes).
"""
import base64
import binascii
import json
import math
import sys
from fractions import Fraction

U = 16
HUGE = 1 << 26
NOLIM = 1 << 30
FMAX = sys.float_info.max
FAR = 1 << 27
NEAR = 1 << 20
# integers beyond 2^53 are python ints everywhere (never floats): anchor + offset, see Datatypes.tla
ANCHORS = {-2: -(1 << 64), -1: -(1 << 63), 0: 0, 1: 1 << 53, 2: 10 ** 18, 3: 1 << 63, 4: 1 << 64}


# scales of the gscaled kind: the exact float behind each scale id of Datatypes.tla
SCALES = {'0.1': 0.1, '0.2': 0.2, '0.01': 0.01, '0.003': 0.003, '1/3': 1 / 3, '2^-20': 2.0 ** -20,
          '1.000001e-3': 1.000001e-3, '0.0254/4096': 0.0254 / 4096, '7': 7.0, '1e6': 1e6}
# scales of the bscaled kind (integer range up to 2^53, power-of-two scale: every grid point is a double)
BIG_SCALES = {'1': 1.0, '0.5': 0.5, '8': 8.0}
SCALES.update(BIG_SCALES)
SCALE_IDS = {v: k for k, v in SCALES.items()}
GANCHORS = {-2: -(1 << 53), -1: -(1 << 52), 0: 0, 1: 1 << 52, 2: 1 << 53}


def gpos_int(a, d):
    if abs(d) == FAR:
        return GANCHORS[a] + (1 << 40) * (1 if d > 0 else -1)
    return GANCHORS[a] + d


def int_gpos(n):
    """python int -> grid position (a, d) of the bscaled kind: exact near an anchor, else 'far above anchor a'"""
    keys = sorted(GANCHORS)
    if abs(n) < HUGE:
        return 0, n
    if n < GANCHORS[keys[0]] - NEAR:
        return keys[0], -FAR
    for a in keys:
        if abs(n - GANCHORS[a]) <= NEAR:
            return a, n - GANCHORS[a]
    return max(a for a in keys if GANCHORS[a] < n), FAR


def big_abs(x, scale, j):
    """number at a bscaled position -> gint (wire integer) / bgnum (float on the grid), or None when not on the grid"""
    q = Fraction(x) / Fraction(scale) if j == 'bgnum' else Fraction(x)
    if q.denominator != 1:
        return None
    a, d = int_gpos(int(q))
    return {'j': j, 'a': a, 'd': d}



def grid_abs(x, scale, src='num'):
    """python number at a gscaled position -> gnum in quarter grid steps (exact rational classification);
    the grid point n is the float n*scale, exactly what import_value / __call__ compute"""
    fx, fs = Fraction(x), Fraction(scale)
    u = 4 * fx / fs
    if abs(u) >= HUGE:
        return {'j': 'gnum', 'q': HUGE if u > 0 else -HUGE, 'ix': True, 'src': src}
    n = round(fx / fs)
    if float(x) == n * scale:
        return {'j': 'gnum', 'q': 4 * n, 'ix': False, 'src': src}
    r = round(u)
    if abs(u - r) * (1 << 40) <= max(1, abs(u)) and r % 4:
        return {'j': 'gnum', 'q': r, 'ix': False, 'src': src}       # a quarter / half grid point (up to float rounding)
    return {'j': 'gnum', 'q': math.floor(u), 'ix': True, 'src': src}


def grid_value(c, scale):
    """gnum -> python float"""
    if abs(c['q']) >= HUGE:
        return math.copysign(scale * 2.0 ** 40, c['q'])
    if not c['ix'] and c['q'] % 4 == 0:
        return (c['q'] // 4) * scale
    return float(Fraction(2 * c['q'] + (1 if c['ix'] else 0), 8) * Fraction(scale))


def relativise(c, conc, dt, path):
    """numbers offered from python (not on the wire) to a gscaled position are measured in its grid units"""
    if dt is None:
        return c
    k = dt['k']
    if k == 'bscaled':
        if isinstance(conc, bool):
            return c
        if path == 'wire':
            return big_abs(conc, 1, 'gint') if isinstance(conc, int) else c
        if isinstance(conc, int) and abs(conc) > 2 ** 53 and float(conc) != conc:
            return c          # not a double: the conversion to float is not decided by the model (case skipped as ungrounded)
        if isinstance(conc, int) or (isinstance(conc, float) and math.isfinite(conc)):
            return big_abs(conc, SCALES[dt['sid']], 'bgnum') or c
        return c
    if path == 'wire' and not has_kind(dt, 'bscaled'):
        return c
    if k == 'gscaled':
        if path == 'wire':
            return c
        frappy()
        from frappy.lib.enum import EnumMember
        src = 'bool' if isinstance(conc, bool) else 'member' if isinstance(conc, EnumMember) else 'num'
        v = conc.value if isinstance(conc, EnumMember) else conc
        if isinstance(v, (bool, int)) or (isinstance(v, float) and math.isfinite(v)):
            return grid_abs(int(v) if isinstance(v, bool) else v, SCALES[dt['sid']], src)
        return c
    try:
        if c['j'] == 'list' and k in ('array', 'tuple'):
            return {'j': 'list', 'xs': [relativise(x, conc[i], sub_type(dt, c, i), path) for i, x in enumerate(c['xs'])]}
        if c['j'] == 'obj' and k == 'struct':
            return {'j': 'obj', 'kv': [{'k': e['k'], 'v': relativise(e['v'], conc[e['k']], sub_type(dt, c, e['k']), path)}
                                       for e in c['kv']]}
    except (TypeError, KeyError, IndexError):
        pass
    return c


def has_kind(dt, kind):
    k = dt['k']
    if k == kind:
        return True
    if k == 'array':
        return has_kind(dt['el'], kind)
    if k == 'tuple':
        return any(has_kind(e, kind) for e in dt['els'])
    if k == 'struct':
        return any(has_kind(m['t'], kind) for m in dt['mem'])
    return False


def ungrounded(dt, c, path):
    """mirror of Ungrounded / UngroundedW / HasGnum / HasGint of Datatypes.tla: a case the model does not decide"""
    if dt is None:
        return False
    k, j = dt['k'], c['j']
    if j in ('gnum', 'bgnum') and path == 'wire' or j == 'gint' and path != 'wire':
        return True
    if k in ('gscaled', 'bscaled') and path != 'wire':
        return j in ('int', 'num', 'bint', 'bool', 'member', 'fmax')
    if k == 'bscaled':
        return (j == 'int' and abs(c['n']) >= HUGE) or j == 'bint' or (j == 'num' and abs(c['t']) >= HUGE)
    if j == 'list' and k in ('array', 'tuple'):
        return any(ungrounded(sub_type(dt, c, i), x, path) for i, x in enumerate(c['xs']))
    if j == 'obj' and k == 'struct':
        return any(ungrounded(sub_type(dt, c, e['k']), e['v'], path) for e in c['kv'])
    return False


def pos_int(a, d):
    """position -> the python int (a representative for the 'far' class)"""
    if abs(d) == FAR:
        return ANCHORS[a] + (1 << 40) * (1 if d > 0 else -1)
    return ANCHORS[a] + d


def int_pos(n):
    """python int -> position (a, d): exact near an anchor, else the class 'far above anchor a'"""
    if abs(n) < HUGE:
        return 0, n
    keys = sorted(ANCHORS)
    if n < ANCHORS[keys[0]] - NEAR:
        return keys[0], -FAR
    for a in keys:
        if abs(n - ANCHORS[a]) <= NEAR:
            return a, n - ANCHORS[a]
    below = max(a for a in keys if ANCHORS[a] < n)
    return below, FAR

NONE = {'j': 'none'}


def safe(fn, arg):
    """run fn(arg) in a pool worker; exceptions of frappy classes cannot be unpickled by the parent"""
    try:
        return fn(arg)
    except Exception as e:   # noqa
        import traceback
        raise RuntimeError('worker failed: %r\n%s' % (e, traceback.format_exc())) from None


def key(x):
    return json.dumps(x, sort_keys=True, separators=(',', ':'))


# ----------------------------------------------------------------------- gamma: types

def frappy():
    from .env import boot
    boot()
    import frappy.datatypes as fd
    return fd


def build_type(dt):
    """abstract type record -> frappy datatype built with the constructors"""
    fd = frappy()
    k = dt['k']
    if k == 'double':
        kw = {'absolute_resolution': dt['abs'] / U}
        if dt['rel'] >= 0:          # -1: frappy's default relative resolution (1.2e-7)
            kw['relative_resolution'] = dt['rel'] * 0.125
        if dt.get('unit'):
            kw['unit'] = dt['unit']
        if dt.get('fmt', '%g') != '%g':
            kw['fmtstr'] = dt['fmt']
        return fd.FloatRange(None if dt['min'] == -NOLIM else dt['min'] / U,
                             None if dt['max'] == NOLIM else dt['max'] / U, **kw)
    if k == 'int':
        if dt['min'] == fd.DEFAULT_MIN_INT and dt['max'] == fd.DEFAULT_MAX_INT:
            return fd.IntRange()                   # the default limits
        return fd.IntRange(dt['min'], dt['max'])
    if k == 'command':
        return fd.CommandType(None if dt['arg']['k'] == 'none' else build_type(dt['arg']),
                              None if dt['res']['k'] == 'none' else build_type(dt['res']))
    if k == 'none':
        return None
    if k == 'bscaled':
        sc = SCALES[dt['sid']]
        kw = {}
        if dt.get('abs', -1) >= 0:
            kw['absolute_resolution'] = dt['abs'] / U
        if dt.get('rel', -1) >= 0:
            kw['relative_resolution'] = dt['rel'] * 0.125
        if dt.get('unit'):
            kw['unit'] = dt['unit']
        if dt.get('fmt', '%g') != '%g':
            kw['fmtstr'] = dt['fmt']
        return fd.ScaledInteger(sc, gpos_int(dt['min']['a'], dt['min']['d']) * sc, gpos_int(dt['max']['a'], dt['max']['d']) * sc, **kw)
    if k == 'gscaled':
        sc = SCALES[dt['sid']]
        kw = {}
        if dt.get('abs', -1) >= 0:
            kw['absolute_resolution'] = dt['abs'] / U
        if dt.get('rel', -1) >= 0:
            kw['relative_resolution'] = dt['rel'] * 0.125
        if dt.get('unit'):
            kw['unit'] = dt['unit']
        if dt.get('fmt', '%g') != '%g':
            kw['fmtstr'] = dt['fmt']
        return fd.ScaledInteger(sc, dt['min'] * sc, dt['max'] * sc, **kw)     # limits on the grid: the floats n*scale
    if k == 'bigint':
        return fd.IntRange(pos_int(dt['min']['a'], dt['min']['d']), pos_int(dt['max']['a'], dt['max']['d']))
    if k == 'scaled':
        kw = {}
        if 'abs' in dt and dt['abs'] != dt['scale']:
            kw['absolute_resolution'] = dt['abs'] / U
        if dt.get('rel', -1) >= 0:
            kw['relative_resolution'] = dt['rel'] * 0.125
        if dt.get('unit'):
            kw['unit'] = dt['unit']
        if dt.get('fmt', '%g') != '%g':
            kw['fmtstr'] = dt['fmt']
        return fd.ScaledInteger(dt['scale'] / U, dt['min'] / U, dt['max'] / U, **kw)
    if k == 'bool':
        return fd.BoolType()
    if k == 'enum':
        return fd.EnumType('e', **{m['n']: m['v'] for m in dt['mem']})
    # where the shape allows it the short constructor forms are used (one length = exactly that size,
    # no optional list = all members optional): they must denote the same type
    if k == 'string':
        if dt.get('text'):
            return fd.TextType(None if dt['maxc'] == NOLIM else dt['maxc'])
        if dt['minc'] == dt['maxc'] and dt['minc'] > 0 and not dt['utf8']:
            return fd.StringType(dt['minc'])
        return fd.StringType(dt['minc'], fd.UNLIMITED if dt['maxc'] == NOLIM else dt['maxc'], isUTF8=dt['utf8'])
    if k == 'blob':
        if dt['minb'] == dt['maxb'] and dt['minb'] > 0:
            return fd.BLOBType(dt['minb'])
        return fd.BLOBType(dt['minb'], dt['maxb'])
    if k == 'array':
        if dt['minlen'] == dt['maxlen'] and dt['minlen'] > 0:
            return fd.ArrayOf(build_type(dt['el']), dt['minlen'])
        return fd.ArrayOf(build_type(dt['el']), dt['minlen'], dt['maxlen'])
    if k == 'tuple':
        if dt.get('limit'):
            return fd.LimitsType(build_type(dt['els'][0]))
        if dt.get('status'):      # tuple(enum of standard status codes, string) built by the convenience class
            return fd.StatusType(*[m['n'] for m in dt['els'][0]['mem']])
        return fd.TupleOf(*[build_type(e) for e in dt['els']])
    if k == 'struct':
        members = {m['n']: build_type(m['t']) for m in dt['mem']}
        if sorted(dt['opt']) == sorted(members):
            return fd.StructOf(**members)
        return fd.StructOf(optional=list(dt['opt']), **members)
    raise ValueError(k)


def second_object(obj, dt):
    """the other object every case is executed on: the type rebuilt from its description - or, for types holding a
    LimitsType (described as a plain tuple, the ordering cannot be rebuilt), its copy()"""
    if has_limit(dt):
        return obj.copy()
    try:
        return rebuild_type(obj)
    except Exception:   # noqa: a description that cannot be rebuilt is C03's (and C02's) business
        return obj


def try_rebuild(obj):
    """rebuild_type, or None when the description is refused"""
    try:
        return rebuild_type(obj)
    except Exception:   # noqa
        return None


def rebuild_type(obj):
    """the client's view: datatype rebuilt from the JSON round trip of the description"""
    fd = frappy()
    return fd.get_datatype(json.loads(json.dumps(obj.export_datatype())), 'par')      # as the client does, with a parameter name


# ---------------------------------------------------------------------- gamma: values

def synth_str(c):
    """concrete text of a string descriptor"""
    if c['name']:
        return c['name']
    n = c['len']
    if c['cls'] == 'utf8':
        return 'é' + 'z' * (n - 1)
    if c['cls'] == 'nul':
        return '\0' + 'z' * (n - 1)
    if c['cls'] == 'esc':
        return ('"\\\n\'' * n)[:n]
    if c['blen'] >= 0:
        return base64.b64encode(bytes((251 + 4 * i) % 256 for i in range(c['blen']))).decode()
    return 'z' * n


def sub_type(dt, c, i):
    """abstract type at position i (index or key) of candidate c offered to dt, or None"""
    if dt is None or c is None:
        return None
    if c['j'] == 'list' and isinstance(i, int):
        if dt['k'] == 'array':
            return dt['el']
        if dt['k'] == 'tuple' and i < len(dt['els']):
            return dt['els'][i]
    if c['j'] == 'obj' and dt['k'] == 'struct':
        for m in dt['mem']:
            if m['n'] == i:
                return m['t']
    return None


def concrete(c, dt=None, obj=None, internal=False):
    """abstract candidate -> python value. dt/obj: the (abstract, real) type at this position
    (needed for enum members). internal=True: the form a parameter holds (tuple, ImmutableDict)."""
    fd = frappy()
    j = c['j']
    if j == 'null' or j == 'none':
        return None
    if j == 'bool':
        return c['b']
    if j == 'int':
        if abs(c['n']) >= HUGE:
            return (1 << 80) * (1 if c['n'] > 0 else -1)
        return c['n']
    if j == 'bint':
        return pos_int(c['a'], c['d'])
    if j == 'gnum':
        return grid_value(c, SCALES[dt['sid']]) if dt is not None and dt['k'] == 'gscaled' else 0.0
    if j == 'gint':
        return gpos_int(c['a'], c['d'])
    if j == 'bgnum':
        return gpos_int(c['a'], c['d']) * (SCALES[dt['sid']] if dt is not None and dt['k'] == 'bscaled' else 1.0)
    if j == 'num':
        t = c['t']
        if abs(t) >= HUGE:
            s = 1.0 if t > 0 else -1.0
            return s * 2.0 ** 80 if c['w'] else s * (2.0 ** 30 + 0.5)
        return (t + 0.5) / U if c['ix'] else t / U
    if j == 'special':
        return {'nan': math.nan, 'pinf': math.inf, 'ninf': -math.inf}[c['s']]
    if j == 'fmax':
        return FMAX * c['s']
    if j == 'str':
        return synth_str(c)
    if j == 'bytes':
        return bytes((251 + 4 * i) % 256 for i in range(c['len']))
    if j == 'member':
        if obj is not None and isinstance(obj, fd.EnumType):
            for m in obj._enum.members:
                if m.value == c['n'] and m.name == c['name']:
                    return m
        from frappy.lib.enum import Enum
        return Enum('foreign', **{c['name']: c['n']})[c['name']]
    if j == 'list':
        res = []
        for i, x in enumerate(c['xs']):
            sdt = sub_type(dt, c, i)
            sobj = None
            if obj is not None and sdt is not None:
                sobj = obj.members if dt['k'] == 'array' else obj.members[i]
            res.append(concrete(x, sdt, sobj, internal))
        return tuple(res) if internal else res
    if j == 'obj':
        res = {}
        for e in c['kv']:
            sdt = sub_type(dt, c, e['k'])
            sobj = obj.members[e['k']] if obj is not None and sdt is not None else None
            res[e['k']] = concrete(e['v'], sdt, sobj, internal)
        return fd.ImmutableDict(res) if internal else res
    raise ValueError(j)


# ------------------------------------------------------------------------------ alpha

def num_abs(x):
    """python float -> abstract number (exact rational classification)"""
    if math.isnan(x):
        return {'j': 'special', 's': 'nan'}
    if math.isinf(x):
        return {'j': 'special', 's': 'pinf' if x > 0 else 'ninf'}
    f = Fraction(x)
    whole = f.denominator == 1
    ft = f * U
    if abs(ft) >= HUGE:
        return {'j': 'num', 't': HUGE if ft > 0 else -HUGE, 'ix': True, 'w': whole}
    t = math.floor(ft)
    return {'j': 'num', 't': t, 'ix': ft != t, 'w': whole}


def int_abs(n):
    """python int -> abstract (no float anywhere): small, anchored big integer, or beyond all anchors"""
    if abs(n) < HUGE:
        return {'j': 'int', 'n': n}
    if n > ANCHORS[4] + NEAR or n < ANCHORS[-2] - NEAR:
        return {'j': 'int', 'n': HUGE if n > 0 else -HUGE}
    a, d = int_pos(n)
    return {'j': 'bint', 'a': a, 'd': d}


def bint_abs(n):
    """python int as a value of a bigint type: always a position"""
    a, d = int_pos(n)
    return {'j': 'bint', 'a': a, 'd': d}


def str_abs(s, literal=False):
    cls = 'nul' if '\0' in s else 'utf8' if not s.isascii() else 'esc' if any(ch in s for ch in '"\\\n') else 'ascii'
    try:
        blen = len(base64.b64decode(s.encode('ascii'), validate=True)) if cls in ('ascii', 'esc') else -1
    except (binascii.Error, ValueError):
        blen = -1
    return {'j': 'str', 'cls': cls, 'len': len(s), 'blen': blen, 'name': s if literal else ''}


def cand_abs(v, literal=lambda s: False):
    """python candidate value -> abstract candidate (used for randomly generated concrete values)"""
    frappy()
    from frappy.lib.enum import EnumMember
    if v is None:
        return {'j': 'null'}
    if isinstance(v, bool):
        return {'j': 'bool', 'b': v}
    if isinstance(v, EnumMember):
        return {'j': 'member', 'n': v.value, 'name': v.name}
    if isinstance(v, int):
        return int_abs(v)
    if isinstance(v, float):
        return num_abs(v)
    if isinstance(v, str):
        return str_abs(v, literal(v))
    if isinstance(v, bytes):
        return {'j': 'bytes', 'len': len(v)}
    if isinstance(v, (list, tuple)):
        return {'j': 'list', 'xs': [cand_abs(x, literal) for x in v]}
    if isinstance(v, dict):
        return {'j': 'obj', 'kv': [{'k': k, 'v': cand_abs(x, literal)} for k, x in v.items()]}
    raise ValueError(type(v))


ALTERED = {'j': 'altered'}


def gamma_alpha_ok(c):
    """trusted-base self check: alpha(gamma(c)) = c for a candidate TLC enumerated"""
    conc = concrete(c)
    return _same_abs(c, cand_abs(conc), conc)


def typed_gamma_alpha_ok(c, dt):
    """alpha(gamma(c)) = c for the grid-relative numbers of a gscaled type"""
    if dt['k'] == 'bscaled' and c['j'] in ('gint', 'bgnum'):
        return big_abs(concrete(c, dt), SCALES[dt['sid']], c['j']) == c
    if dt['k'] != 'gscaled' or c['j'] != 'gnum':
        return True
    return grid_abs(concrete(c, dt), SCALES[dt['sid']]) == c


def _same_abs(c, a, conc):
    if c['j'] in ('gnum', 'gint', 'bgnum'):
        return True          # relative to its type: checked by typed_gamma_alpha_ok
    if c['j'] == 'str':
        return a['j'] == 'str' and all(a[f] == c[f] for f in ('cls', 'len', 'blen')) and (not c['name'] or conc == c['name'])
    if c['j'] == 'list':
        return a['j'] == 'list' and len(a['xs']) == len(c['xs']) and \
            all(_same_abs(x, y, z) for x, y, z in zip(c['xs'], a['xs'], conc))
    if c['j'] == 'obj':
        return a['j'] == 'obj' and [e['k'] for e in a['kv']] == [e['k'] for e in c['kv']] and \
            all(_same_abs(x['v'], y['v'], conc[x['k']]) for x, y in zip(c['kv'], a['kv']))
    return a == c


def _same_number(res, conc):
    if isinstance(conc, bool):
        conc = int(conc)
    frappy()
    from frappy.lib.enum import EnumMember
    if isinstance(conc, EnumMember):
        conc = conc.value
    if not isinstance(conc, (int, float)) or (isinstance(conc, float) and not math.isfinite(conc)):
        return False
    return Fraction(res) == Fraction(conc)


def _close(res, conc):
    """huge magnitudes: equal up to 2^-20 relative (rounding onto a grid / to float)"""
    if isinstance(conc, bool) or not isinstance(conc, (int, float)):
        return False
    if isinstance(conc, float) and not math.isfinite(conc):
        return False
    return abs(Fraction(res) - Fraction(conc)) * (1 << 20) <= abs(Fraction(conc))


def alpha(res, dt, ac, conc, pa=None, pconc=None):
    """result of the real code -> abstract value.
    dt: abstract type at this position (member order of structs), ac / conc: the abstract and the
    concrete candidate at the same position (None when the shapes do not correspond), pa / pconc:
    the previous value at this position (struct members may be filled from it).
    Lossy abstractions (inexact ticks, clipped magnitudes, text, bytes) are only used when the
    result is identical to the candidate; otherwise the value is reported as 'altered'."""
    frappy()
    from frappy.lib.enum import EnumMember
    if res is None:
        return {'j': 'null'}
    if isinstance(res, bool):
        return {'j': 'bool', 'b': res}
    if isinstance(res, EnumMember):
        return {'j': 'member', 'n': res.value, 'name': res.name}
    if isinstance(res, (int, float)) and not isinstance(res, bool) and dt is not None and dt['k'] == 'bscaled' \
            and (isinstance(res, int) or math.isfinite(res)):
        # a float is a grid point (anchor + d) * scale, an int (exported / wire form) the grid index itself: exact integers
        a = big_abs(res, SCALES[dt['sid']], 'bgnum' if isinstance(res, float) else 'gint')
        if a is None:
            return {'j': 'off-grid'}
        if abs(a['d']) == FAR:       # a class only stands for the very grid point offered (index and value differ by the scale)
            sc = Fraction(SCALES[dt['sid']])
            if isinstance(conc, bool) or not isinstance(conc, (int, float)) or (isinstance(conc, float) and not math.isfinite(conc)):
                return ALTERED
            res_idx = Fraction(res) if isinstance(res, int) else Fraction(res) / sc          # an int result is the exported index
            conc_idx = Fraction(conc) if ac is not None and ac.get('j') == 'gint' else Fraction(conc) / sc   # a gint candidate is a wire index
            if res_idx != conc_idx:
                return ALTERED
        return a
    if isinstance(res, int):
        if dt is not None and dt['k'] == 'bigint':
            a = bint_abs(res)
            lossy = abs(a['d']) == FAR
        else:
            # for a type with small limits every big integer is the class +-HUGE
            a = {'j': 'int', 'n': res} if abs(res) < HUGE else {'j': 'int', 'n': HUGE if res > 0 else -HUGE}
            if dt is None and abs(res) >= HUGE:
                a = int_abs(res)
            lossy = abs(res) >= HUGE and (a['j'] == 'int' or abs(a['d']) == FAR)
        if lossy and not _same_number(res, conc):
            return ALTERED       # a class only stands for the very integer that was offered
        return a
    if isinstance(res, float) and dt is not None and dt['k'] == 'gscaled' and math.isfinite(res):
        a = grid_abs(res, SCALES[dt['sid']])
        if a['ix'] and not _same_number(res, conc):
            return a if abs(a['q']) >= HUGE and _close(res, conc) else ALTERED
        return a
    if isinstance(res, float):
        if abs(res) == FMAX and not _same_number(res, conc):
            return {'j': 'fmax', 's': 1 if res > 0 else -1}
        a = num_abs(res)
        if a['j'] == 'num' and a['ix'] and not _same_number(res, conc):
            if abs(a['t']) >= HUGE and _close(res, conc):
                return a
            return ALTERED
        return a
    if isinstance(res, str):
        if isinstance(conc, str) and res == conc and ac is not None and ac['j'] == 'str':
            return ac
        if isinstance(conc, bytes):        # exported form of bytes: the text must decode to exactly these bytes
            try:
                if base64.b64decode(res.encode('ascii'), validate=True) == conc:
                    return str_abs(res)
            except (binascii.Error, ValueError):
                pass
        return ALTERED
    if isinstance(res, bytes):
        if isinstance(conc, bytes):
            return {'j': 'bytes', 'len': len(res)} if conc == res else ALTERED
        if isinstance(conc, str):
            try:
                dec = base64.b64decode(conc.encode('ascii'), validate=True)
            except (binascii.Error, ValueError):
                return {'j': 'bytes', 'len': len(res)}   # the spec allows no Ok at all for undecodable text
            return {'j': 'bytes', 'len': len(res)} if dec == res else ALTERED
        return ALTERED
    if isinstance(res, (tuple, list)):
        match = ac is not None and ac['j'] == 'list' and isinstance(conc, (list, tuple)) and len(conc) == len(res)
        pm = pa is not None and pa['j'] == 'list' and isinstance(pconc, (list, tuple))
        xs = []
        for i, r in enumerate(res):
            sdt = sub_type(dt, ac, i)
            hp = pm and i < len(pa['xs']) and i < len(pconc)
            xs.append(alpha(r, sdt, ac['xs'][i] if match else None, conc[i] if match else None,
                            pa['xs'][i] if hp else None, pconc[i] if hp else None))
        return {'j': 'list', 'xs': xs}
    if isinstance(res, dict):
        order = [m['n'] for m in dt['mem']] if dt is not None and dt['k'] == 'struct' else []
        keys = [k for k in order if k in res] + sorted(k for k in res if k not in order)
        cmap = {e['k']: e['v'] for e in ac['kv']} if ac is not None and ac['j'] == 'obj' else {}
        pmap = {e['k']: e['v'] for e in pa['kv']} if pa is not None and pa['j'] == 'obj' else {}
        kv = []
        for k in keys:
            cc = conc.get(k) if isinstance(conc, dict) else None
            pc = pconc.get(k) if isinstance(pconc, dict) else None
            sdt = sub_type(dt, ac, k)
            if cc is None and k in pmap:      # not offered: may be copied from the previous value
                kv.append({'k': str(k), 'v': alpha(res[k], sdt, pmap[k], pc, pmap[k], pc)})
            else:
                kv.append({'k': str(k), 'v': alpha(res[k], sdt, cmap.get(k), cc, pmap.get(k), pc)})
        return {'j': 'obj', 'kv': kv}
    return {'j': 'pyobject:' + type(res).__name__}


def alpha_internal(res, dt):
    """abstract value of an internal (already validated) value, identity-free (for prev, ValueSet)"""
    return alpha(res, dt, _self_abs(res), res)


def _self_abs(v):
    try:
        return cand_abs(v)
    except ValueError:
        return None


def outcome_of(fn, dt, ac, conc, pa=None, pconc=None):
    """run fn(); project the result or the exception"""
    frappy()
    from frappy.errors import RangeError, WrongTypeError
    try:
        res = fn()
    except WrongTypeError:
        return {'ok': False, 'e': 'WrongType'}, None
    except RangeError:
        return {'ok': False, 'e': 'RangeError'}, None
    except Exception as e:   # noqa: every exception class is an observable outcome here
        return {'ok': False, 'e': 'OTHER:' + type(e).__name__}, None
    return {'ok': True, 'v': alpha(res, dt, ac, conc, pa, pconc)}, res


def wire_value(conc):
    """what the wire delivers: the JSON round trip of the candidate (NaN/Infinity tokens kept)"""
    return json.loads(json.dumps(conc))


def run_case(obj, dt, c, p, path, conc=None, prev=None):
    """execute one case on the real datatype -> (outcome, raw result).
    conc / prev: the concrete values to use instead of the representatives gamma would build"""
    if conc is None:
        conc = concrete(c, dt, obj)
        if path == 'wire':
            conc = wire_value(conc)
    if prev is None and p['j'] != 'none':
        prev = concrete(p, dt, obj, internal=True)
    if path == 'wire':
        return outcome_of(lambda: obj.validate(obj.import_value(conc), prev), dt, c, conc, p, prev)
    if path == 'write':
        return outcome_of(lambda: obj.validate(conc, prev), dt, c, conc, p, prev)
    return outcome_of(lambda: obj(conc), dt, c, conc)


def concrete_children(dt, c, conc):
    """the concrete element values matching children(dt, c, .) or None when they cannot be indexed"""
    try:
        if dt['k'] in ('array', 'tuple') and c['j'] == 'list':
            return [conc[i] for i, _ in enumerate(c['xs']) if sub_type(dt, c, i) is not None]
        if dt['k'] == 'struct' and c['j'] == 'obj':
            return [conc[e['k']] for e in c['kv'] if sub_type(dt, c, e['k']) is not None]
    except (TypeError, KeyError, IndexError):
        pass
    return None


def revalidate(obj, dt, res, path):
    """idempotence: validating an already validated value returns it unchanged.
    (not applied to __call__: it is the type conversion of driver readings, and on the server
    side it demands all struct members, which its own results need not have)
    returns None or a description of the difference"""
    if path == 'call':
        return None
    a1 = alpha_internal(res, dt)
    o2, r2 = outcome_of(lambda: obj.validate(res), dt, _self_abs(res), res)
    if not o2['ok'] or o2['v'] != a1 or type(r2) is not type(res):
        return {'again': 'validate', 'first': a1, 'second': o2}
    return None


# ------------------------------------------------------------------- reporting helpers

def cand_class(dt, c):
    """coarse, stable class of a candidate relative to the type it is offered to (signatures only)"""
    j = c['j']
    k = dt['k']
    if k in ('array', 'tuple', 'struct') and j in ('null', 'bool', 'int', 'num', 'special', 'fmax', 'member'):
        return 'scalar'
    if k in ('array', 'tuple') and j in ('str', 'obj', 'bytes'):
        return 'nonlist'
    if k == 'struct' and j in ('str', 'list', 'bytes'):
        return 'nonobj'
    if j == 'num':
        return 'num-huge' if abs(c['t']) >= HUGE else 'num-whole' if c['w'] else 'num-frac'
    if j == 'int':
        return 'int-huge' if abs(c['n']) >= HUGE else 'int'
    if j == 'bint':
        return 'int-big'
    if j in ('gint', 'bgnum'):
        return 'grid-index-big' if c['a'] else 'grid-index'
    if j == 'gnum':
        return 'grid-huge' if abs(c['q']) >= HUGE else 'grid-point' if not c['ix'] and c['q'] % 4 == 0 else 'off-grid'
    if j == 'special':
        return 'nan' if c['s'] == 'nan' else 'inf'
    if j == 'str':
        if k == 'blob':
            return 'str-b64ok' if c['blen'] >= 0 else 'str-b64bad'
        return 'str'
    if j == 'list':
        if k == 'array':
            n = len(c['xs'])
            return 'list-short' if n < dt['minlen'] else 'list-long' if n > dt['maxlen'] else 'list'
        if k == 'tuple':
            n = len(c['xs'])
            return 'list-short' if n < len(dt['els']) else 'list-long' if n > len(dt['els']) else 'list'
        return 'list'
    if j == 'obj':
        if k == 'struct':
            names = [m['n'] for m in dt['mem']]
            keys = [e['k'] for e in c['kv']]
            if any(x not in names for x in keys):
                return 'obj-unknown-member'
            if any(e['v']['j'] == 'null' for e in c['kv']):
                return 'obj-null-member'
            if any(n not in keys and n not in dt['opt'] for n in names):
                return 'obj-missing-mandatory'
            if any(n not in keys for n in names):
                return 'obj-missing-optional'
        return 'obj'
    return j


def prev_class(c, p):
    if p['j'] == 'none':
        return 'none'
    if p['j'] == 'list' and c['j'] == 'list':
        a, b = len(p['xs']), len(c['xs'])
        return 'shorter' if a < b else 'longer' if a > b else 'equal'
    return 'some'


def children(dt, c, p):
    """sub-cases (type, candidate, previous) of a container case whose shapes correspond"""
    k = dt['k']
    res = []
    if k in ('array', 'tuple') and c['j'] == 'list':
        for i, x in enumerate(c['xs']):
            sdt = sub_type(dt, c, i)
            if sdt is not None:
                sp = p['xs'][i] if p['j'] == 'list' and i < len(p['xs']) else NONE
                res.append((sdt, x, sp))
    elif k == 'struct' and c['j'] == 'obj':
        pm = {e['k']: e['v'] for e in p['kv']} if p['j'] == 'obj' else {}
        for e in c['kv']:
            sdt = sub_type(dt, c, e['k'])
            if sdt is not None:
                res.append((sdt, e['v'], pm.get(e['k'], NONE)))
    return res


def show(v):
    """compact text of an abstract value (messages only)"""
    j = v.get('j')
    if j == 'num':
        return '%g%s' % (v['t'] / U, '~' if v['ix'] else '')
    if j == 'int':
        return 'int %d' % v['n']
    if j == 'bint':
        return 'int %s' % _pos_text(v)
    if j in ('gint', 'bgnum'):
        name = {-2: '-2^53', -1: '-2^52', 0: '0', 1: '2^52', 2: '2^53'}[v['a']]
        off = ('++' if v['d'] > 0 else '--') if abs(v['d']) == FAR else ('%+d' % v['d'] if v['d'] else '')
        return '%s %s%s' % ('index' if j == 'gint' else 'grid point', name, off)
    if j == 'gnum':
        return '%g%s grid steps' % (v['q'] / 4, '~' if v['ix'] else '')
    if j == 'bool':
        return str(v['b'])
    if j == 'str':
        return 'str(%s,len %d%s)' % (v['cls'], v['len'], ',%r' % v['name'] if v['name'] else '')
    if j == 'list':
        return '[' + ', '.join(show(x) for x in v['xs']) + ']'
    if j == 'obj':
        return '{' + ', '.join('%s: %s' % (e['k'], show(e['v'])) for e in v['kv']) + '}'
    if j == 'member':
        return '<%s=%d>' % (v['name'], v['n'])
    if j == 'bytes':
        return 'bytes[%d]' % v['len']
    if j == 'special':
        return v['s']
    if j == 'fmax':
        return '%sfloat_max' % ('-' if v['s'] < 0 else '')
    return str(j)


def _pos_text(p):
    name = {-2: '-2^64', -1: '-2^63', 0: '0', 1: '2^53', 2: '10^18', 3: '2^63', 4: '2^64'}[p['a']]
    if abs(p['d']) == FAR:
        return name + ('++' if p['d'] > 0 else '--')
    return name + ('%+d' % p['d'] if p['d'] else '')


def show_outcome(o):
    return ('Ok ' + show(o['v'])) if o['ok'] else o['e']


def show_type(dt):
    k = dt['k']
    if k == 'double':
        return 'double(%s..%s,abs=%g,rel=%g)' % ('-' if dt['min'] == -NOLIM else dt['min'] / U,
                                                 '-' if dt['max'] == NOLIM else dt['max'] / U, dt['abs'] / U, dt['rel'] / 8)
    if k == 'int':
        return 'int(%d..%d)' % (dt['min'], dt['max'])
    if k == 'bscaled':
        return 'scaled(scale %s, %s..%s steps)' % (dt['sid'], show({'j': 'gint', **dt['min']})[6:], show({'j': 'gint', **dt['max']})[6:])
    if k == 'gscaled':
        return 'scaled(scale %s, %d..%d steps)' % (dt['sid'], dt['min'], dt['max'])
    if k == 'bigint':
        return 'int(%s..%s)' % (_pos_text(dt['min']), _pos_text(dt['max']))
    if k == 'scaled':
        return 'scaled(%g,%g..%g)' % (dt['scale'] / U, dt['min'] / U, dt['max'] / U)
    if k == 'enum':
        return 'enum(%s)' % ','.join('%s=%d' % (m['n'], m['v']) for m in dt['mem'])
    if k == 'command':
        return 'command(%s -> %s)' % (show_type(dt['arg']), show_type(dt['res']))
    if k == 'none':
        return '-'
    if k == 'string' and dt.get('text'):
        return 'text(..%s)' % ('-' if dt['maxc'] == NOLIM else dt['maxc'])
    if k == 'tuple' and dt.get('limit'):
        return 'limits(%s)' % show_type(dt['els'][0])
    if k == 'string':
        return 'string(%d..%s%s)' % (dt['minc'], '-' if dt['maxc'] == NOLIM else dt['maxc'], ',utf8' if dt['utf8'] else '')
    if k == 'blob':
        return 'blob(%d..%d)' % (dt['minb'], dt['maxb'])
    if k == 'array':
        return 'array(%s,%d..%d)' % (show_type(dt['el']), dt['minlen'], dt['maxlen'])
    if k == 'tuple':
        return 'tuple(%s)' % ','.join(show_type(e) for e in dt['els'])
    if k == 'struct':
        return 'struct(%s;opt=%s)' % (','.join('%s:%s' % (m['n'], show_type(m['t'])) for m in dt['mem']), ','.join(dt['opt']))
    return k


# ------------------------------------------------------- seeded random types and values

NAMES = ['a', 'b', 'off', 'on', 'x', 'idle', 'busy']
WEIRD_NUM = [1e308, -1e308, 5e-324, -5e-324, 1e-300, 0.1, -0.1, -0.0, 1.5e300, FMAX, -FMAX,
             math.nan, math.inf, -math.inf, 2 ** 70, -(2 ** 63), 3 * 2 ** 80, 2 ** 31, 1e22, 123456.789, 1 / 3,
             2 ** 53 + 1, 2 ** 63 - 1, 2 ** 64 - 1, 10 ** 18 + 1, -(2 ** 63) - 1, 2 ** 64, 2 ** 53 - 1]
TEXTS = ['', 'a', '5', 'abc', 'é', 'a\0b', 'x' * 1000, '"quoted"', 'back\\slash', 'new\nline', '日本語', 'zz', '1.5', 'NaN',
         'YWJj', '!!!!YWJj', 'YWJ', 'YQ==', 'YQ==YQ==', 'AAEC', '  ', "it's", 'True', '[1]', 'ä' * 40]
JUNK = [None, True, False, [], {}, [1], {'a': 1}, [[1]], {'a': None}, 'abc', 5, 1.5, [None], {'zz': 1}, [[], []]]


def is_literal(s):
    """texts that are passed to TLC literally (member names, base64 samples)"""
    return 0 < len(s) <= 12 and all(ch.isalnum() or ch in '=!+/-.' for ch in s) and s.isascii()


def rand_type(rnd, depth, open_strings=False, big=True):
    kinds = ['double', 'int', 'scaled', 'bool', 'enum', 'string', 'blob'] + (['bigint', 'gscaled', 'bscaled'] if big else [])
    if depth > 0:
        kinds += ['array', 'tuple', 'struct'] * 3
    k = rnd.choice(kinds)
    if k == 'double':
        lo = rnd.randint(-4000, 4000)
        hi = lo + rnd.choice((0, 1, 16, rnd.randint(0, 5000)))
        return {'k': k, 'min': -NOLIM if rnd.random() < 0.2 else lo, 'max': NOLIM if rnd.random() < 0.2 else hi,
                'abs': rnd.choice((0, 0, 1, 4, rnd.randint(0, 64))), 'rel': rnd.choice((0, 0, 1))}
    if k == 'int':
        lo = rnd.randint(-300, 300)
        return {'k': k, 'min': lo, 'max': lo + rnd.choice((0, 1, rnd.randint(0, 600)))}
    if k == 'bscaled':    # integer range reaching 2^52 .. 2^53
        lo = rnd.choice(((-2, 0), (-2, 4), (-1, -3), (0, 0), (0, -7), (1, -2)))
        hi = rnd.choice(((2, 0), (2, -1), (2, -6), (1, 5)))
        return {'k': k, 'sid': rnd.choice(sorted(BIG_SCALES)), 'min': {'a': lo[0], 'd': lo[1]}, 'max': {'a': hi[0], 'd': hi[1]}}
    if k == 'gscaled':    # any scale of the table, limits on its grid (both signs, inexact float quotients included)
        lo = rnd.choice((0, 3, 7, -3, -7, 29, rnd.randint(-60, 60)))
        return {'k': k, 'sid': rnd.choice(sorted(set(SCALES) - set(BIG_SCALES))), 'min': lo, 'max': lo + rnd.choice((0, 1, 4, rnd.randint(0, 90), 100000))}
    if k == 'bigint':     # an int type with at least one limit beyond 2^53, declared exactly
        ps = sorted((rnd.choice((-2, -1, 0, 1, 2, 3, 4)), rnd.randint(-3, 3)) for _ in range(2))
        if all(a == 0 for a, _ in ps):
            ps[1] = (rnd.choice((1, 2, 3, 4)), ps[1][1])
        ps = [(a, abs(d)) if a == -2 else (a, -abs(d)) if a == 4 else (a, d) for a, d in ps]   # IntRange limits live in +-2^64
        ps.sort()
        return {'k': k, 'min': {'a': ps[0][0], 'd': ps[0][1]}, 'max': {'a': ps[1][0], 'd': ps[1][1]}}
    if k == 'scaled':
        s = rnd.choice((1, 2, 4, 8, 16, 32, 64))
        a = rnd.randint(-200, 200)
        return {'k': k, 'scale': s, 'min': a * s, 'max': (a + rnd.choice((0, 1, rnd.randint(0, 400)))) * s}
    if k == 'bool':
        return {'k': k}
    if k == 'enum':
        names = rnd.sample(NAMES, rnd.randint(1, 4))
        vals = rnd.sample(range(-3, 12), len(names))
        return {'k': k, 'mem': [{'n': n, 'v': v} for n, v in sorted(zip(names, vals), key=lambda x: x[1])]}
    if k == 'string':
        lo = rnd.randint(0, 4)
        # (a string type with minchars > 0 and no maxchars is not rebuilt faithfully: C03's business)
        if big and rnd.random() < 0.15:
            return {'k': k, 'minc': 0, 'maxc': rnd.choice((NOLIM, rnd.randint(1, 40))), 'utf8': False, 'text': True}   # TextType
        nolim = rnd.random() < 0.3 and (lo == 0 or open_strings)
        return {'k': k, 'minc': lo, 'maxc': NOLIM if nolim else lo + rnd.randint(0, 5), 'utf8': rnd.random() < 0.5}
    if k == 'blob':
        lo = rnd.randint(0, 4)
        if rnd.random() < 0.1:
            return {'k': k, 'minb': 0, 'maxb': 0}          # only the empty blob
        return {'k': k, 'minb': lo, 'maxb': lo + rnd.randint(0 if lo else 1, 6)}
    if k == 'array':
        lo = rnd.randint(0, 2)
        if rnd.random() < 0.1:
            return {'k': k, 'el': rand_type(rnd, depth - 1, open_strings, big), 'minlen': 0, 'maxlen': 0}   # only the empty array
        return {'k': k, 'el': rand_type(rnd, depth - 1, open_strings, big), 'minlen': lo, 'maxlen': lo + rnd.randint(0 if lo else 1, 3)}
    if k == 'tuple':
        if big and rnd.random() < 0.25:      # LimitsType over a numeric type
            el = rand_type(rnd, 0, open_strings, big)
            while el['k'] not in ('double', 'int', 'scaled', 'gscaled', 'bigint'):
                el = rand_type(rnd, 0, open_strings, big)
            return {'k': k, 'els': [el, el], 'limit': True}
        return {'k': k, 'els': [rand_type(rnd, depth - 1, open_strings, big) for _ in range(rnd.randint(1, 3))]}
    names = rnd.sample(['a', 'b', 'c'], rnd.randint(1, 3))
    return {'k': 'struct', 'mem': [{'n': n, 't': rand_type(rnd, depth - 1, open_strings, big)} for n in sorted(names)],
            'opt': sorted(n for n in names if rnd.random() < 0.5)}


def _near(rnd, ticks):
    """a float near the tick value: on it, a few ticks off, or a non-tick neighbour"""
    r = rnd.random()
    if r < 0.35:
        return (ticks + rnd.randint(-3, 3)) / U
    if r < 0.7:
        return (ticks + rnd.choice((-1, 1)) * rnd.choice((0.3, 0.013, 2.7, 1e-9, 17.5))) / U
    return ticks / U


def rand_value(rnd, dt, junk=0.2):
    """a concrete python value offered to dt: mostly of the right shape near the limits, sometimes junk"""
    k = dt['k']
    if rnd.random() < junk:
        return rnd.choice(JUNK + WEIRD_NUM + TEXTS)
    if k == 'double':
        if rnd.random() < 0.25:
            return rnd.choice(WEIRD_NUM)
        lims = [x for x in (dt['min'], dt['max']) if abs(x) != NOLIM] or [0]
        v = _near(rnd, rnd.choice(lims + [0]))
        return int(v) if v == int(v) and rnd.random() < 0.3 else v
    if k == 'int':
        if rnd.random() < 0.15:
            return rnd.choice(WEIRD_NUM)
        n = rnd.choice((dt['min'], dt['max'], 0)) + rnd.randint(-2, 2)
        return rnd.choice((n, n, float(n), n + 0.5, str(n)))
    if k == 'bscaled':
        if rnd.random() < 0.1:
            return rnd.choice(('5', None, [1], math.nan, True))
        p = rnd.choice((dt['min'], dt['max'], {'a': 2, 'd': -1}, {'a': 1, 'd': 1}, {'a': -2, 'd': 1}, {'a': 1, 'd': 0}, {'a': 0, 'd': 3}))
        n = gpos_int(p['a'], p['d']) + rnd.choice((-2, -1, 0, 0, 1, 2))
        return n if rnd.random() < 0.5 else n * SCALES[dt['sid']]      # wire form: grid index / python form: grid point
    if k == 'gscaled':
        if rnd.random() < 0.15:
            return rnd.choice(WEIRD_NUM)
        sc = SCALES[dt['sid']]
        n = rnd.choice((dt['min'], dt['max'], 0)) + rnd.randint(-2, 2)
        if rnd.random() < 0.4:      # wire form: grid index
            return rnd.choice((n, n, float(n), n + 0.7, str(n)))
        return rnd.choice((n * sc, (n + 0.5) * sc, (n + rnd.choice((-0.3, 0.26, 0.49, 0.51))) * sc, n * sc * (1 + 2.0 ** -50)))
    if k == 'bigint':
        if rnd.random() < 0.2:
            return rnd.choice([x for x in WEIRD_NUM if isinstance(x, int)] + [1.5, math.nan, 1e308, '5'])
        p = rnd.choice((dt['min'], dt['max'], {'a': rnd.choice((1, 2, 3)), 'd': 0}))
        return pos_int(p['a'], p['d']) + rnd.randint(-2, 2)
    if k == 'scaled':
        if rnd.random() < 0.15:
            return rnd.choice(WEIRD_NUM)
        s = dt['scale']
        if rnd.random() < 0.5:      # wire form: integer grid index
            n = rnd.choice((dt['min'], dt['max'], 0)) // s + rnd.randint(-2, 2)
            return rnd.choice((n, n, float(n), n + 0.7, str(n)))
        return _near(rnd, rnd.choice((dt['min'], dt['max'], dt['min'] - s, dt['max'] + s, 0)) + rnd.choice((0, 0, s // 2)))
    if k == 'bool':
        return rnd.choice((True, False, 0, 1, 2, 1.0, 0.5, 'true', None))
    if k == 'enum':
        m = rnd.choice(dt['mem'])
        return rnd.choice((m['v'], m['n'], m['v'], float(m['v']), m['v'] + 0.5, 99, 'zz', True, str(m['v'])))
    if k == 'string':
        if rnd.random() < 0.4:
            return rnd.choice(TEXTS)
        n = max(0, rnd.choice((dt['minc'], dt['minc'] - 1, dt['maxc'] if dt['maxc'] != NOLIM else 50,
                               (dt['maxc'] if dt['maxc'] != NOLIM else 50) + 1)))
        return rnd.choice(('q', 'é', '"', '\\', '\n', 'q\0'))[:1] * n if rnd.random() < 0.6 else 'q' * n
    if k == 'blob':
        n = max(0, rnd.choice((dt['minb'] - 1, dt['minb'], dt['maxb'], dt['maxb'] + 1)))
        raw = bytes(rnd.randrange(256) for _ in range(n))
        r = rnd.random()
        if r < 0.45:
            return base64.b64encode(raw).decode()
        if r < 0.7:
            return raw
        return rnd.choice(TEXTS)
    if k == 'array':
        n = max(0, rnd.choice((dt['minlen'] - 1, dt['minlen'], dt['maxlen'], dt['maxlen'] + 1, rnd.randint(0, 6))))
        v = [rand_value(rnd, dt['el'], junk / 2) for _ in range(n)]
        return tuple(v) if rnd.random() < 0.2 else v
    if k == 'tuple':
        v = [rand_value(rnd, e, junk / 2) for e in dt['els']]
        r = rnd.random()
        if r < 0.1:
            v = v[:-1]
        elif r < 0.2:
            v = v + v[:1]
        return v
    v = {}
    for m in dt['mem']:
        r = rnd.random()
        if r < 0.75:
            v[m['n']] = rand_value(rnd, m['t'], junk / 2)
        elif r < 0.85:
            v[m['n']] = None
    if rnd.random() < 0.08:
        v['zz'] = 1
    return v


def _valid_internal(rnd, dt, n=None):
    """abstract valid internal value of dt (a value a parameter may hold)"""
    k = dt['k']
    if k == 'double':
        lo = dt['min'] if dt['min'] != -NOLIM else (dt['max'] if dt['max'] != NOLIM else 0) - 100
        hi = dt['max'] if dt['max'] != NOLIM else lo + 100
        t = rnd.randint(lo, hi)
        return {'j': 'num', 't': t, 'ix': False, 'w': t % U == 0}
    if k == 'int':
        return {'j': 'int', 'n': rnd.randint(dt['min'], dt['max'])}
    if k == 'bscaled':
        lo, hi = gpos_int(dt['min']['a'], dt['min']['d']), gpos_int(dt['max']['a'], dt['max']['d'])
        a, d = int_gpos(rnd.choice((lo, hi, min(hi, lo + rnd.randint(0, 3)), max(lo, hi - rnd.randint(0, 3)))))
        return {'j': 'bgnum', 'a': a, 'd': d}
    if k == 'gscaled':
        return {'j': 'gnum', 'q': 4 * rnd.randint(dt['min'], dt['max']), 'ix': False, 'src': 'num'}
    if k == 'bigint':
        lo, hi = pos_int(dt['min']['a'], dt['min']['d']), pos_int(dt['max']['a'], dt['max']['d'])
        return bint_abs(rnd.choice((lo, hi, min(hi, lo + rnd.randint(0, 3)), max(lo, hi - rnd.randint(0, 3)))))
    if k == 'scaled':
        t = rnd.randint(dt['min'] // dt['scale'], dt['max'] // dt['scale']) * dt['scale']
        return {'j': 'num', 't': t, 'ix': False, 'w': t % U == 0}
    if k == 'bool':
        return {'j': 'bool', 'b': rnd.random() < 0.5}
    if k == 'enum':
        m = rnd.choice(dt['mem'])
        return {'j': 'member', 'n': m['v'], 'name': m['n']}
    if k == 'string':
        ln = dt['minc'] if dt['maxc'] == NOLIM else rnd.randint(dt['minc'], dt['maxc'])
        return str_abs('z' * ln) if ln % 4 else str_abs(synth_str({'name': '', 'cls': 'ascii', 'len': ln, 'blen': 3 * ln // 4}))
    if k == 'blob':
        return {'j': 'bytes', 'len': rnd.randint(dt['minb'], dt['maxb'])}
    if k == 'array':
        if n is None or not dt['minlen'] <= n <= dt['maxlen']:
            n = rnd.randint(dt['minlen'], dt['maxlen'])
        return {'j': 'list', 'xs': [_valid_internal(rnd, dt['el']) for _ in range(n)]}
    if k == 'tuple':
        if dt.get('limit'):
            x = _valid_internal(rnd, dt['els'][0])
            return {'j': 'list', 'xs': [x, x]}
        return {'j': 'list', 'xs': [_valid_internal(rnd, e) for e in dt['els']]}
    return {'j': 'obj', 'kv': [{'k': m['n'], 'v': _valid_internal(rnd, m['t'])} for m in dt['mem']
                               if m['n'] not in dt['opt'] or rnd.random() < 0.7]}


def rand_prev(rnd, dt, c):
    """a previous value the parameter may hold (arrays: shorter / equal / longer than the candidate)"""
    n = None
    if dt['k'] == 'array' and c['j'] == 'list':
        n = len(c['xs']) + rnd.choice((-1, 0, 1))
    return _valid_internal(rnd, dt, n)


# --------------------------------------------------------------- C02: round trip records

def rand_valid(rnd, dt, obj):
    """a concrete valid internal value of dt with rich content (any byte, any character class, non-tick floats)"""
    k = dt['k']
    if k == 'double':
        lo = -FMAX if dt['min'] == -NOLIM else dt['min'] / U
        hi = FMAX if dt['max'] == NOLIM else dt['max'] / U
        pool = [lo, hi, min(max(0.0, lo), hi)]
        if hi > lo:
            pool += [min(hi, max(lo, x)) for x in (rnd.uniform(max(lo, -1e6), min(hi, 1e6)), lo + 0.013, hi - 0.013,
                                                    1e308, -1e308, 5e-324, 0.1, 1 / 3, 123456.789, 1e22, 2.0 ** 53 + 2)]
        return float(rnd.choice(pool))
    if k == 'int':
        return rnd.choice((dt['min'], dt['max'], rnd.randint(dt['min'], dt['max'])))
    if k == 'bscaled':
        lo, hi = gpos_int(dt['min']['a'], dt['min']['d']), gpos_int(dt['max']['a'], dt['max']['d'])
        inside = [n for n in (2 ** 53 - 1, 2 ** 53 - 3, 2 ** 52 + 1, 2 ** 52 + 3, 3 * 2 ** 51 + 5, -(2 ** 53) + 1, -(2 ** 52) - 1, 1, 0)
                  if lo <= n <= hi]
        return rnd.choice([lo, hi, max(lo, hi - rnd.randint(0, 3))] + inside) * SCALES[dt['sid']]
    if k == 'gscaled':
        return rnd.choice((dt['min'], dt['max'], rnd.randint(dt['min'], dt['max']))) * SCALES[dt['sid']]
    if k == 'bigint':
        lo, hi = pos_int(dt['min']['a'], dt['min']['d']), pos_int(dt['max']['a'], dt['max']['d'])
        inside = [x for x in (2 ** 53 + 1, 10 ** 18 + 1, 2 ** 63 - 1, 2 ** 64 - 1, -(2 ** 63), 2 ** 53 - 1) if lo <= x <= hi]
        return rnd.choice([lo, hi, min(hi, lo + rnd.randint(0, 3)), max(lo, hi - rnd.randint(0, 3))] + inside)
    if k == 'scaled':
        a, b = dt['min'] // dt['scale'], dt['max'] // dt['scale']
        return rnd.choice((a, b, rnd.randint(a, b))) * dt['scale'] / U
    if k == 'bool':
        return rnd.random() < 0.5
    if k == 'enum':
        return obj._enum[rnd.choice(dt['mem'])['n']]
    if k == 'string':
        n = rnd.randint(dt['minc'], dt['minc'] + 30 if dt['maxc'] == NOLIM else dt['maxc'])
        pool = 'abcXYZ019 _-+=/!' + '"\\\n\t\'{}[](),:' + ('éß日本語\u2028\U0001f600' if dt['utf8'] else '')
        return ''.join(rnd.choice(pool) for _ in range(n))
    if k == 'blob':
        n = rnd.randint(dt['minb'], dt['maxb'])
        return bytes(rnd.randrange(256) for _ in range(n))
    if k == 'array':
        return tuple(rand_valid(rnd, dt['el'], obj.members) for _ in range(rnd.randint(dt['minlen'], dt['maxlen'])))
    if k == 'tuple':
        v = tuple(rand_valid(rnd, e, o) for e, o in zip(dt['els'], obj.members))
        return tuple(sorted(v)) if dt.get('limit') else v
    fd = frappy()
    return fd.ImmutableDict({m['n']: rand_valid(rnd, m['t'], obj.members[m['n']]) for m in dt['mem']
                             if m['n'] not in dt['opt'] or rnd.random() < 0.6})


def json_abs(fn, dt, av, conc):
    """strict JSON round trip of fn() projected against the internal value conc"""
    try:
        exported = fn()
    except Exception as e:   # noqa
        return {'j': 'raised', 'e': type(e).__name__}, None
    try:
        j = json.loads(json.dumps(exported, allow_nan=False))
    except (ValueError, TypeError):
        return {'j': 'notstrict'}, None
    return alpha(j, dt, av, conc), j


def rt_records(obj, reb, dt, av, conc, extra=None):
    """the C02 records of one valid value (abstract av, concrete conc) of dt:
    rt.export, and when the value could be exported rt.wire, rt.text, rt.client"""
    from frappy.client import CacheItem
    base = {'dt': dt, 'v': av}
    if extra:
        base.update(extra)
    ja, j = json_abs(lambda: obj.export_value(conc), dt, av, conc)
    recs = [dict(base, kind='rt.export', j=ja)]
    if j is None:
        return recs
    v1, _ = outcome_of(lambda: obj.validate(obj.import_value(j)), dt, av, conc)
    j2 = json.loads(json.dumps(j))
    if reb is None:          # the client could not build the datatype from the description
        v2, cval = {'ok': False, 'e': 'rebuild failed'}, None
    else:
        v2, cval = outcome_of(lambda: reb.validate(reb.import_value(j2)), dt, av, conc)
    recs.append(dict(base, kind='rt.wire', v1=v1, v2=v2))
    if not v2['ok']:
        return recs          # the client never holds this value
    # text form as offered to GUI / CLI users: on the client's datatype
    ts, t2same, v3 = True, False, {'ok': False, 'e': 'none'}
    t1 = None
    try:
        t1 = reb.to_string(cval)
        ts = isinstance(t1, str)
    except Exception:   # noqa
        ts = False
    if ts:
        v3, raw3 = outcome_of(lambda: reb.from_string(t1), dt, av, conc)
        if v3['ok']:
            try:
                t2same = reb.to_string(raw3) == t1
            except Exception:   # noqa
                t2same = False
    recs.append(dict(base, kind='rt.text', ts=ts, v3=v3, t2same=t2same))
    if not ts:
        return recs
    # the client's path: str(cache item) -> setParameterFromString (minus the network) -> server
    cssame = False

    def client_set(from_string=True):
        # the real SecopClient.setParameterFromString / setParameter, with the network replaced by a recorder
        from frappy.client import SecopClient
        sent = {}

        class Recorder(SecopClient):
            def connect(self, *a, **k):
                pass

            def request(self, action, ident=None, data=None):
                sent['data'] = data

            def __del__(self):
                pass

        c = object.__new__(Recorder)
        c.modules = {'m': {'parameters': {'p': {'datatype': reb}}}}
        c.identifier = {('m', 'p'): 'm:p'}
        c.cache = {('m', 'p'): None}
        if from_string:
            c.setParameterFromString('m', 'p', str(CacheItem(cval, datatype=reb)))
        else:
            c.setParameter('m', 'p', cval)          # the client's own value of the parameter, sent back
        data = json.loads(json.dumps(sent['data'], allow_nan=False))   # the data part of the change request
        return obj.validate(obj.import_value(data))
    cs, rawc = outcome_of(client_set, dt, av, conc)
    if cs['ok']:
        try:
            cssame = reb.to_string(reb.validate(reb.import_value(json.loads(json.dumps(obj.export_value(rawc)))))) == t1
        except Exception:   # noqa
            cssame = False
    cw, _ = outcome_of(lambda: client_set(False), dt, av, conc)
    recs.append(dict(base, kind='rt.client', cs=cs, cssame=cssame, cw=cw))
    return recs


NULL = {'j': 'null'}
NOT_CALLED = object()


class CommandNode:
    """in-process stand-in for a node with one command: the real SecopClient.execCommand talks to it through
    encode_msg_frame / decode_msg; the node imports + validates the argument and exports the result with its own
    (constructor-built) datatypes; the client works with the command type rebuilt from the JSON description"""

    def __init__(self, dt):
        fd = frappy()
        from frappy.client import SecopClient
        self.dt = dt
        self.arg_dt = None if dt['arg']['k'] == 'none' else dt['arg']
        self.res_dt = None if dt['res']['k'] == 'none' else dt['res']
        self.arg = build_type(self.arg_dt) if self.arg_dt else None
        self.res = build_type(self.res_dt) if self.res_dt else None
        self.client_type = fd.get_datatype(json.loads(json.dumps(fd.CommandType(self.arg, self.res).export_datatype())), 'cmd')
        node = self

        class Recorder(SecopClient):
            def connect(self, *a, **k):
                pass

            def request(self, action, ident=None, data=None):
                return node.handle(action, ident, data)

            def __del__(self):
                pass

        self.client = object.__new__(Recorder)
        self.client.modules = {'m': {'parameters': {}, 'commands': {'c': {'datatype': self.client_type}}}}
        self.client.identifier = {('m', 'c'): 'm:c'}
        self.client.cache = {}

    def handle(self, action, ident, data):
        from frappy.protocol.interface import decode_msg, encode_msg_frame
        _, spec, wire = decode_msg(encode_msg_frame(action, ident, data))
        if self.arg is None:
            if wire is not None:
                raise ValueError('the node received an argument for a command without argument')
            self.received = None
        else:
            self.received = self.arg.validate(self.arg.import_value(wire))     # what the driver is called with
        out = None if self.res is None else self.res.export_value(self.res.validate(self.result))
        return decode_msg(encode_msg_frame('done', spec, [out, {'t': 1.0}]))

    def call(self, a, r, extra=None):
        """one call with the abstract argument a / result r -> rt.exec record"""
        a_conc = None if self.arg is None else concrete(a, self.arg_dt, self.client_type.argument, internal=True)
        r_conc = None if self.res is None else concrete(r, self.res_dt, self.res, internal=True)
        return self.call_concrete(a, a_conc, r, r_conc, extra)

    def call_concrete(self, a, a_conc, r, r_conc, extra=None):
        self.result = r_conc
        self.received = NOT_CALLED
        gr, _ = outcome_of(lambda: self.client.execCommand('m', 'c', a_conc)[0], self.res_dt, r, r_conc)
        if self.received is NOT_CALLED:
            ga = {'ok': False, 'e': 'the request did not reach the driver'}
        else:
            ga, _ = outcome_of(lambda: self.received, self.arg_dt, a, a_conc)
        rec = {'kind': 'rt.exec', 'dt': self.dt, 'a': a, 'r': r, 'ga': ga, 'gr': gr}
        if extra:
            rec.update(extra)
        return rec


def rt_children(dt, av):
    """element sub-cases (type, abstract value) of a container value"""
    k = dt['k']
    if k == 'array':
        return [(dt['el'], x) for x in av['xs']]
    if k == 'tuple':
        return list(zip(dt['els'], av['xs']))
    if k == 'struct':
        return [(sub_type(dt, av, e['k']), e['v']) for e in av['kv']]
    return []


# ------------------------------------------------------------------- TLC as the judge

SPEC_FIELDS = ('kind', 'dt', 'c', 'p', 'path', 'out', 'v', 'j', 'v1', 'v2', 'ts', 'v3', 't2same', 'cs', 'cssame', 'cw', 'r', 'ga', 'gr',
               'a', 'b', 'passes', 'd1', 'd2', 'd2x', 'd3', 'probes', 'before', 'after')


def _judge_chunk(recs):
    from .core import validate_traces
    traces = [[{k: r[k] for k in SPEC_FIELDS if k in r}] for r in recs]
    verdicts, st, tr = validate_traces('Trace_Datatypes', traces, 'Trace_Datatypes.cfg', timeout=1100, chunk=100000)
    return [verdicts[i] for i in range(len(recs))], st, tr


def judge(chk, recs):
    """TLC's verdict for every record: None (allowed) or the violated clause"""
    from .core import pool_map
    if not recs:
        return []
    n = max(1, min(8, len(recs) // 1500))
    parts = [recs[i::n] for i in range(n)]
    res = pool_map(_judge_chunk, parts, procs=n)
    out = [None] * len(recs)
    for k, (vs, st, tr) in enumerate(res):
        chk.states += st
        chk.transitions += tr
        for i, v in enumerate(vs):
            out[k + i * n] = None if v is None else v[1]
    return out


def rkey(r):
    return key({k: r[k] for k in SPEC_FIELDS if k in r})


def localise(chk, failing, kids_fn, depth=5):
    """failing: records rejected at top level. kids_fn(record) -> executed records of its element
    sub-cases. TLC judges them level by level; the innermost rejected record is the root cause.
    returns list of (root-cause record, clause, an example top-level record)"""
    from .core import MachineryError
    clause, nodes, level, kids_of = {}, {}, {}, {}
    for r in failing:
        level.setdefault(rkey(r), r)
    top = dict(level)
    for _ in range(depth):
        if not level:
            break
        recs = list(level.values())
        for r, v in zip(recs, judge(chk, recs)):
            clause[rkey(r)] = v
            nodes[rkey(r)] = r
        nxt = {}
        for r in recs:
            k = rkey(r)
            kids_of[k] = []
            if clause[k] is None:
                continue
            for kid in kids_fn(r):
                kk = rkey(kid)
                kids_of[k].append(kk)
                if kk not in nodes and kk not in nxt:
                    nxt[kk] = kid
        level = nxt
    roots = {}

    def blame(k, topk):
        bad = [x for x in kids_of.get(k, []) if clause.get(x) is not None]
        if bad:
            for x in bad:
                blame(x, topk)
        else:
            roots.setdefault(k, topk)
    for k in top:
        if clause[k] is None:
            raise MachineryError('enumeration and Trace_Datatypes disagree on ' + json.dumps(top[k])[:1500])
        blame(k, k)
    return [(nodes[k], clause[k], top[tk]) for k, tk in roots.items()]


def has_internal(c):
    if c['j'] in ('bytes', 'member', 'fmax'):
        return True
    if c['j'] == 'list':
        return any(has_internal(x) for x in c['xs'])
    if c['j'] == 'obj':
        return any(has_internal(e['v']) for e in c['kv'])
    return False


# ------------------------------------------------------------ C03: descriptions, copies

def deco(dt, unit='', fmt='%g', dflt=True):
    """python mirror of Deco in Datatypes.tla: presentation properties on every double / scaled node"""
    k = dt['k']
    if k == 'double':
        return dict(dt, rel=-1 if dflt else dt['rel'], unit=unit, fmt=fmt)
    if k == 'scaled':
        return dict(dt, abs=dt['scale'] if dflt else 0, rel=-1 if dflt else 1, unit=unit, fmt=fmt)
    if k in ('gscaled', 'bscaled'):
        return dict(dt, abs=-1 if dflt else 0, rel=-1 if dflt else 1, unit=unit, fmt=fmt)
    if k == 'array':
        return dict(dt, el=deco(dt['el'], unit, fmt, dflt))
    if k == 'tuple':
        return dict(dt, els=[deco(e, unit, fmt, dflt) for e in dt['els']])
    if k == 'struct':
        return dict(dt, mem=[{'n': m['n'], 't': deco(m['t'], unit, fmt, dflt)} for m in dt['mem']])
    if k == 'command':
        return dict(dt, arg=deco(dt['arg'], unit, fmt, dflt), res=deco(dt['res'], unit, fmt, dflt))
    return dt


def has_blob0(dt):
    k = dt['k']
    if k == 'blob':
        return dt['maxb'] == 0
    if k == 'array':
        return has_blob0(dt['el'])
    if k == 'tuple':
        return any(has_blob0(e) for e in dt['els'])
    if k == 'struct':
        return any(has_blob0(m['t']) for m in dt['mem'])
    return False


def has_limit(dt):
    k = dt['k']
    if k == 'tuple':
        return bool(dt.get('limit')) or any(has_limit(e) for e in dt['els'])
    if k == 'array':
        return has_limit(dt['el'])
    if k == 'struct':
        return any(has_limit(m['t']) for m in dt['mem'])
    if k == 'command':
        return has_limit(dt['arg']) or has_limit(dt['res'])
    return False


def info_abs(x, keep_order=False):
    """a datainfo (JSON) -> abstract JSON: keys sorted, except the members of a struct"""
    if isinstance(x, bool):
        return {'j': 'bool', 'b': x}
    if isinstance(x, int):
        return int_abs(x)
    if isinstance(x, float):
        return num_abs(x)
    if isinstance(x, str):
        return {'j': 'text', 's': x}
    if isinstance(x, list):
        return {'j': 'list', 'xs': [info_abs(v) for v in x]}
    if isinstance(x, dict):
        keys = list(x) if keep_order else sorted(x)
        res = {'j': 'obj', 'kv': [{'k': k, 'v': info_abs(x[k], keep_order=(k == 'members' and x.get('type') == 'struct'))}
                                  for k in keys]}
        if x.get('type') == 'scaled' and isinstance(x.get('scale'), float) and x['scale'] in SCALE_IDS:
            sid = SCALE_IDS[x['scale']]
            lims = [x.get('min'), x.get('max')]
            big = sid in BIG_SCALES and all(isinstance(v, int) and not isinstance(v, bool) for v in lims) and any(abs(v) >= HUGE for v in lims)
            if sid not in BIG_SCALES or big:
                for e in res['kv']:          # exactly a float of the scale table: named, so that TLC can compare it
                    if e['k'] == 'scale':
                        e['v'] = {'j': 'gscale', 'sid': sid}
                    elif big and e['k'] in ('min', 'max') and abs(x[e['k']]) >= HUGE:
                        a, d = int_gpos(x[e['k']])       # limits beyond the small range: exact grid positions
                        e['v'] = {'j': 'gint', 'a': a, 'd': d}
        return res
    if x is None:
        return {'j': 'null'}
    return {'j': 'pyobject:' + type(x).__name__}


def describe(obj):
    """abstract datainfo of a real datatype (through the JSON text)"""
    try:
        return info_abs(json.loads(json.dumps(obj.export_datatype())))
    except Exception as e:   # noqa
        return {'j': 'raised', 'e': type(e).__name__}


def mutate_everything(obj):
    """change every mutable part of a datatype tree in place (used on copies only)"""
    fd = frappy()
    done = []

    def sp(o, k, v):
        try:
            o.setProperty(k, v)
            done.append(k)
        except Exception:   # noqa
            pass
    if isinstance(obj, (fd.FloatRange, fd.ScaledInteger)):
        if '$' in obj.unit:
            obj.set_main_unit('X')          # replaces the $ of the copy only
            done.append('main unit')
        sp(obj, 'unit', 'mutated')
        sp(obj, 'fmtstr', '%.9f')
        sp(obj, 'absolute_resolution', 0.5)
        sp(obj, 'relative_resolution', 0.25)
        sp(obj, 'min', obj.min - 1)
        sp(obj, 'max', obj.max + 1)
        obj.set_main_unit('X')
    elif isinstance(obj, fd.IntRange):
        sp(obj, 'min', obj.min - 1)
        sp(obj, 'max', obj.max + 1)
    elif isinstance(obj, fd.EnumType):
        obj.set_name('mutated')
        done.append('name')
    elif isinstance(obj, fd.StringType):
        sp(obj, 'minchars', obj.minchars + 1)
        sp(obj, 'maxchars', obj.maxchars + 1 if obj.maxchars < 1000 else 7)
        sp(obj, 'isUTF8', not obj.isUTF8)
    elif isinstance(obj, fd.BLOBType):
        sp(obj, 'minbytes', obj.minbytes + 1)
        sp(obj, 'maxbytes', obj.maxbytes + 1)
    elif isinstance(obj, fd.ArrayOf):
        if getattr(obj.members, 'unit', None) is not None and 'unit' in obj.getProperties():
            sp(obj, 'unit', 'via-array')          # ArrayOf.setProperty hands unknown keys to its members
        done += mutate_everything(obj.members)
        sp(obj, 'minlen', obj.minlen + 1)
        sp(obj, 'maxlen', obj.maxlen + 2)
    elif isinstance(obj, fd.CommandType):
        for sub in (obj.argument, obj.result):
            if sub is not None:
                done += mutate_everything(sub)
    elif isinstance(obj, fd.TupleOf):
        for m in obj.members:
            done += mutate_everything(m)
    elif isinstance(obj, fd.StructOf):
        for m in obj.members.values():
            done += mutate_everything(m)
        try:
            obj.optional[:] = [] if obj.optional else list(obj.members)
            obj.members['zz'] = fd.BoolType()
            done.append('optional/members')
        except Exception:   # noqa
            pass
    return done


def equiv_records(dt, probes, extra=None):
    """C03 records of one (decorated) abstract type: equiv + alias"""
    base = {'dt': dt}
    if extra:
        base.update(extra)
    obj = build_type(dt)
    fd = frappy()
    d1 = describe(obj)
    info = json.loads(json.dumps(obj.export_datatype())) if d1.get('j') == 'obj' else None
    objs = {'orig': obj}

    def attempt(name, fn):
        try:
            objs[name] = fn()
            return describe(objs[name])
        except Exception as e:   # noqa
            return {'j': 'raised', 'e': type(e).__name__}
    d2 = attempt('rebuilt', lambda: fd.get_datatype(info))
    d2x = attempt('rebuiltx', lambda: fd.get_datatype(_with_unknown(info)))
    d3 = attempt('copy', obj.copy)
    diff = []
    # (a LimitsType is described as a tuple: the rebuilt type cannot know about the ordering, compare with the copy only)
    trio = [objs.get(n) for n in (('orig', 'copy', 'copy') if has_limit(dt) else ('orig', 'rebuilt', 'copy'))]
    if dt['k'] != 'command' and all(o is not None for o in trio):
        for c in probes:
            for path in ('wire', 'write'):
                outs = []
                for o in trio:
                    out, _ = run_case(o, dt, c, NONE, path)
                    outs.append(out)
                if outs[0] != outs[1] or outs[0] != outs[2]:
                    diff.append({'c': c, 'path': path, 'orig': outs[0], 'rebuilt': outs[1], 'copy': outs[2]})
    recs = [dict(base, kind='equiv', d1=d1, d2=d2, d2x=d2x, d3=d3, probes=diff[:5])]
    if 'copy' in objs:
        def state():    # the datainfo and the repr (which also shows what is not exported, e.g. the enum name)
            return {'j': 'obj', 'kv': [{'k': 'datainfo', 'v': describe(obj)}, {'k': 'repr', 'v': {'j': 'text', 's': repr(obj)}}]}
        before = state()
        try:
            what = mutate_everything(objs['copy'])
        except Exception as e:   # noqa
            what = ['raised ' + type(e).__name__]
        recs.append(dict(base, kind='alias', before=before, after=state(), what=sorted(set(what))))
    return recs


def _with_unknown(info):
    """the datainfo with an unknown key at every level (must-ignore policy)"""
    if isinstance(info, dict) and 'type' in info:
        res = {k: _with_unknown(v) for k, v in info.items()}
        if info['type'] == 'struct':
            res['members'] = {k: _with_unknown(v) for k, v in info['members'].items()}
        res['x-unknown'] = 1
        return res
    if isinstance(info, list):
        return [_with_unknown(v) for v in info]
    return info


def compat_record(a, b, extra=None):
    oa, ob = build_type(a), build_type(b)
    from frappy.errors import BadValueError
    exc = None
    try:
        oa.compatible(ob)
        passes = True
    except Exception as e:   # noqa
        passes = False
        exc = ('bad-value:' if isinstance(e, BadValueError) else 'OTHER:') + type(e).__name__
    r = {'kind': 'compat', 'a': a, 'b': b, 'passes': passes, 'exc': exc}
    if extra:
        r.update(extra)
    return r


def compat_children(a, b):
    """element-wise pairs of two containers of the same shape"""
    if a['k'] == 'array' and b['k'] == 'array':
        return [(a['el'], b['el'])]
    if a['k'] == 'tuple' and b['k'] == 'tuple' and len(a['els']) == len(b['els']):
        return list(zip(a['els'], b['els']))
    if a['k'] == 'struct' and b['k'] == 'struct':
        bm = {m['n']: m['t'] for m in b['mem']}
        return [(m['t'], bm[m['n']]) for m in a['mem'] if m['n'] in bm]
    if a['k'] == 'command' and b['k'] == 'command':
        res = []
        if a['arg']['k'] != 'none' and b['arg']['k'] != 'none':
            res.append((a['arg'], b['arg']))
        if a['res']['k'] != 'none' and b['res']['k'] != 'none':
            res.append((b['res'], a['res']))        # the result goes the other way
        return res
    return []
