"""Deterministic scheduler for the real threaded code of frappy.

All threads of the system under test are real threads, but only the holder of the baton
runs; every operation on a synchronisation primitive (and, optionally, every source line of
selected files) is a yield point at which the controller may pass the baton to another
thread.  Time is virtual.  A run is fully determined by its sequence of choices.

Nothing in frappy is edited: the names `threading`, `time`, `queue`, `Event`, `RLock`,
`mkthread`, ... are rebound inside the namespaces of the frappy modules under test for the
duration of a run (`Patch`).
"""
import queue as _queue
import random
import sys
import threading as _threading
import time as _time


class SchedAbort(BaseException):
    """raised inside scheduled threads to unwind them when a run is torn down"""


class _T:
    def __init__(self, name, fn, args, kwargs):
        self.name = name
        self.fn, self.args, self.kwargs = fn, args, kwargs
        self.go = _threading.Semaphore(0)
        self.pred = None          # blocked until pred() is true
        self.deadline = None      # ... or until virtual time reaches deadline
        self.timed_out = False
        self.finished = False
        self.started = False
        self.exc = None
        self.what = 'start'
        self.real = None
        self.daemon = True


class Scheduler:
    current_sched = None

    def __init__(self, strategy, max_steps=20000, eps=0.0, trace_files=(), wait_eps=0.0, yield_on_time=False):
        self.strategy = strategy
        self.max_steps = max_steps
        self.threads = {}
        self.order = []
        self.now = 1000000.0
        self.eps = eps              # virtual cost of reading the clock
        self.wait_eps = wait_eps    # a timed wait returns this much after its deadline
        self.ctrl = _threading.Semaphore(0)
        self.cur = None
        self.steps = 0
        self.choices = []           # (enabled tuple, chosen)
        self.events = []
        self.aborting = False
        self.deadlock = False
        self.livelock = False
        self.trace_files = tuple(trace_files)
        self.by_ident = {}
        self.stop_when = None       # predicate evaluated by the controller between steps
        self.stopped = False
        self.counter = 0
        self.setup_phase = False    # deterministic, unrecorded scheduling while True
        self.yield_on_time = yield_on_time   # reading the clock is a possible preemption point

    # ------------------------------------------------------------ thread identity
    def me(self):
        return self.by_ident.get(_threading.get_ident())

    def log(self, **ev):
        t = self.me()
        ev['seq'] = len(self.events)
        ev['th'] = t.name if t else 'ctl'
        ev['vt'] = self.now
        self.events.append(ev)
        return ev

    # ------------------------------------------------------------ spawning
    def spawn(self, name, fn, *args, **kwargs):
        if name in self.threads:
            self.counter += 1
            name = f'{name}#{self.counter}'
        t = _T(name, fn, args, kwargs)
        self.threads[name] = t
        self.order.append(name)

        def boot():
            self.by_ident[_threading.get_ident()] = t
            t.go.acquire()
            try:
                if self.aborting:
                    raise SchedAbort()
                if self.trace_files:
                    sys.settrace(self._tracer)
                t.fn(*t.args, **t.kwargs)
            except SchedAbort:
                pass
            except SystemExit:
                pass
            except BaseException as e:  # noqa
                t.exc = e
            finally:
                sys.settrace(None)
                t.finished = True
                self.ctrl.release()

        t.real = _threading.Thread(target=boot, name='sched-' + name, daemon=True)
        t.real.start()
        t.started = True
        return t

    def _tracer(self, frame, event, arg):
        if frame.f_code.co_filename.endswith(self.trace_files):
            return self._line
        return None

    def _line(self, frame, event, arg):
        if event == 'line' and not self.aborting:
            self.yield_('line')
        return self._line

    # ------------------------------------------------------------ yield / block
    def yield_(self, what='yield'):
        t = self.me()
        if t is None:
            return
        if self.aborting:
            raise SchedAbort()
        t.what = what
        t.spin = 0
        self.ctrl.release()
        t.go.acquire()
        if self.aborting:
            raise SchedAbort()

    def block(self, pred, timeout=None, what='block'):
        """wait until pred() holds (checked by the controller) or the time-out elapses.
        returns True if pred held"""
        t = self.me()
        if t is None:
            # unscheduled thread (controller): never block
            return bool(pred())
        if self.aborting:
            raise SchedAbort()
        t.pred = pred
        t.deadline = None if timeout is None else self.now + max(0.0, timeout) + self.wait_eps
        t.timed_out = False
        t.what = what
        t.spin = 0
        self.ctrl.release()
        t.go.acquire()
        t.pred = None
        t.deadline = None
        if self.aborting:
            raise SchedAbort()
        return not t.timed_out

    # ------------------------------------------------------------ controller
    def _enabled(self):
        res = []
        for n in self.order:
            t = self.threads[n]
            if t.finished:
                continue
            if t.pred is None or t.pred():
                res.append(n)
            elif t.deadline is not None and t.deadline <= self.now:
                res.append(n)
        return res

    def run(self):
        """controller loop; returns when all threads finished, dead-locked, stop_when() holds,
        or max_steps is exceeded.  Always tears remaining threads down."""
        Scheduler.current_sched = self
        try:
            while True:
                if self.stop_when is not None and self.stop_when():
                    self.stopped = True
                    break
                en = self._enabled()
                if not en:
                    waiting = [t for t in self.threads.values() if not t.finished]
                    if not waiting:
                        break
                    dl = [t.deadline for t in waiting if t.deadline is not None]
                    if not dl:
                        self.deadlock = True
                        break
                    self.now = max(self.now, min(dl))
                    continue
                self.steps += 1
                if self.steps > self.max_steps:
                    self.livelock = True
                    break
                if self.setup_phase:
                    name = self.cur if self.cur in en else en[0]
                else:
                    name = self.strategy(en, self)
                    self.choices.append((tuple(en), name))
                t = self.threads[name]
                if t.pred is not None and not t.pred():
                    t.timed_out = True
                self.cur = name
                t.go.release()
                self._wait_for(t)
        finally:
            self.teardown()
            Scheduler.current_sched = None
        return self

    WATCHDOG = 20.0     # real seconds a thread may run between two scheduling points

    def _wait_for(self, t):
        """wait until the running thread reaches its next scheduling point.  A thread that does not come back within
        WATCHDOG real seconds spins without ever waiting (a step normally takes micro- to milliseconds): with virtual
        time nothing else can happen any more, so this is reported as a livelock - the thread is ended by an
        asynchronous SchedAbort instead of hanging the check for ever."""
        if self.ctrl.acquire(timeout=self.WATCHDOG):
            return
        self.livelock = True
        self.spinning = t.name
        self.aborting = True
        self.stop_when = lambda: True
        import ctypes
        for _ in range(30):
            if t.real is not None and t.real.ident is not None:
                ctypes.pythonapi.PyThreadState_SetAsyncExc(ctypes.c_ulong(t.real.ident), ctypes.py_object(SchedAbort))
            if self.ctrl.acquire(timeout=2.0):
                return
        raise RuntimeError(f'thread {t.name} spins and can not be stopped')

    def teardown(self):
        self.aborting = True
        while True:
            left = [t for t in self.threads.values() if not t.finished]
            if not left:
                break
            left[0].go.release()
            self.ctrl.acquire()
        for t in self.threads.values():
            if t.real is not None:
                t.real.join(5)

    def blocked_summary(self):
        return {n: t.what for n, t in self.threads.items() if not t.finished}

    # ------------------------------------------------------------ time
    SPIN_LIMIT = 50000      # clock reads of one thread without a scheduling point in between

    def time(self):
        me = self.me()
        if self.yield_on_time and me is not None and not self.aborting:
            self.yield_('time')
        elif me is not None and not self.aborting:
            # a thread that keeps reading the clock without ever waiting spins: with virtual time it would never
            # end (nothing else can run, time stands still) - report it as a livelock instead of hanging the check
            me.spin = getattr(me, 'spin', 0) + 1
            if me.spin > self.SPIN_LIMIT:
                self.spinning = me.name
                self.livelock = True
                self.stop_when = lambda: True
                self.yield_('spin')
        self.now += self.eps
        return self.now

    def sleep(self, d):
        if self.me() is None:
            return
        self.block(lambda: False, d, 'sleep')


# ------------------------------------------------------------------ primitives

def S():
    return Scheduler.current_sched


class DLock:
    reentrant = False

    def __init__(self, name=None):
        self.owner = None
        self.depth = 0
        self.name = name

    def acquire(self, blocking=True, timeout=-1):
        s = S()
        t = s.me() if s else None
        if t is None or s.aborting:
            self.owner, self.depth = (t or 'ext'), self.depth + 1
            return True
        s.yield_('acquire')
        if self.reentrant and self.owner is t:
            self.depth += 1
            return True
        if self.owner is not None:
            if not blocking:
                return False
            ok = s.block(lambda: self.owner is None, None if timeout is None or timeout < 0 else timeout,
                         'lock')
            if not ok:
                return False
        self.owner = t
        self.depth = 1
        return True

    def release(self):
        s = S()
        self.depth -= 1
        if self.depth <= 0:
            self.depth = 0
            self.owner = None
        if s and s.me() is not None and not s.aborting:
            s.yield_('release')

    def locked(self):
        return self.owner is not None

    def _is_owned(self):
        s = S()
        return self.owner is (s.me() if s else None)

    def __enter__(self):
        self.acquire()
        return self

    def __exit__(self, *a):
        self.release()


class DRLock(DLock):
    reentrant = True


HINT_PREFIX = None


def _tag(item):
    """caller tag of a client entry [request, Event, reply] (hint logging)"""
    try:
        return item[1].tag
    except Exception:
        return None if item is not None else 'STOP'


class DEvent:
    def __init__(self):
        self.flag = False
        s = S()
        t = s.me() if s else None
        self.tag = t.name if t else None
        self.hint = bool(HINT_PREFIX and self.tag and self.tag.startswith(HINT_PREFIX))

    def is_set(self):
        return self.flag

    isSet = is_set

    def set(self):
        s = S()
        self.flag = True
        if s and self.hint and not s.aborting:
            s.log(ev='ev_set', tag=self.tag)
        if s and s.me() is not None and not s.aborting:
            s.yield_('ev.set')

    def clear(self):
        s = S()
        if s and s.yield_on_time and s.me() is not None and not s.aborting:
            s.yield_('ev.clear')
        self.flag = False

    def wait(self, timeout=None):
        s = S()
        if s is None or s.me() is None or s.aborting:
            return self.flag
        s.yield_('ev.wait')
        if self.flag:
            return True
        s.block(lambda: self.flag, timeout, 'event')
        return self.flag


class DQueue:
    def __init__(self, maxsize=0):
        self.maxsize = maxsize
        self.items = []
        self.name = None     # set by a harness to get q_put / q_get hint events

    def qsize(self):
        return len(self.items)

    def empty(self):
        s = S()
        if s and s.me() is not None and not s.aborting:
            s.yield_('q.empty')
        return not self.items

    def full(self):
        return 0 < self.maxsize <= len(self.items)

    def put(self, item, block=True, timeout=None):
        s = S()
        sched = s and s.me() is not None and not s.aborting
        if sched:
            s.yield_('q.put')
        if self.full():
            if not block or not sched:
                raise _queue.Full
            if not s.block(lambda: not self.full(), timeout, 'q.full'):
                raise _queue.Full
        self.items.append(item)
        if self.name and s and not s.aborting:
            s.log(ev='q_put', q=self.name, tag=_tag(item))

    def put_nowait(self, item):
        return self.put(item, False)

    def get(self, block=True, timeout=None):
        s = S()
        sched = s and s.me() is not None and not s.aborting
        if sched:
            s.yield_('q.get')
        if not self.items:
            if not block or not sched:
                raise _queue.Empty
            if not s.block(lambda: bool(self.items), timeout, 'q.empty'):
                raise _queue.Empty
        item = self.items.pop(0)
        if self.name and s and not s.aborting:
            s.log(ev='q_get', q=self.name, tag=_tag(item))
        return item

    def get_nowait(self):
        return self.get(False)


class DThread:
    """replacement for threading.Thread inside the system under test"""

    def __init__(self, group=None, target=None, name=None, args=(), kwargs=None, daemon=None):
        self._target, self._args, self._kwargs = target, args, kwargs or {}
        self.name = name or (getattr(target, '__name__', 'thread'))
        self.daemon = daemon
        self._t = None

    def run(self):
        if self._target:
            self._target(*self._args, **self._kwargs)

    def start(self):
        s = S()
        self._t = s.spawn(self.name.strip('_').split('__')[-1], self.run)
        self._t.obj = self
        if s.me() is not None and not s.aborting:
            s.yield_('th.start')

    def join(self, timeout=None):
        s = S()
        if self._t is None:
            raise RuntimeError('cannot join thread before it is started')
        if s is None or s.me() is None or s.aborting:
            return
        if self._t is s.me():
            raise RuntimeError('cannot join current thread')
        s.yield_('th.join')
        s.block(lambda: self._t.finished, timeout, 'join')

    def is_alive(self):
        return self._t is not None and not self._t.finished

    isAlive = is_alive

    def setDaemon(self, d):
        self.daemon = d


def current_thread():
    s = S()
    t = s.me() if s else None
    if t is None:
        return _threading.current_thread()
    return getattr(t, 'obj', t)


def mkthread(func, *args, **kwds):
    t = DThread(name=f'{func.__module__}:{func.__name__}', target=func, args=args, kwargs=kwds)
    t.daemon = True
    t.start()
    return t


class _Mod:
    """stand-in for a stdlib module inside a frappy namespace"""

    def __init__(self, real, **over):
        self.__dict__['_real'] = real
        self.__dict__.update(over)

    def __getattr__(self, name):
        return getattr(self._real, name)


def _vtime():
    s = S()
    return s.time() if s else _time.time()


MONO_OFFSET = 999000.0      # the monotonic clock has another epoch than the wall clock (like uptime vs. date)


def _vmonotonic():
    return _vtime() - MONO_OFFSET


def _vsleep(d):
    s = S()
    if s:
        s.sleep(d)


FAKE_THREADING = _Mod(_threading, Event=DEvent, Lock=DLock, RLock=DRLock, Thread=DThread,
                      current_thread=current_thread)
FAKE_TIME = _Mod(_time, time=_vtime, sleep=_vsleep, monotonic=_vmonotonic)
FAKE_QUEUE = _Mod(_queue, Queue=DQueue)


class Patch:
    """rebind synchronisation/time names inside the given module namespaces"""

    def __init__(self, *modules, extra=None):
        self.modules = modules
        self.saved = []
        self.extra = extra or {}

    def __enter__(self):
        import frappy.lib
        table = [
            (_threading, FAKE_THREADING), (_time, FAKE_TIME), (_queue, FAKE_QUEUE),
            (_threading.Event, DEvent), (_threading.Lock, DLock), (_threading.RLock, DRLock),
            (_threading.Thread, DThread), (_threading.current_thread, current_thread),
            (_queue.Queue, DQueue), (_time.time, _vtime), (_time.sleep, _vsleep),
            (_time.monotonic, _vmonotonic), (frappy.lib.mkthread, mkthread),
        ]
        for m in self.modules:
            for k, v in list(vars(m).items()):
                for orig, repl in table:
                    if v is orig:
                        self.saved.append((m, k, v))
                        setattr(m, k, repl)
                        break
            for k, v in self.extra.get(m.__name__, {}).items():
                self.saved.append((m, k, getattr(m, k)))
                setattr(m, k, v)
        return self

    def __exit__(self, *a):
        for m, k, v in reversed(self.saved):
            setattr(m, k, v)
        self.saved = []


# ------------------------------------------------------------------ strategies

class RandomStrategy:
    """random walk; with probability `stay` the running thread continues if it can"""

    def __init__(self, seed, stay=0.6):
        self.rnd = random.Random(seed)
        self.stay = stay

    def __call__(self, enabled, s):
        if s.cur in enabled and self.rnd.random() < self.stay:
            return s.cur
        return self.rnd.choice(enabled)


class GuidedStrategy:
    """follow a prefix of choices, then continue non-preemptively (current thread if enabled,
    otherwise the first enabled one)"""

    def __init__(self, prefix=()):
        self.prefix = list(prefix)
        self.i = 0

    def __call__(self, enabled, s):
        if self.i < len(self.prefix):
            c = self.prefix[self.i]
            self.i += 1
            if c in enabled:
                return c
        return s.cur if s.cur in enabled else enabled[0]


def explore(run_once, max_preemptions=2, max_runs=2000, max_depth=400):
    """stateless DFS over schedules with a bound on preemptions (CHESS style).
    run_once(strategy) -> Scheduler (after run).  Yields each finished Scheduler."""
    stack = [[]]      # prefixes still to run
    seen = set()
    runs = 0
    while stack and runs < max_runs:
        prefix = stack.pop()
        key = tuple(prefix)
        if key in seen:
            continue
        seen.add(key)
        s = run_once(GuidedStrategy(prefix))
        runs += 1
        yield s
        # alternatives after the prefix
        chosen = [c for _, c in s.choices]
        cur = None
        pre = 0
        pcount = []
        for en, c in s.choices:
            if cur is not None and cur in en and c != cur:
                pre += 1
            pcount.append(pre)
            cur = c
        for i in range(len(prefix), min(len(s.choices), max_depth)):
            en, c = s.choices[i]
            prev = s.choices[i - 1][1] if i else None
            base = pcount[i - 1] if i else 0
            for alt in en:
                if alt == c:
                    continue
                cost = base + (1 if prev in en and alt != prev else 0)
                if cost <= max_preemptions:
                    stack.append(chosen[:i] + [alt])
