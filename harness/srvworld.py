"""X06: the real frappy.server.Server - real __init__ on a generated config file, real run() loop, restart(),
shutdown(), _interfaceThread, signal_handler, real _processCfg / SecNode / Dispatcher / shutdown_modules, two small real
modules (one with a poll thread), the real TCPServer.__init__ (retry loop) and the real UDPListener - with ALL threads
under the deterministic scheduler (harness/detsched.py) in virtual time.

Faked (not nicer than reality):
 - the bind layer of DualStackTCPServer: __init__ (binds or raises EADDRINUSE / EACCES as scripted; a port still held by
   a thread of an older generation is EADDRINUSE), serve_forever / shutdown with the semantics of socketserver
   (shutdown() BLOCKS until the serving loop has been left - also when the loop has not been entered yet), server_close;
 - a scheme fake:// (registered in Server.INTERFACES like tcp / ws) whose constructor can be slow (5 s), late (15 s, i.e.
   after the 12 s start time-out), fail, or leave an option unconsumed;
 - the UDP socket of the discovery responder (blocking recvfrom that fails once the socket is closed);
 - signals: a SIGTERM / SIGINT is DELIVERED IN THE THREAD THAT RUNS run() at its next scheduling point (also while it
   is blocked - a blocked lock / event / join is interrupted, the handler runs, the wait is resumed), as CPython does.
Every fake operation and every recorded event is a scheduling point (before and after the effect).
"""
import errno
import json
import os
import shutil
import signal
import sys
import tempfile
import types
from pathlib import Path

from . import detsched as ds
from .env import LoggerStub, boot

T0 = 1000000.0
PORTS = [10767, 10768, 10769, 10770]
CUR = [None]
# the events the code-shaped model (spec/ServerRun.tla, Gen_ServerRun.tla) speaks about
OBS = {'boot', 'create', 'start', 'ready', 'report', 'noiface', 'mdown', 'ret', 'up', 'disc_new', 'stopped', 'hook',
       'down', 'if_begin', 'bind', 'bindfail', 'serve_b', 'serve_e', 'close', 'if_end', 'disc_close',
       'ish_b', 'ish_e', 'req_b', 'req_e'}


# --------------------------------------------------------------------------- scheduler with signal delivery

class Sched(ds.Scheduler):
    """signals are handled by the thread `main` at its next scheduling point; a blocked main thread is woken"""

    def __init__(self, *a, **k):
        super().__init__(*a, **k)
        self.sigq = []
        self.in_handler = False
        self.main = None
        self.deliver = None        # callable(num): runs the installed handler
        self.on_stop = None        # called by the controller when the run is over, before the threads are unwound

    def teardown(self):
        if self.on_stop is not None and not self.aborting:
            try:
                self.on_stop()
            finally:
                self.on_stop = None
        super().teardown()

    def _deliver(self):
        while self.sigq and not self.in_handler and not self.aborting:
            num = self.sigq.pop(0)
            self.in_handler = True
            try:
                self.deliver(num)
            finally:
                self.in_handler = False

    def yield_(self, what='yield'):
        super().yield_(what)
        if self.sigq and not self.in_handler and self.main is not None and self.me() is self.main:
            self._deliver()

    def block(self, pred, timeout=None, what='block'):
        t = self.me()
        if t is None or t is not self.main or self.in_handler:
            return super().block(pred, timeout, what)
        end = None if timeout is None else self.now + max(0.0, timeout)
        while True:
            ok = super().block(lambda: bool(self.sigq) or pred(), None if end is None else max(0.0, end - self.now), what)
            if self.sigq:
                self._deliver()
                if pred():
                    return True
                if end is not None and self.now >= end:
                    return False
                continue
            return ok


def S():
    return ds.Scheduler.current_sched


# --------------------------------------------------------------------------- logger

class WLog(LoggerStub):
    propagate = True

    def __init__(self, name, world):
        super().__init__(name)
        self.world = world

    def getChild(self, name, *a):
        c = WLog(self.name + '.' + name, self.world)
        c.parent = self
        return c

    def _rec(self, level, fmt, *args, **kw):
        try:
            text = str(fmt) % args if args else str(fmt)
        except Exception:
            text = str(fmt)
        self.world.on_log(self.name, level, text)

    def debug(self, fmt, *a, **k):
        pass

    def info(self, fmt, *a, **k):
        self._rec('info', fmt, *a)

    def warning(self, fmt, *a, **k):
        self._rec('warning', fmt, *a)

    warn = warning

    def error(self, fmt, *a, **k):
        self._rec('error', fmt, *a)

    exception = critical = error

    def log(self, level, fmt, *a, **k):
        pass


# --------------------------------------------------------------------------- the world

class World:
    """case: {
        'ifaces': ['tcp', 'fake', 'unk', ...]            scheme of every configured interface (1 .. 3)
        'kinds':  [[kind per interface] per generation]    the last entry is repeated; kinds:
                   tcp : ok | inuse1 .. inuse4 (EADDRINUSE that often, then ok) | inuse5 (gives up) | denied
                   fake: ok | slow | late | fail | opts          unk: '-'
        'threads': {name: [op, ...]}                       environment threads; op = {'do': restart | shutdown | sigterm |
                   sigint | crash, 'i': interface (crash), 'after': {'ev':.., 'g':.., ...} | None, 'n': occurrence,
                   'vt': virtual seconds}: the op becomes enabled when the n-th recorded event matching `after` exists
                   (and the virtual time is >= vt)
        'mode':   '' | 'testonly' | 'nt' | 'systemd' | 'systemd_broken' | 'badcfg<g>' | 'args' | 'noif'
        'tmax':   virtual seconds until the run is cut
      }"""

    def __init__(self, case, strategy, line_level=False, max_steps=60000):
        boot()
        CUR[0] = self
        self.case = case
        self.s = Sched(strategy, max_steps=max_steps, eps=2.0 ** -16, wait_eps=2.0 ** -16,
                       trace_files=('frappy/server.py',) if line_level else ())
        self.log = []
        self.gen = 0
        self.schemes = list(case['ifaces'])
        self.uris = ['%s://%d' % (sch, PORTS[k]) for k, sch in enumerate(self.schemes)]
        self.listening = set()        # (g, i)
        self.servers = {}             # (g, i) -> interface object
        self.tries = {}
        self.socks = []
        self.tgen = {}                # thread name -> generation it belongs to
        self.roles = {}               # thread name -> role
        self.crash = set()            # interfaces (i) whose serving loop shall fail
        self.result = {}
        self.notified = []
        self.srv = None
        self.req_open = {}
        self.nobs = 0
        self.modst = {}
        self.snaps = []

    # ---- bookkeeping
    def kind(self, g, i):
        kinds = self.case['kinds']
        row = kinds[min(g, len(kinds)) - 1]
        return row[i - 1]

    def index(self, port_or_uri):
        if isinstance(port_or_uri, str):
            try:
                port_or_uri = int(port_or_uri.split('://')[-1])
            except ValueError:
                return 0
        return PORTS.index(port_or_uri) + 1 if port_or_uri in PORTS else 0

    def mygen(self):
        me = self.s.me()
        return self.tgen.get(me.name, self.gen) if me is not None else self.gen

    def role(self):
        me = self.s.me()
        if me is None:
            return 'ctl'
        return self.roles.get(me.name) or me.name

    def ev(self, **e):
        """record an observable event; scheduling point after it"""
        s = self.s
        if s.aborting:
            return e
        e['th'] = self.role()
        e['vt'] = int(round((s.now - T0) * 10))        # tenths of a virtual second
        name = e['ev']
        if name in ('create', 'start', 'mdown'):
            self.modst.setdefault(e['g'], {})[e['m']] = {'create': 'created', 'start': 'started', 'mdown': 'down'}[name]
        self.log.append(e)
        self.snaps.append(self.snapshot())
        if name in OBS:
            self.nobs += 1
        if s.me() is not None and not s.aborting:
            s.yield_('ev')
        return e

    def raw(self, e):
        """an event recorded by the controller (no scheduling point)"""
        self.log.append(e)
        self.snaps.append(self.snapshot())

    def snapshot(self):
        """projected state (the vocabulary of Proj in spec/Gen_ServerRun.tla)"""
        g = self.gen
        ms = set(self.modst.get(g, {}).values())
        mods = 'none' if not ms else 'started' if ms == {'started'} else 'down' if ms == {'down'} else 'mixed'
        return {'gen': g, 'lis': sorted(i for (g2, i) in self.listening if g2 == g),
                'disc': sorted({k.g for k in self.socks if not k.closed}), 'mods': mods,
                'ret': self.result.get('run') == 'ret'}

    def on_log(self, name, level, text):
        srv = self.srv
        if srv is None or name != self.srvlogname:
            return
        g = self.gen
        if level == 'error':
            if 'no interface' in text:
                self.ev(ev='noiface', g=g)
                return
            for k, uri in enumerate(self.uris, 1):
                if uri in text:
                    self.ev(ev='report', g=g, i=k, kind='timeout' if 'timeout' in text else 'fail')
                    return
            self.ev(ev='error', g=g, text=text[:60])
        elif level == 'info':
            if text.startswith('startup done'):
                try:
                    prop = [self.index(u) for u in srv.secnode.get_secnode_property('_interfaces')]
                except Exception:
                    prop = [-1]
                named = [k for k, uri in enumerate(self.uris, 1) if uri in text]
                self.ev(ev='up', g=g, ann=sorted(prop), named=sorted(named))
            elif text.startswith('stopped listening'):
                self.ev(ev='stopped', g=g)
            elif text == 'restarting':
                self.ev(ev='restarting', g=g)
            elif text == 'shut down':
                self.ev(ev='down', g=g)

    # ---- construction of the server
    def make_modules(self):
        from frappy.errors import ConfigError
        from frappy.modules import Module
        world = self

        class Base(Module):
            mname = '?'

            def __init__(self, *a, **k):
                g = world.gen
                if world.case.get('mode') == 'badcfg%d' % g and self.mname == 'm2':
                    raise ConfigError('scripted configuration error')
                super().__init__(*a, **k)
                self._g = g
                world.ev(ev='create', g=g, m=self.mname)

            def startModule(self, start_events):
                if world.case.get('mode') == 'startexc' and self.mname == 'm2':
                    raise RuntimeError('scripted failure in startModule')
                world.ev(ev='start', g=self._g, m=self.mname)
                super().startModule(start_events)

            def shutdownModule(self):
                world.ev(ev='mdown', g=self._g, m=self.mname)

        class M1(Base):
            mname = 'm1'
            enablePoll = True

            def doPoll(self):
                me = world.s.me()
                if me is not None and me.name not in world.roles:
                    world.roles[me.name] = 'poll'
                    world.tgen[me.name] = self._g
                world.ev(ev='poll', g=self._g, m='m1')

        class M2(Base):
            mname = 'm2'
            enablePoll = False

        mod = types.ModuleType('frappy_x06mods')
        mod.M1, mod.M2 = M1, M2
        sys.modules['frappy_x06mods'] = mod

    def make_ifaces(self):
        import frappy.protocol.interface.tcp as T
        world = self

        def bound(self, g, i):
            self._x_g, self._x_i = g, i
            self._x_req = False
            self._x_done = ds.DEvent()
            world.listening.add((g, i))
            world.servers[(g, i)] = self
            world.ev(ev='bind', g=g, i=i)

        def init(self, server_address, RequestHandlerClass, bind_and_activate=True, enable_ipv6=False):
            s = world.s
            g, i = world.mygen(), world.index(server_address[1])
            n = world.tries[(g, i)] = world.tries.get((g, i), 0) + 1
            s.yield_('bind')
            kind = world.kind(g, i)
            if kind == 'denied':
                world.ev(ev='bindfail', g=g, i=i)
                raise OSError(errno.EACCES, 'Permission denied')
            held = any(i2 == i for (g2, i2) in world.listening)
            if held or (kind.startswith('inuse') and n <= int(kind[5:])):
                world.ev(ev='bindfail', g=g, i=i)
                raise OSError(errno.EADDRINUSE, 'Address already in use')
            bound(self, g, i)

        def serve_forever(self, poll_interval=0.5):
            s = world.s
            g, i = self._x_g, self._x_i
            world.ev(ev='serve_b', g=g, i=i)
            self._x_done.clear()
            try:
                s.block(lambda: self._x_req or (g, i) in world.crash, None, 'serve')
                if not self._x_req:
                    world.crash.discard((g, i))
                    world.ev(ev='serve_e', g=g, i=i, res='crash')
                    raise OSError(errno.EIO, 'scripted failure of the serving loop')
                world.ev(ev='serve_e', g=g, i=i, res='ok')
            finally:
                self._x_req = False
                self._x_done.set()

        def shutdown(self):
            g, i = self._x_g, self._x_i
            world.ev(ev='ish_b', g=g, i=i)
            self._x_req = True
            self._x_done.wait()
            world.ev(ev='ish_e', g=g, i=i)

        def server_close(self):
            g, i = self._x_g, self._x_i
            world.listening.discard((g, i))
            world.ev(ev='close', g=g, i=i)

        self._saved_tcp = {n: T.DualStackTCPServer.__dict__.get(n) for n in ('__init__', 'serve_forever', 'shutdown', 'server_close')}
        for n, fn in (('__init__', init), ('serve_forever', serve_forever), ('shutdown', shutdown), ('server_close', server_close)):
            setattr(T.DualStackTCPServer, n, fn)

        class FakeIface:
            def __init__(self, name, logger, options, srv):
                s = world.s
                uri = options['uri']
                g, i = world.mygen(), world.index(uri)
                kind = world.kind(g, i)
                s.yield_('bind')
                if kind != 'opts':
                    options.pop('uri')
                if kind == 'late':
                    s.sleep(15.0)
                elif kind == 'slow':
                    s.sleep(5.0)
                if kind == 'fail' or any(i2 == i for (g2, i2) in world.listening):
                    world.ev(ev='bindfail', g=g, i=i)
                    raise OSError(errno.EADDRINUSE, 'Address already in use')
                bound(self, g, i)

            def __enter__(self):
                return self

            def __exit__(self, *a):
                self.server_close()

        FakeIface.serve_forever = serve_forever
        FakeIface.shutdown = shutdown
        FakeIface.server_close = server_close
        mod = types.ModuleType('frappy.protocol.interface.x06fake')
        mod.FakeIface = FakeIface
        sys.modules['frappy.protocol.interface.x06fake'] = mod

    def restore(self):
        import frappy.protocol.interface.tcp as T
        for n, fn in getattr(self, '_saved_tcp', {}).items():
            if fn is None:
                try:
                    delattr(T.DualStackTCPServer, n)
                except AttributeError:
                    pass
            else:
                setattr(T.DualStackTCPServer, n, fn)
        sys.modules.pop('frappy.protocol.interface.x06fake', None)
        sys.modules.pop('frappy_x06mods', None)
        shutil.rmtree(getattr(self, 'tmp', ''), ignore_errors=True)
        CUR[0] = None

    def fake_socket_module(self):
        import socket as real
        world = self

        class Sock:
            def __init__(self, *a, **k):
                self.g = world.gen
                self.closed = False
                self.q = []
                world.socks.append(self)

            def setsockopt(self, *a):
                pass

            def bind(self, addr):
                world.s.yield_('udp.bind')

            def recvfrom(self, n, *flags):
                s = world.s
                s.yield_('udp.recv')
                if not self.closed:
                    s.block(lambda: self.closed or bool(self.q), None, 'udp')
                if self.closed:
                    raise OSError(errno.EBADF, 'Bad file descriptor')
                return self.q.pop(0)

            def sendto(self, data, *rest):
                s = world.s
                s.yield_('udp.send')
                if self.closed:
                    raise OSError(errno.EBADF, 'Bad file descriptor')
                try:
                    p = world.index(json.loads(data.decode('utf-8'))['port'])
                except Exception:
                    p = -1
                world.ev(ev='announce', g=self.g, p=p)
                return len(data)

            def shutdown(self, how):
                pass

            def close(self):
                if not self.closed:
                    self.closed = True
                    world.ev(ev='disc_close', g=self.g)

        return ds._Mod(real, socket=Sock)

    def build(self):
        """inside Patch: the real Server.__init__ on a generated configuration file"""
        import frappy.protocol.discovery as D
        import frappy.server as srvmod
        from frappy.lib import generalConfig
        case = self.case
        mode = case.get('mode', '')
        world = self
        self.make_modules()
        self.make_ifaces()
        self.tmp = tempfile.mkdtemp(prefix='x06srv-')
        generalConfig._config['piddir'] = Path(self.tmp)
        uris = list(self.uris)
        if mode == 'args' and uris[0].startswith('tcp://'):
            main_in_file, arg = None, int(uris[0][6:])         # a bare port number on the command line
        else:
            main_in_file, arg = uris[0], None
        if case.get('bare') and uris[0].startswith('tcp://'):
            main_in_file = uris[0][6:]                         # 'allow missing tcp://'
        path = os.path.join(self.tmp, 'x06node_cfg.py')
        with open(path, 'w', encoding='utf-8') as f:
            if mode == 'noif':
                f.write("Node('x06.eq', 'descr')\n")
            else:
                f.write('Node(%r, %r, %r, secondary=%r)\n' % ('x06.eq', 'descr', main_in_file, uris[1:]))
            f.write("Mod('m1', 'frappy_x06mods.M1', 'polled')\n")
            f.write("Mod('m2', 'frappy_x06mods.M2', 'not polled')\n")

        class Listener(D.UDPListener):
            def __init__(self, eq, descr, ifaces, logger, **kw):
                super().__init__(eq, descr, ifaces, logger, **kw)
                self._x_g = self.sock.g
                self._x_given = sorted(world.index(u) for u in ifaces)

            def run(self):
                me = world.s.me()
                if me is not None:
                    world.roles[me.name] = 'disc'
                    world.tgen[me.name] = self._x_g
                try:
                    super().run()
                except OSError:
                    pass           # its socket was closed while it was announcing itself: the thread ends
                finally:
                    world.ev(ev='disc_end', g=self._x_g)

        class Srv(srvmod.Server):
            def __setattr__(self, name, value):
                # `self.discovery = UDPListener(...)`: from now on restart() / shutdown() see the responder
                object.__setattr__(self, name, value)
                if name == 'discovery' and value is not None:
                    world.ev(ev='disc_new', g=value._x_g, ports=sorted(world.index(p) for p in value.ports),
                             given=value._x_given)

            def _processCfg(self):
                world.gen += 1
                g = world.gen
                world.ev(ev='boot', g=g)
                super()._processCfg()
                world.ev(ev='ready', g=g)

            def restart_hook(self):
                world.ev(ev='hook', g=world.gen)

            def _interfaceThread(self, opts, *a):
                me = world.s.me()
                g, i = world.gen, world.index(opts['uri'])
                if me is not None:
                    world.tgen[me.name] = g
                    world.roles[me.name] = 'if%d' % i
                world.ev(ev='if_begin', g=g, i=i)
                try:
                    super()._interfaceThread(opts, *a)
                finally:
                    world.ev(ev='if_end', g=g, i=i)

        Srv.INTERFACES = dict(srvmod.Server.INTERFACES, fake='protocol.interface.x06fake.FakeIface')
        self.patch_extra = {'UDPListener': Listener}
        if mode in ('systemd', 'systemd_broken'):
            class Daemon:
                def notify(self_, text):
                    if mode == 'systemd_broken':
                        raise RuntimeError('no systemd')
                    for line in text.split('\n'):
                        key, _, val = line.partition('=')
                        if key != 'STATUS':
                            world.ev(ev='notify', what=key)
                        elif val == 'initializing':
                            world.ev(ev='notify', what='INIT')
            self.patch_extra['systemd'] = types.SimpleNamespace(daemon=Daemon())
        if mode == 'nt':
            self.patch_extra['os'] = ds._Mod(os, name='nt')
        root = WLog('root', self)
        handlers = [signal.getsignal(signal.SIGINT), signal.getsignal(signal.SIGTERM)]
        try:
            kw = {}
            if arg is not None:
                kw['interface'] = arg
            if mode == 'testonly':
                kw['testonly'] = True
            if mode == 'args':
                self.srv = Srv(path, root, **kw)       # the name is the path of the file: sanitised, cfgfiles = [name]
            else:
                self.srv = Srv('x06node', root, cfgfiles=[path], **kw)
            self.installed = {signal.SIGINT: signal.getsignal(signal.SIGINT), signal.SIGTERM: signal.getsignal(signal.SIGTERM)}
        finally:
            signal.signal(signal.SIGINT, handlers[0])
            signal.signal(signal.SIGTERM, handlers[1])
        self.srvlogname = self.srv.log.name
        return self.srv

    # ---- threads
    def main(self):
        s = self.s
        s.main = s.me()
        self.roles[s.me().name] = 'main'
        s.deliver = self.handle_signal
        import io
        saved = sys.stderr, sys.stdout
        sys.stderr, sys.stdout = io.StringIO(), io.StringIO()
        try:
            self.srv.run()
            self.result['run'] = 'ret'
            self.ev(ev='ret')
        except ds.SchedAbort:
            raise
        except BaseException as e:  # noqa
            self.result['run'] = 'exc'
            self.ev(ev='exc', exc=type(e).__name__)
        finally:
            sys.stderr, sys.stdout = saved

    def handle_signal(self, num):
        h = self.installed.get(num)
        name = 'sigterm' if num == signal.SIGTERM else 'sigint'
        self.ev(ev='sig_b', sig=name)
        try:
            if not callable(h):
                self.ev(ev='killed', sig=name)         # no handler installed: the process dies
                raise SystemExit(1)
            h(num, None)
        finally:
            self.ev(ev='sig_e', sig=name)

    def _matches(self, e, pat):
        return all(e.get(k) == v for k, v in pat.items())

    def enabled(self, op):
        if op.get('vt') is not None and self.s.now - T0 < op['vt']:
            return False
        if op.get('nobs') is not None:
            return self.nobs >= op['nobs']
        pat = op.get('after')
        if not pat:
            return True
        n = op.get('n', 1)
        cnt = 0
        for e in self.log:
            if self._matches(e, pat):
                cnt += 1
                if cnt >= n:
                    return True
        return False

    def env_thread(self, name, ops):
        s = self.s
        self.roles[s.me().name] = name
        for k, op in enumerate(ops, 1):
            if not self.enabled(op):
                # (a time condition is a deadline, an event condition is looked at by the controller)
                tmax = self.case.get('tmax', 40)
                while not self.enabled(op):
                    if op.get('vt') is not None and s.now - T0 < op['vt']:
                        s.sleep(op['vt'] - (s.now - T0))
                    elif not s.block(lambda: self.enabled(op), max(0.0, tmax + 1 - (s.now - T0)), 'env'):
                        return          # its moment never came
            do = op['do']
            rid = '%s%d' % (name, k)
            if do in ('sigterm', 'sigint'):
                self.ev(ev='sig_sent', sig=do)
                s.sigq.append(signal.SIGTERM if do == 'sigterm' else signal.SIGINT)
                s.yield_('sig')
                continue
            if do == 'crash':
                self.crash.add((self.gen, op['i']))
                self.ev(ev='crash', i=op['i'])
                continue
            srv = self.srv
            # the way the router / a driver reaches the server: through the dispatcher resp. the node of NOW
            disp = getattr(srv, 'dispatcher', None)
            fn = getattr(disp, do, None) if disp is not None and do == 'restart' else getattr(srv, do)
            self.req_open[name] = True
            self.ev(ev='req_b', r=rid, kind=do)
            exc = ''
            try:
                fn()
            except ds.SchedAbort:
                raise
            except BaseException as e:  # noqa
                exc = type(e).__name__
            self.req_open[name] = False
            self.ev(ev='req_e', r=rid, kind=do, exc=exc)

    # ---- run
    def patches(self):
        import frappy.modulebase as mb
        import frappy.protocol.discovery as D
        import frappy.protocol.dispatcher as dp
        import frappy.protocol.interface.tcp as T
        import frappy.secnode as sn
        import frappy.server as srvmod
        from .lifeworld import sched_multievent
        extra = {'frappy.server': {'MultiEvent': sched_multievent()},
                 'frappy.protocol.discovery': {'socket': self.fake_socket_module()}}
        return ds.Patch(mb, sn, srvmod, T, D, dp, extra=extra)

    def execute(self):
        """-> dict(trace, choices, ...)"""
        import frappy.server as srvmod
        s = self.s
        tmax = self.case.get('tmax', 40)
        err = ''
        rows = self.case['kinds']
        self.raw({'ev': 'cfg', 'nif': len(self.schemes), 'mode': self.case.get('mode', ''),
                         'kinds': [list(rows[min(g, len(rows) - 1)]) for g in range(4)],
                         'nameform': 'path' if self.case.get('mode') == 'args' else 'plain', 'th': 'ctl', 'vt': 0})
        try:
            with self.patches():
                try:
                    srv = self.build()
                except ds.SchedAbort:
                    raise
                except Exception as e:     # the constructor refuses the arguments / the file
                    self.raw({'ev': 'init_exc', 'exc': type(e).__name__, 'th': 'ctl', 'vt': 0})
                    srv = None
                if srv is not None:
                    self.raw({'ev': 'init', 'name': srv.name, 'main': self.index(str(srv.node_cfg['interface'])),
                                     'disc': srv.discovery is None, 'hasif': hasattr(srv, 'interfaces'),
                                     'handlers': sorted(('sigint' if k == signal.SIGINT else 'sigterm')
                                                        for k, h in self.installed.items()
                                                        if getattr(h, '__func__', None) is srvmod.Server.signal_handler),
                                     'th': 'ctl', 'vt': 0})
                    saved = {}
                    for k, v in self.patch_extra.items():
                        saved[k] = getattr(srvmod, k, None)
                        setattr(srvmod, k, v)
                    try:
                        s.spawn('main', self.main)
                        for name, ops in sorted(self.case.get('threads', {}).items()):
                            s.spawn(name, self.env_thread, name, ops)
                        s.stop_when = lambda: s.now > T0 + tmax
                        s.on_stop = self.quiet
                        s.run()
                    finally:
                        for k, v in saved.items():
                            setattr(srvmod, k, v)
        finally:
            self.restore()
        return self.summary(err)

    def quiet(self):
        """the state when the run is cut (controller context): what is still there"""
        s = self.s
        alive = [n for n in s.order if not s.threads[n].finished]
        roles = {n: self.roles.get(n, n) for n in alive}
        self.raw({
            'ev': 'quiet', 'th': 'ctl', 'vt': int(round((s.now - T0) * 10)),
            'run': self.result.get('run', 'alive'),
            'ifalive': sorted([self.tgen.get(n, 0), int(r[2:])] for n, r in roles.items() if r.startswith('if')),
            'listening': sorted([g, i] for g, i in self.listening),
            'discopen': sorted({k.g for k in self.socks if not k.closed}),
            'discalive': sorted(self.tgen.get(n, 0) for n, r in roles.items() if r == 'disc'),
            'polls': sorted({self.tgen.get(n, 0) for n, r in roles.items() if r == 'poll'}),
            'reqalive': sorted(r for n, r in roles.items() if n in self.case.get('threads', {}) and self.req_open.get(n)),
            'deadlock': bool(s.deadlock), 'livelock': bool(s.livelock),
        })

    def summary(self, err=''):
        s = self.s
        exc = {self.roles.get(n, n): type(t.exc).__name__ for n, t in s.threads.items() if t.exc is not None}
        return {'trace': self.log, 'snaps': self.snaps, 'choices': [c for _, c in s.choices], 'raw_choices': list(s.choices),
                'deadlock': s.deadlock, 'livelock': s.livelock, 'err': err, 'thread_exc': exc}


class CanonStrategy:
    """the canonical schedule of spec/Gen_ServerRun.tla: a request that can go on goes on, a request whose moment
    has come begins, then the thread of run(), then interface threads (lowest index first), then responder threads;
    poll threads and everything else only when nobody of those can run"""

    def __init__(self, world):
        self.w = world

    def __call__(self, enabled, s):
        w = self.w
        env = sorted(n for n in enabled if n in w.case.get('threads', {}))
        for n in env:
            if w.req_open.get(n):
                return n
        if env:
            return env[0]
        if 'main' in enabled:
            return 'main'
        ifs = sorted((w.tgen.get(n, 0), int(w.roles[n][2:]), n) for n in enabled if w.roles.get(n, '').startswith('if'))
        if ifs:
            return ifs[0][2]
        # a thread that has not told yet who it is (just created): let it run up to its first event
        fresh = [n for n in enabled if n not in w.roles]
        if fresh:
            return fresh[0]
        disc = sorted((w.tgen.get(n, 0), n) for n in enabled if w.roles.get(n) == 'disc')
        if disc:
            return disc[0][1]
        return enabled[0]
