"""./check <ID> --tier quick|thorough [--seed N] [--replay PATH]"""
import argparse
import importlib
import json
import os
import sys
import traceback

from .core import Check, MachineryError


def main():
    import faulthandler
    import signal
    faulthandler.register(signal.SIGUSR1, all_threads=True)     # kill -USR1 <pid>: where is it?
    ap = argparse.ArgumentParser()
    ap.add_argument('prop')
    ap.add_argument('--tier', default=os.environ.get('VERIF_TIER', 'quick'), choices=['quick', 'thorough'])
    ap.add_argument('--seed', type=int, default=int(os.environ.get('VERIF_SEED', '0') or 0))
    ap.add_argument('--replay')
    a = ap.parse_args()
    if a.prop == '--selftest-tools' or a.prop == 'selftest':
        from . import selftest
        sys.exit(selftest.main())
    try:
        mod = importlib.import_module(f'.props.{a.prop.lower()}', 'harness')
    except ImportError:
        traceback.print_exc()
        print(f'no check for {a.prop}')
        sys.exit(2)
    chk = Check(a.prop.upper(), a.tier, a.seed, keep_replays=bool(a.replay))
    try:
        if a.replay:
            with open(a.replay) as f:
                rep = json.load(f)
            rc = mod.replay(chk, rep)
            sys.exit(rc)
        mod.run(chk)
        rc = chk.finish()
    except MachineryError as e:
        print(f'MACHINERY-FAILURE {a.prop}: {e}')
        sys.exit(2)
    except Exception:
        traceback.print_exc()
        print(f'MACHINERY-FAILURE {a.prop}: unexpected exception in the harness')
        sys.exit(2)
    sys.exit(rc)


if __name__ == '__main__':
    main()
