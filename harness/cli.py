"""./check <ID> --tier quick|thorough [--seed N] [--replay PATH]"""
import argparse
import importlib
import json
import os
import sys
import traceback

from .core import Check, MachineryError


def _descendants(pid):
    kids = {}
    for d in os.listdir('/proc'):
        if d.isdigit():
            try:
                with open(f'/proc/{d}/stat') as f:
                    ppid = int(f.read().rsplit(')', 1)[1].split()[1])
            except (OSError, ValueError, IndexError):
                continue
            kids.setdefault(ppid, []).append(int(d))
    out, todo = [], [pid]
    while todo:
        for k in kids.get(todo.pop(), []):
            out.append(k)
            todo.append(k)
    return out


def _watchdog(prop, tier):
    """a check always ends with a verdict or a machinery failure (DESIGN 9.5 lesson 7): if a call into frappy (or
    TLC) does not return and no harness-level guard turns that into a verdict, the whole check is ended with
    exit 2 after a wall-clock budget far above its normal run time"""
    import signal
    import threading
    limit = float(os.environ.get('VERIF_WALL_LIMIT', 2400 if tier == 'quick' else 7200))

    def expire():
        print(f'MACHINERY-FAILURE {prop}: the check did not finish within {limit:.0f} s (a call into frappy or TLC '
              f'does not return); no verdict', flush=True)
        for k in _descendants(os.getpid()):
            try:
                os.kill(k, signal.SIGKILL)
            except OSError:
                pass
        os._exit(2)
    th = threading.Timer(limit, expire)
    th.daemon = True
    th.start()


def main():
    import faulthandler
    import signal
    faulthandler.register(signal.SIGUSR1, all_threads=True)     # kill -USR1 <pid>: where is it?
    ap = argparse.ArgumentParser()
    ap.add_argument('prop')
    ap.add_argument('--tier', default=os.environ.get('VERIF_TIER', 'quick'), choices=['quick', 'thorough'])
    ap.add_argument('--seed', type=int, default=int(os.environ.get('VERIF_SEED', '0') or 0))
    ap.add_argument('--replay')
    a = ap.parse_args()
    if a.prop == '--selftest-tools' or a.prop == 'selftest':
        from . import selftest
        sys.exit(selftest.main())
    try:
        mod = importlib.import_module(f'.props.{a.prop.lower()}', 'harness')
    except ImportError:
        traceback.print_exc()
        print(f'no check for {a.prop}')
        sys.exit(2)
    chk = Check(a.prop.upper(), a.tier, a.seed, keep_replays=bool(a.replay))
    _watchdog(a.prop.upper(), a.tier)
    try:
        if a.replay:
            with open(a.replay) as f:
                rep = json.load(f)
            rc = mod.replay(chk, rep)
            sys.exit(rc)
        mod.run(chk)
        rc = chk.finish()
    except MachineryError as e:
        print(f'MACHINERY-FAILURE {a.prop}: {e}')
        sys.exit(2)
    except Exception:
        traceback.print_exc()
        print(f'MACHINERY-FAILURE {a.prop}: unexpected exception in the harness')
        sys.exit(2)
    sys.exit(rc)


if __name__ == '__main__':
    main()
