SPECIFICATION FairSpec
CONSTANTS
  Threads = {"a", "b", "w"}
  Script <- Scen_new
  InitEv <- Init_one
  MaxTime = 3
  Inf = 99
  RaisingActs = {}
  FixLock = TRUE
  FixInit = TRUE
  FixIsSet = TRUE
  DetTime = FALSE
  Locked = TRUE
PROPERTY Termination
CHECK_DEADLOCK FALSE
