SPECIFICATION GSpec
CONSTANTS
  Kinds = {"d", "ad", "r", "adc"}
  MaxLen = 2
  Hooks = {"none"}
  FaultModes = {"ew"}
  Depth = 12
  MaxStarts = 2
  MaxRefused = 0
  MaxStops = 1
CONSTRAINT Bound
INVARIANT Emit1
CHECK_DEADLOCK FALSE
