SPECIFICATION DSpec
CONSTANTS
  Vals = {0, 8, 16, 48, 84}
  Ramps = {0, 16, 24}
  Jitters = {0}
  Shapes = {"ramp", "speed", "none", "writable", "readable"}
INVARIANT TypeOK
INVARIANT Storage
INVARIANT WritableFollows
PROPERTY BusyOnChange
PROPERTY BusyUntilArrival
PROPERTY BusyAfterTick
PROPERTY NoOvershoot
PROPERTY RampRate
PROPERTY Progress
PROPERTY Settles
PROPERTY OnlyTickMoves
CHECK_DEADLOCK FALSE
