SPECIFICATION TSpec
CONSTANTS
  Statuses = {}
  Codes = {}
CONSTRAINT Track
POSTCONDITION Verdicts
CHECK_DEADLOCK FALSE
