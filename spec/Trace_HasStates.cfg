SPECIFICATION TSpec
CONSTANTS
  Statuses = {}
CONSTRAINT Track
POSTCONDITION Verdicts
CHECK_DEADLOCK FALSE
