SPECIFICATION Spec
CONSTANTS
  Callers = {"a", "b"}
  Script <- ScriptA
  Mode <- ModeLate
  Chunks = 2
  MaxGarbage = 1
  HoldLock = TRUE
  FlushFirst = FALSE
INVARIANT Paired
INVARIANT FramingIndependent
INVARIANT FailsWhenSilent
INVARIANT Atomic
CHECK_DEADLOCK FALSE
