SPECIFICATION GSpec
CONSTANTS
  Members = {"p", "q"}
  Vals = {1, 2, 3, 4}
  HwMax = 3
  HwModes = {"clip", "refuse"}
  Excs = {"badvalue", "hardware", "other"}
  FM = "q"
  FDepth = 3
  Depth = 7
  Depth2 = 5
  Layouts = {"combined", "separate"}
  WM = {"q"}
  WV = {4}
  AM = {"p"}
  AV = {1}
  RM = {"q"}
  SWV = {2}
  SAV = {}
  RS = FALSE
CONSTRAINT Bound
INVARIANT Emit1
CHECK_DEADLOCK FALSE
