SPECIFICATION GSpec
CONSTANTS
  Members = {"p", "q"}
  Vals = {1, 2, 3, 4}
  HwMax = 3
  Depth = 7
  Layouts = {"combined", "separate"}
  WM = {"q"}
  WV = {4}
  AM = {"p"}
  AV = {3}
  RM = {"q"}
  SWV = {0}
  SAV = {}
  RS = FALSE
CONSTRAINT Bound
INVARIANT Emit1
CHECK_DEADLOCK FALSE
