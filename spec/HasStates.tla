------------------------------ MODULE HasStates ------------------------------
(* C14, last sentence: "A module built on it reports a busy status from the start      *)
(* request until the machine has finished and its final or stopped status afterwards." *)
(* frappy/states.py HasStates (start_machine / stop_machine / stop command /           *)
(* state_transition / final_status / on_cleanup, on_error / cycle_machine incl. fast   *)
(* poll switching), frappy/modules.py Drivable.isBusy / isDriving.                     *)
(*                                                                                     *)
(* Requirement automaton over what can be observed at the module's boundary:           *)
(*   Posted              start_machine() has handed the request to the machine         *)
(*   Started(fast)       start_machine(fast_poll=fast) has returned                    *)
(*   StopReq(act, st)    stop_machine(st) / the stop command returned; act = the       *)
(*                       machine was active                                            *)
(*   Final(st)           a state function called final_status(st) (and returns it)     *)
(*   OnCleanup(kind, reason)  HasStates.on_cleanup dispatched to on_<kind> while the   *)
(*                       machine's cleanup reason is of kind `reason`                  *)
(*   Hook(to, task, reason)  the machine performs a transition (to = "none": the run   *)
(*                       ends; task = kind of the request pending at that moment,      *)
(*                       reason = kind of the machine's cleanup_reason)                *)
(*   Update(code, st)    a status update is sent to the clients                        *)
(*   Polled              a doPoll call has returned                                    *)
(*   Quiet(act, pend, code, st, fast)  nothing is executing: machine active?, pending  *)
(*                       request kind, the module's status, fast polling on?           *)
(* Status texts are not part of the property (the spec is silent on them) except that  *)
(* the final / stopped status must be exactly the one given.                           *)
EXTENDS Naturals, TLC

CONSTANTS Statuses,     \* abstract status values (code:text) that may be given as final / stopped status
          Codes         \* status codes explored by the design check

(* the busy predicate of a drivable: code in [BUSY, ERROR); driving: [BUSY, FINALIZING) *)
Busy(code) == code >= 300 /\ code < 400
Driving(code) == code >= 300 /\ code < 390
IsError(code) == code >= 400 /\ code < 500

AnySt == "any"
VARIABLES req,      \* a start was requested and the machine has not finished since: busy is due
          stopst,   \* stopped status given with the stop request in force
          finalst,  \* final status announced by the state function that just returned Finish
          ending,   \* a run has ended and cycle() has not yet gone on (window in which the pending request is taken)
          fin,      \* set of statuses allowed while the machine is inactive ({}: any non-busy status)
          errdue,   \* HasStates.on_error has just handled the failure of the run
          finerr,   \* the run ended through on_error: an ERROR status is due while inactive
          fastreq,  \* a start request asked for fast polling and the machine has not finished since
          grace     \* start_machine() returned after its machine had already finished again: fast polling
                    \* may still be on until the next poll has switched it off
hvars == <<req, stopst, finalst, fin, ending, errdue, finerr, fastreq, grace>>

HInit == /\ req = FALSE /\ stopst = AnySt /\ finalst = AnySt /\ fin = {} /\ ending = FALSE
         /\ errdue = FALSE /\ finerr = FALSE /\ fastreq = FALSE /\ grace = FALSE

(* start_machine() is not one step: it hands the request to the machine (Posted: from here *)
(* on the machine is about to run, busy is due) and it writes / publishes the BUSY status   *)
(* and switches polling (returned: Started).  Cycles of the poll thread may fall between    *)
(* the steps: a machine that already finished again before start_machine() returns owes no  *)
(* busy status and no fast polling any more.                                                *)
Posted == /\ req' = TRUE /\ ending' = FALSE
          /\ UNCHANGED <<stopst, finalst, fin, errdue, finerr, fastreq, grace>>

Started(fast) == /\ fastreq' = ((fastreq \/ fast) /\ req)
                 /\ grace' = (grace \/ (fast /\ ~req))
                 /\ UNCHANGED <<req, ending, stopst, finalst, fin, errdue, finerr>>

(* a poll (doPoll) has completed *)
Polled == grace' = FALSE /\ UNCHANGED <<req, ending, stopst, finalst, fin, errdue, finerr, fastreq>>

(* a stop request accepted while a run is ending cancels a start it would hand over to *)
(* (the machine finishes) and its stopped status becomes an admissible final status   *)
StopReq(act, st) == /\ stopst' = IF act THEN st ELSE stopst
                    /\ IF act /\ ending
                       THEN /\ req' = FALSE /\ fastreq' = FALSE /\ finerr' = FALSE
                            /\ fin' = (IF fin = {} THEN {} ELSE fin \cup {st})
                       ELSE UNCHANGED <<req, fin, fastreq, finerr>>
                    /\ UNCHANGED <<finalst, ending, errdue, grace>>

Final(st) == finalst' = st /\ UNCHANGED <<req, stopst, fin, ending, errdue, finerr, fastreq, grace>>

(* the general cleanup dispatches on the kind of the cleanup reason *)
OnCleanup(kind, reason) == /\ kind = reason
                           /\ errdue' = (kind = "error")
                           /\ UNCHANGED <<req, stopst, finalst, fin, ending, finerr, fastreq, grace>>

(* statuses the property determines for a run ending now: the final status announced   *)
(* by the state function that returned Finish, the stopped status when a stop request   *)
(* is in force; after an error only the class (ERROR, when on_error handled it)         *)
Due(task, reason) == IF reason = "error" THEN {}
                     ELSE ({finalst} \cup (IF task = "stop" \/ reason = "stop" THEN {stopst} ELSE {})) \ {AnySt}

Hook(to, task, reason) ==
    IF to = "none"
    THEN \* the run ends here; the machine finishes unless a start request is pending
         /\ req' = (req /\ task = "start")
         /\ fastreq' = (fastreq /\ task = "start")
         /\ fin' = Due(task, reason)
         \* (a stop request in force at that moment may legitimately give the stopped status instead)
         /\ finerr' = (errdue /\ reason = "error" /\ finalst = AnySt /\ task # "stop")
         /\ ending' = TRUE
         /\ finalst' = AnySt /\ errdue' = FALSE /\ UNCHANGED <<stopst, grace>>
    ELSE /\ finalst' = AnySt /\ ending' = FALSE /\ errdue' = FALSE
         /\ UNCHANGED <<req, stopst, fin, finerr, fastreq, grace>>

(* BusyWhileRunning, update stream: no non-busy update between start request and finish *)
Update(code, st) == /\ req => Busy(code)
                    /\ UNCHANGED hvars

(* BusyWhileRunning, state: busy iff the machine is active or about to start, polling    *)
(* fast when asked for; afterwards the final / stopped / error status and normal polling *)
Quiet(act, pend, code, st, fast) ==
    /\ ending' = FALSE /\ UNCHANGED <<req, stopst, finalst, fin, errdue, finerr, fastreq, grace>>
    /\ (act \/ pend = "start") => (Busy(code) /\ req /\ (fastreq => fast))
    /\ ~(act \/ pend = "start") => (/\ ~Busy(code) /\ ~req /\ (fast => grace)
                                    /\ (fin = {} \/ st \in fin)
                                    /\ (finerr => IsError(code)))

HNext == \/ Posted \/ Polled
         \/ \E fast \in BOOLEAN : Started(fast)
         \/ \E act \in BOOLEAN, st \in Statuses : StopReq(act, st)
         \/ \E st \in Statuses : Final(st)
         \/ \E kind \in {"start", "stop", "error"} : OnCleanup(kind, kind)
         \/ \E to \in {"none", "s"}, task \in {"none", "start", "stop"}, reason \in {"none", "start", "stop", "error"} :
               Hook(to, task, reason)
         \/ \E code \in Codes, st \in Statuses : Update(code, st)
         \/ \E act \in BOOLEAN, pend \in {"none", "start", "stop"}, code \in Codes, st \in Statuses, fast \in BOOLEAN :
               Quiet(act, pend, code, st, fast)
HSpec == HInit /\ [][HNext]_hvars

HTypeOK == /\ {req, ending, errdue, finerr, fastreq, grace} \subseteq BOOLEAN
           /\ {stopst, finalst} \subseteq Statuses \cup {AnySt} /\ fin \subseteq Statuses
(* the requirement is only lifted at a finish and only raised by a start request *)
ReqDiscipline == [][/\ (req /\ ~req') => (ending' /\ fin' \subseteq fin \cup {stopst', finalst})
                    /\ (~req /\ req') => UNCHANGED <<stopst, finalst, fin>>
                    /\ (fastreq' /\ ~fastreq) => req']_hvars
(* fast polling is only demanded while busy is demanded; an error status only after on_error *)
FastOnlyWhileRunning == fastreq => req
ErrOnlyAfterOnError == [][(finerr' /\ ~finerr) => errdue]_hvars
=============================================================================
