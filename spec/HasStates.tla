------------------------------ MODULE HasStates ------------------------------
(* C14, last sentence: "A module built on it reports a busy status from the start      *)
(* request until the machine has finished and its final or stopped status afterwards." *)
(* frappy/states.py HasStates (start_machine / stop_machine / state_transition /       *)
(* final_status / cycle_machine), frappy/modules.py Drivable.isBusy.                   *)
(*                                                                                     *)
(* Requirement automaton over what can be observed at the module's boundary:           *)
(*   Started             start_machine() has returned                                  *)
(*   StopReq(act, st)    stop_machine(st) returned; act = machine was active           *)
(*   Final(st)           a state function called final_status(st) (and returns it)     *)
(*   Hook(to, task, reason)  the machine performs a transition (to = "none": the run   *)
(*                       ends; task = kind of the request pending at that moment,      *)
(*                       reason = kind of the machine's cleanup_reason)                *)
(*   Update(busy,st,own) a status update is sent to the clients (own: by start_machine)*)
(*   Quiet(act, pend, busy, st)  nothing is executing: machine active?, pending        *)
(*                       request kind, the module's status                             *)
(* Status texts are not part of the property (the spec is silent on them) except that  *)
(* the final / stopped status must be exactly the one given.                           *)
EXTENDS Naturals, TLC

CONSTANTS Statuses      \* abstract non-busy status values that may be given as final / stopped status

AnySt == "any"
VARIABLES req,      \* a start was requested and the machine has not finished since: busy is due
          stopst,   \* stopped status given with the stop request in force
          finalst,  \* final status announced by the state function that just returned Finish
          ending,   \* a run has ended and cycle() has not yet gone on (window in which the pending request is taken)
          fin       \* set of statuses allowed while the machine is inactive ({}: any non-busy status)
hvars == <<req, stopst, finalst, fin, ending>>

HInit == req = FALSE /\ stopst = AnySt /\ finalst = AnySt /\ fin = {} /\ ending = FALSE

Started == req' = TRUE /\ ending' = FALSE /\ UNCHANGED <<stopst, finalst, fin>>

(* a stop request accepted while a run is ending cancels a start it would hand over to *)
(* (the machine finishes) and its stopped status becomes an admissible final status   *)
StopReq(act, st) == /\ stopst' = IF act THEN st ELSE stopst
                    /\ IF act /\ ending
                       THEN req' = FALSE /\ fin' = (IF fin = {} THEN {} ELSE fin \cup {st})
                       ELSE UNCHANGED <<req, fin>>
                    /\ UNCHANGED <<finalst, ending>>

Final(st) == finalst' = st /\ UNCHANGED <<req, stopst, fin, ending>>

(* statuses the property determines for a run ending now: the final status announced   *)
(* by the state function that returned Finish, the stopped status when a stop request   *)
(* is in force; nothing determinate after an error or a plain Finish                    *)
Due(task, reason) == IF reason = "error" THEN {}
                     ELSE ({finalst} \cup (IF task = "stop" \/ reason = "stop" THEN {stopst} ELSE {})) \ {AnySt}

Hook(to, task, reason) ==
    IF to = "none"
    THEN \* the run ends here; the machine finishes unless a start request is pending
         /\ req' = (req /\ task = "start")
         /\ fin' = Due(task, reason)
         /\ ending' = TRUE
         /\ finalst' = AnySt /\ UNCHANGED stopst
    ELSE /\ finalst' = AnySt /\ ending' = FALSE /\ UNCHANGED <<req, stopst, fin>>

(* BusyWhileRunning, update stream: no non-busy update between start request and finish; *)
(* own = the update is sent by start_machine() itself (the request is being made)       *)
Update(busy, st, own) == /\ (req \/ own) => busy
                    /\ UNCHANGED hvars

(* BusyWhileRunning, state: busy iff the machine is active or about to start; the final *)
(* or stopped status afterwards                                                         *)
Quiet(act, pend, busy, st) ==
    /\ ending' = FALSE /\ UNCHANGED <<req, stopst, finalst, fin>>
    /\ (act \/ pend = "start") => (busy /\ req)
    /\ ~(act \/ pend = "start") => (~busy /\ ~req /\ (fin = {} \/ st \in fin))

HNext == \/ Started
         \/ \E act \in BOOLEAN, st \in Statuses : StopReq(act, st)
         \/ \E st \in Statuses : Final(st)
         \/ \E to \in {"none", "s"}, task \in {"none", "start", "stop"}, reason \in {"none", "start", "stop", "error"} :
               Hook(to, task, reason)
         \/ \E busy \in BOOLEAN, st \in Statuses, own \in BOOLEAN : Update(busy, st, own)
         \/ \E act \in BOOLEAN, pend \in {"none", "start", "stop"}, busy \in BOOLEAN, st \in Statuses :
               Quiet(act, pend, busy, st)
HSpec == HInit /\ [][HNext]_hvars

HTypeOK == req \in BOOLEAN /\ {stopst, finalst} \subseteq Statuses \cup {AnySt} /\ fin \subseteq Statuses
(* the requirement is only lifted at a finish and only raised by a start request *)
ReqDiscipline == [][/\ (req /\ ~req') => (ending' /\ fin' \subseteq fin \cup {stopst', finalst})
                    /\ (~req /\ req') => UNCHANGED <<stopst, finalst, fin>>]_hvars
=============================================================================
