SPECIFICATION GSpec
CONSTANTS
  Params = {"P1", "P2", "P3"}
  Vals = {"v0", "v1"}
  NChunks = 2
  AutoChoices = {{"P1", "P3"}}
  HwChoices = {{"P2", "P3"}}
  NoDefChoices = {{"P3"}}
  CfgVals = {"v1"}
  Faults = {"crash", "ioerror"}
  Corruptions = {}
  Dev = {}
  Depth = 12
  MaxChanges = 2
  MaxSaves = 1
  MaxFaults = 1
  MaxStarts = 2
  MaxCorrupt = 0
  MaxOther = 0
  FirstCfgs = {0}
  StartCfgs = {0, 1}
  PostReload = FALSE
  CfgKinds = {"value"}
  Vias = {"set", "write"}
CONSTRAINT Bound
INVARIANT Emit1
CHECK_DEADLOCK FALSE
