SPECIFICATION GSpec
CONSTANTS
  Conns = {"c1", "c2"}
  Mods = {"m1", "m2"}
  Used = {"info", "error", "off"}
  Depth = 3
CONSTRAINT Bound
INVARIANT Emit1
CHECK_DEADLOCK FALSE
