SPECIFICATION GSpec
CONSTANTS
  Conns = {"c1", "c2"}
  Mods = {"m1", "m2"}
  Used = {"info", "error", "off"}
  ComMods = {"m1"}
  Configs <- CfgOne
  MaxDay = 1
  Acts = {"logging", "emit", "ident", "disconnect"}
  InitLevels = {99}
  Depth = 3
CONSTRAINT Bound
INVARIANT Emit1
CHECK_DEADLOCK FALSE
