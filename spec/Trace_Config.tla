---------------------------- MODULE Trace_Config ----------------------------
(* code -> spec for C10: recorded module constructions and node start-ups (real   *)
(* config files, real load_config + Server._processCfg, real poll threads) must    *)
(* be behaviours of Config / ConfigRules.  Total step function: the first demand   *)
(* of the property that an event breaks is named.                                  *)
EXTENDS Config, Json, IOUtils, TLCExt, SequencesExt
Traces == JsonDeserialize(IOEnv.TRACE_FILE)
NT == Len(Traces)
VARIABLES t, l, origin
tvars == <<nvars, t, l, origin>>
ASSUME \A i \in 1 .. NT : TLCSet(i, 1) /\ TLCSet(NT + i, 0)
Ev == Traces[t][l]

FileOf(f) == [j \in 1 .. Len(f) |-> [m |-> f[j].m, cfg |-> ToSet(f[j].cfg), kind |-> f[j].kind]]
FilesOf(e) == [k \in 1 .. Len(e.files) |-> FileOf(e.files[k])]

(* one module: outcome allowed, accepted state faithful *)
ModViol(cfg, e) ==
  IF e.out \notin Allowed(cfg)
  THEN (IF e.out = "accepted" THEN "bad config accepted: " \o WhyRejected(cfg)
        ELSE "healthy configuration rejected")
  ELSE IF "cfgb" \in DOMAIN e /\ e.cfgb # e.cfga THEN "processing changed the configuration"
  ELSE IF e.out = "accepted" THEN StateViol(cfg, e.st) ELSE ""

Refusable(m) == {p \in pending[m] : \E x \in Outside(cfgof[m]) : x.par = p /\ x.prop = "value"}

Viol(e) ==
  CASE e.ev = "module" -> ModViol(ToSet(e.cfg), e)
    [] e.ev = "node" -> ""
    [] e.ev = "create" ->
         IF e.m \notin Mods \/ node # "building" THEN "harness: create not applicable"
         ELSE IF created[e.m] # "no" THEN "module created twice"
         ELSE IF kindof[e.m] = "noclass" /\ e.out = "accepted" THEN "module of a missing class accepted"
         ELSE IF kindof[e.m] = "noclass" THEN ""
         ELSE LET v == ModViol(cfgof[e.m], e) IN
              IF v # "" THEN v
              ELSE IF e.out = "accepted" /\ e.orig # (origin[e.m] > 1) THEN "original_id of merged modules"
              ELSE ""
    [] e.ev = "refuse" ->
         IF ~AllCreated THEN "refused before all modules were tried"
         ELSE IF Rejected = {} THEN "node refused although no module failed"
         ELSE IF ToSet(e.reported) # Rejected THEN "all failing modules reported together"
         ELSE IF ToSet(e.registered) \cap Rejected # {} THEN "failing module registered"
         ELSE ""
    [] e.ev = "start" ->
         IF ~AllCreated THEN "module started before all modules were created"
         ELSE IF Rejected # {} THEN "module started although config is erroneous"
         ELSE IF e.m \in started THEN "module started twice" ELSE ""
    [] e.ev = "write" ->
         IF e.m \notin started THEN "hardware write before start"
         ELSE IF e.p \notin WriteSet(cfgof[e.m]) THEN "write of a value that was not configured"
         ELSE IF e.p \notin pending[e.m] THEN "configured value written twice"
         ELSE IF e.m \in polled THEN "configured value written after the first poll"
         ELSE IF ready THEN "configured value written after the ready report"
         ELSE IF e.v # Exp(cfgof[e.m]).writes[e.p] THEN "value handed to write_<p> not the configured one"
         ELSE IF \E q \in (Consumes(e.p) \ {e.p}) \cap WriteSet(cfgof[e.m]) :      \* (also when q was written before)
                    e.vals[q] # Exp(cfgof[e.m]).writes[q].n THEN "common write sends a value that is not the configured one"
         ELSE ""
    [] e.ev = "poll" ->
         IF e.m \notin started THEN "poll before start"
         ELSE IF pending[e.m] \ Refusable(e.m) # {} THEN "first poll before the configured writes"
         ELSE ""
    [] e.ev = "running" ->
         IF started # Mods THEN "node runs with modules not started"
         ELSE IF \E m \in Mods : pending[m] \ Refusable(m) # {} THEN "ready although a configured write is missing"
         ELSE IF \E m \in Mods : kindof[m] \in PolledKinds /\ m \notin polled THEN "ready before the first poll of a module"
         ELSE IF ToSet(e.registered) # Mods THEN "registered modules"
         ELSE ""
    [] e.ev = "cfgkept" -> IF e.before # e.after THEN "processing changed the configuration" ELSE ""
    [] e.ev = "crash" -> "node start-up crashed instead of reporting errors"
    [] OTHER -> "harness: unknown event"

Apply(e) ==
  CASE e.ev = "module" -> UNCHANGED <<nvars, origin>>
    [] e.ev = "node" -> LET fs == FilesOf(e) IN
                        /\ cfgof' = Merge(fs) /\ kindof' = KindMerge(fs) /\ ready' = FALSE
                        /\ created' = [m \in AllNames(fs) |-> "no"]
                        /\ pending' = [m \in AllNames(fs) |-> {}]
                        /\ registered' = {} /\ node' = "building" /\ reported' = {}
                        /\ started' = {} /\ polled' = {}
                        /\ origin' = [m \in AllNames(fs) |-> FirstFile(fs, m)]
    [] e.ev = "create" -> Create(e.m, e.out) /\ UNCHANGED origin
    [] e.ev = "refuse" -> Refuse /\ UNCHANGED origin
    [] e.ev = "start" -> Start(e.m) /\ UNCHANGED origin
    [] e.ev = "write" -> Write(e.m, e.p) /\ UNCHANGED origin
    [] e.ev = "poll" ->  \* configured values the range check refused (loose clause) are dropped silently first
         /\ pending' = [pending EXCEPT ![e.m] = {}]
         /\ polled' = polled \cup {e.m}
         /\ UNCHANGED <<cfgof, kindof, ready, created, registered, node, reported, started, origin>>
    [] e.ev = "running" ->  \* (configured values the range check refused are dropped silently, as at "poll")
         /\ ready' = TRUE /\ pending' = [m \in Mods |-> {}]
         /\ UNCHANGED <<cfgof, kindof, created, registered, node, reported, started, polled, origin>>
    [] e.ev = "cfgkept" -> UNCHANGED <<nvars, origin>>

(* named deviation (findings.d/C10.json, fixed in /repo by d0a74b7; a regression is reported    *)
(* under this name): Server._processCfg calls startModule of every module that could be        *)
(* created BEFORE it looks at the collected errors                                             *)
DevStartBeforeAbort(e) == e.ev = "refuse" /\ e.started # <<>> /\ Viol(e) = ""

TInit == /\ t \in 1 .. NT /\ l = 1 /\ origin = <<>>
         /\ cfgof = <<>> /\ kindof = <<>> /\ ready = FALSE /\ created = <<>> /\ registered = {} /\ node = "building" /\ reported = {}
         /\ started = {} /\ pending = <<>> /\ polled = {}

TStep ==
  /\ l <= Len(Traces[t]) /\ t' = t
  /\ LET e == Ev
         v == Viol(e) IN
     IF v # ""
     THEN /\ PrintT(<<"REJECT", t, l, v>>)
          /\ l' = Len(Traces[t]) + 2
          /\ UNCHANGED <<nvars, origin>>
     ELSE /\ Apply(e) /\ l' = l + 1
          /\ (IF e.ev = "refuse" /\ e.started # <<>>
              THEN TLCSet(NT + t, IF TLCGet(NT + t) = 0 THEN l ELSE TLCGet(NT + t))
              ELSE TRUE)

TSpec == TInit /\ [][TStep]_tvars

TInv == l > Len(Traces[t]) + 1 \/ Mods = {} \/ (NoHalfModule /\ DecideFirst /\ NeverIgnored /\ WritesBeforeReady)

Track == TLCSet(t, IF l > TLCGet(t) THEN l ELSE TLCGet(t))
Verdicts == \A i \in 1 .. NT :
   IF TLCGet(i) = Len(Traces[i]) + 1
   THEN IF TLCGet(NT + i) = 0 THEN PrintT(<<"ACCEPT", i>>)
        ELSE PrintT(<<"REJECT", i, TLCGet(NT + i), "DEV:Dev_StartBeforeAbort">>)
   ELSE PrintT(<<"REJECT", i, TLCGet(i), "event not explained by Config">>)
=============================================================================
