SPECIFICATION LSpec
CONSTANTS
  Kinds = {"minmax", "min", "max", "limits"}
  Lo = 0
  Hi = 6
  PVals = {0, 1, 2, 3, 4, 5, 6, 7}
  LVals = {0, 1, 2, 3, 4, 5, 6}
  ForbSets = {{}, {3}, {2, 5}}
  HookExcs = {"badvalue", "hardware", "other"}
  Inits = {6, 13, 31}
INVARIANT TypeOK
PROPERTY AcceptedInside
PROPERTY InvertedTupleRefused
PROPERTY NothingUnderInverted
PROPERTY RefusedKeeps
PROPERTY ValueWritesKeepLimits
CHECK_DEADLOCK FALSE
