SPECIFICATION Spec
CONSTANTS
  Writers = {"w1", "w2", "w3"}
  Locked = TRUE
  Modes = {"members", "structs", "index"}
INVARIANT ConsistentAtRest
PROPERTY AnnouncedConsistent
CHECK_DEADLOCK FALSE
