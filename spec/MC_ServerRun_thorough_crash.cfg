\* the repaired design: every safety property must hold (failing serving loops)
SPECIFICATION Spec
CONSTANTS
  NIf = 2
  Kinds = {"ok", "fail", "late"}
  Req = {"res1", "shut1"}
  Repaired = TRUE
  FixNoIf = TRUE
  Crashes = TRUE
INVARIANT TypeOK
INVARIANT ModulesBeforeListen
INVARIANT AnnounceExact
INVARIANT CleanEnd
INVARIANT GenerationOrder
INVARIANT OneResponder
INVARIANT ShutdownFinal
INVARIANT RequestsReturn
INVARIANT OneGenPerRestart
CHECK_DEADLOCK FALSE
