SPECIFICATION Spec
CONSTANTS
  Threads = {"a", "b", "w"}
  Script <- Scen_reuse
  InitEv <- Init_one
  MaxTime = 3
  Inf = 99
  RaisingActs = {}
  FixLock = TRUE
  FixInit = TRUE
  FixIsSet = FALSE
  DetTime = FALSE
  Locked = TRUE
PROPERTY IsSetRight
CHECK_DEADLOCK FALSE
