SPECIFICATION GSpec
CONSTANTS
  Layouts = {10, 20, 30, 11, 21, 22}
  Depth = 5
  Depth2 = 4
  Upd = {"a2", "b1"}
  UpdAny = TRUE
CONSTRAINT Bound
INVARIANT Emit1
CHECK_DEADLOCK FALSE
