SPECIFICATION GSpec
CONSTANTS
  Ctls = {"c1", "c2", "c3"}
  Depth = 5
  Upd = {"c2"}
  UpdAny = TRUE
CONSTRAINT Bound
INVARIANT Emit1
CHECK_DEADLOCK FALSE
