------------------------------- MODULE Gen_Wire -------------------------------
(* behaviour emission for spec -> code replay (three emitters, chosen by the cfg):  *)
(*  GFSpec  every (stream, cut): code-shaped schedule "receive a chunk, deframe all" *)
(*          with the expected buffer / lines after every chunk                      *)
(*  GCSpec  every sequence of line classes up to the depth bound                    *)
(*  GKSpec  abstract message triples for the codec inverse law                      *)
EXTENDS Wire, Json
CONSTANTS Depth,      \* GCSpec: sequences of length <= Depth ...
          FullDepth,  \* ... over all Classes up to length FullDepth,
          WideDepth,  \* ... over Wide up to length WideDepth, over Core beyond
          Wide, Core,
          Pauses      \* GFSpec: also enumerate receive time-outs between the chunks
VARIABLE hist
gvars == <<vars, hist>>

StrSeq(ls) == [i \in 1 .. Len(ls) |-> Str(ls[i])]

(* ---- framing ---- *)
RECURSIVE Drain(_, _)             \* Deframe iterated until no newline is left
Drain(b, ls) == IF HasNL(b) THEN Drain(AfterNL(b), Append(ls, BeforeNL(b))) ELSE <<b, ls>>

GRecv(k) ==
    /\ k >= 1 /\ k <= ReadSize /\ pos + k <= Len(stream)
    /\ LET chunk == SubSeq(stream, pos + 1, pos + k)
           d == Drain(buf \o chunk, lines)
       IN /\ buf' = d[1] /\ lines' = d[2]
          /\ hist' = Append(hist, [act |-> "recv", chunk |-> Str(chunk),
                                   exp |-> [buf |-> Str(d[1]), lines |-> StrSeq(d[2])]])
    /\ pos' = pos + k
    /\ UNCHANGED <<stream, lvars, svars>>
GPause ==          \* a receive that times out (at most one between two chunks, also after the last one)
    /\ Pauses /\ hist # <<>> /\ hist[Len(hist)].act = "recv"
    /\ hist' = Append(hist, [act |-> "pause", chunk |-> "", exp |-> [buf |-> Str(buf), lines |-> StrSeq(lines)]])
    /\ UNCHANGED vars
GFInit == FInit /\ LInit /\ SInit /\ hist = <<>>
GFSpec == GFInit /\ [][GPause \/ \E k \in 1 .. MaxLen : GRecv(k)]_gvars
EmitF == (pos = Len(stream)) =>
    PrintT(<<"BEH", ToJson([stream |-> Str(stream), steps |-> hist,
                            reqs |-> [i \in 1 .. Len(lines) |-> LineReq(lines[i])]])>>)

(* ---- line class sequences ---- *)
GLine(c) ==
    /\ Len(hist) < Depth
    /\ Len(hist) >= FullDepth => (c \in Wide /\ \A i \in 1 .. Len(hist) : hist[i].cls \in Wide)
    /\ Len(hist) >= WideDepth => (c \in Core /\ \A i \in 1 .. Len(hist) : hist[i].cls \in Core)
    /\ hist' = Append(hist, [act |-> "line", cls |-> c, exp |-> [owed |-> Len(hist) + 1]])
    /\ UNCHANGED vars
GCInit == FIdle /\ LInit /\ SInit /\ hist = <<>>
GCSpec == GCInit /\ [][\E c \in Classes : GLine(c)]_gvars
EmitC == IF hist = <<>> THEN PrintT(<<"CAT", ToJson([c \in Classes \cup {"SECoPClasses"} |->
                                               IF c = "SECoPClasses" THEN SECoPClasses ELSE Cat[c]])>>)
         ELSE PrintT(<<"BEH", ToJson(hist)>>)

(* ---- codec triples ---- *)
ActKinds == {"plain", "error", "ident"}
SpecKinds == {"none", "token", "colon"}
DataKinds == {"none", "false", "zero", "emptystr", "emptylist", "number", "string", "blankstring",
              "list", "dict", "nested", "unicode", "nan", "inf"}
GKInit == FIdle /\ LInit /\ SInit
          /\ hist \in {<<[act |-> "codec", a |-> a, s |-> s, d |-> d,
                         exp |-> [a |-> a, s |-> s, d |-> d, strict |-> d \notin {"nan", "inf"}]]>> :
                       a \in ActKinds, s \in SpecKinds, d \in DataKinds}
GKSpec == GKInit /\ [][FALSE]_gvars
EmitK == PrintT(<<"BEH", ToJson(hist)>>)
=============================================================================
