SPECIFICATION Spec
CONSTANTS
  Threads = {"t1", "t2"}
  Params = {"P1", "P2"}
  Vals = {0, 1}
  NChunks = 2
  MaxAssign = 2
  Locked = TRUE
INVARIANT FileIsSnapshot
INVARIANT QuiescentSaved
CHECK_DEADLOCK FALSE
