SPECIFICATION GSpec
CONSTANTS
  Layouts = {20, 30}
  Excs = {"other"}
  Depth = 5
  Depth2 = 4
  Upd = {}
  FC = {"a1", "a2"}
  FO = {"o1"}
  UpdAny = TRUE
CONSTRAINT Bound
INVARIANT Emit1
CHECK_DEADLOCK FALSE
