------------------------------- MODULE SimDrive -------------------------------
(* X02 (growth).  frappy/simulation.py: SimDrivable (+ the storage parameters SimBase creates      *)
(* from `extra_params`).  A simulated drivable has a hidden hardware value hv that follows the      *)
(* target: once per `interval` (one tick here) the simulation thread moves hv towards the target    *)
(* by ramp/60*interval (or speed*interval), never beyond it; without ramp/speed (or with 0) it      *)
(* jumps.  What a client relies on:                                                                 *)
(*   - BusyWhileAway: from the moment a new target is accepted until it is reached the status is    *)
(*     BUSY (doc/source/programming.rst: "make sure that the status is changed to BUSY within       *)
(*     [write_target]") - a client that waits "while BUSY" after `change target` must not return    *)
(*     before the move has happened,                                                                *)
(*   - the value moves monotonically towards the target, at most one ramp step per tick, exactly    *)
(*     one step per tick while away, arrives exactly and then the status becomes IDLE within a tick,*)
(*   - stop = "set target to value": the move ends at the value last polled,                        *)
(*   - a read returns hv within +-jitter/2,                                                         *)
(*   - extra parameters are plain storage (read returns what was written).                          *)
(* Loose: whether the value parameter polled during a tick shows hv before or after that tick's     *)
(* step; whether IDLE appears in the tick of arrival or the next one; whether a ramp changed during *)
(* a move is used at once or from the next move on.                                                 *)
(* All numbers are integers (sixteenth of a value unit).                                            *)
EXTENDS Integers, TLC

CONSTANTS Vals,       \* targets / start values explored
          Ramps,      \* distance per tick explored (0 = jump)
          Shapes,     \* "ramp", "speed", "none": SimDrivable with that rate parameter / without one;
                      \* "writable": SimWritable (value = target at once), "readable": SimReadable (constant)
          Jitters     \* values of the jitter parameter explored (even numbers; 0 = exact readings)

VARIABLES hv, target, status, mode, sp, ramp, val, xp, shape, jit, last
dvars == <<hv, target, status, mode, sp, ramp, val, xp, shape, jit, last>>

Abs(x) == IF x < 0 THEN -x ELSE x
Min(a, b) == IF a < b THEN a ELSE b
(* one step of size e (0 = jump) from h towards tg, never beyond *)
Toward(h, tg, e) == IF e = 0 \/ Abs(tg - h) <= e THEN tg ELSE IF tg > h THEN h + e ELSE h - e

(* a reading of the hardware value h: within +-jitter/2 *)
Near(h) == (h - jit \div 2) .. (h + jit \div 2)

DInit == /\ hv \in Vals /\ target \in Vals /\ val = hv /\ jit \in Jitters
         /\ status = "idle" /\ mode = "wait" /\ sp = 0
         /\ shape \in Shapes /\ ramp \in (IF shape \in {"ramp", "speed"} THEN Ramps ELSE {0})
         /\ shape \in {"writable", "readable"} => target = hv
         /\ xp = 0 /\ last = [op |-> "none"]

Drivable == shape \in {"ramp", "speed", "none"}
(* the status a target change has to leave behind *)
AfterTarget(T) == IF T # hv THEN {"busy"} ELSE {status, "idle"}

SetTarget(T) == /\ shape # "readable"
                /\ target' = T /\ last' = [op |-> "target"]
                /\ IF shape = "writable" THEN hv' = T /\ val' = T /\ UNCHANGED status
                   ELSE status' \in AfterTarget(T) /\ UNCHANGED <<hv, val>>
                /\ UNCHANGED <<mode, sp, ramp, xp, shape, jit>>
Stop == /\ Drivable
        /\ target' = val /\ status' \in AfterTarget(val)
        /\ last' = [op |-> "stop"]
        /\ UNCHANGED <<hv, mode, sp, ramp, val, xp, shape, jit>>
SetRamp(r) == /\ shape \in {"ramp", "speed"} /\ ramp' = r
              /\ last' = [op |-> "ramp"]
              /\ UNCHANGED <<hv, target, status, mode, sp, val, xp, shape, jit>>
Read == /\ val' \in Near(hv) /\ last' = [op |-> "read", v |-> val']
        /\ UNCHANGED <<hv, target, status, mode, sp, ramp, xp, shape, jit>>
SetX(v) == /\ xp' = v /\ last' = [op |-> "setx"]
           /\ UNCHANGED <<hv, target, status, mode, sp, ramp, val, shape, jit>>
ReadX == /\ last' = [op |-> "readx", v |-> xp]
         /\ UNCHANGED <<hv, target, status, mode, sp, ramp, val, xp, shape, jit>>

(* one period of the simulation thread *)
Tick ==
    /\ last' = [op |-> "tick"]
    /\ UNCHANGED <<target, ramp, xp, shape, jit>>
    /\ IF ~Drivable THEN UNCHANGED <<hv, status, mode, sp, val>>
       ELSE IF hv = target
       THEN /\ status' = "idle" /\ mode' = "wait" /\ val' \in {val} \cup Near(hv)
            /\ UNCHANGED <<hv, sp>>
       ELSE \E e \in (IF mode = "wait" THEN {ramp} ELSE {sp, ramp}) :
            /\ sp' = e
            /\ hv' = Toward(hv, target, e)
            /\ val' \in Near(hv) \cup Near(hv')
            /\ \/ status' = "busy" /\ mode' = "move"
               \/ hv' = target /\ status' = "idle" /\ mode' = "wait"

DNext == (\E T \in Vals : SetTarget(T)) \/ Stop \/ (\E r \in Ramps : SetRamp(r)) \/ Read
         \/ (\E v \in Vals : SetX(v)) \/ ReadX \/ Tick
DSpec == DInit /\ [][DNext]_dvars

(* DEVIATION of the code before 7893dc6 (not part of DNext): the target is stored, the status is left *)
(* alone until the simulation thread wakes up                                                        *)
Dev_LateBusy(T) == /\ T # hv /\ status = "idle"
                   /\ target' = T /\ status' = "idle" /\ last' = [op |-> "target"]
                   /\ UNCHANGED <<hv, mode, sp, ramp, val, xp, shape, jit>>
AsImplSpec == DInit /\ [][DNext \/ \E T \in Vals : Dev_LateBusy(T)]_dvars

(* ---------------- properties ---------------- *)
TypeOK == status \in {"idle", "busy"} /\ mode \in {"wait", "move"} /\ shape \in Shapes
(* never IDLE while the hardware value is away from the target (except at start-up, before the     *)
(* first tick, when the configured value and target differ): a target change that needs a move      *)
(* leaves BUSY behind, BUSY is only left on arrival, a tick that does not arrive leaves BUSY        *)
BusyOnChange == [][(target' # target /\ target' # hv') => status' = "busy"]_dvars
BusyUntilArrival == [][(status = "busy" /\ status' = "idle") => hv' = target']_dvars
BusyAfterTick == [][(last'.op = "tick" /\ hv' # target) => status' = "busy"]_dvars
Between(a, x, b) == (a <= x /\ x <= b) \/ (b <= x /\ x <= a)
NoOvershoot == [][hv' # hv => Between(hv, hv', target')]_dvars
RampRate == [][hv' # hv => (Abs(hv' - hv) <= sp' \/ sp' = 0)]_dvars
Progress == [][(last'.op = "tick" /\ hv # target /\ Drivable) => Abs(target - hv') < Abs(target - hv)]_dvars
Settles == [][(last'.op = "tick" /\ hv = target /\ Drivable) => (status' = "idle" /\ hv' = hv)]_dvars
OnlyTickMoves == [][hv' # hv => (last'.op = "tick" \/ shape = "writable")]_dvars
WritableFollows == (shape = "writable" /\ last.op = "target") => (hv = target /\ val = target)
Storage == last.op = "readx" => last.v = xp
ReadNear == last.op = "read" => (2 * Abs(last.v - hv) <= jit)
(* model checking with jitter: stop takes a jittered reading as target, values drift - keep them in a window *)
Window == hv \in -4 .. 12 /\ target \in -4 .. 12
=============================================================================
