------------------------- MODULE Trace_PersistentConc -------------------------
(* code -> spec for the concurrent variant: executions of several threads of one   *)
(* real PersistentMixin module under the deterministic scheduler; every call of    *)
(* the (fake) file system is a scheduling point and an event.                       *)
(*   init : the module exists (target / cur = class of the file / of the values)    *)
(*   pre  : a thread is about to make a file-system call (cur = values right now)   *)
(*   fs   : the call was made                                                       *)
(*   end  : all threads are done                                                    *)
(* classes: "absent" | "partial" | "c:<snapshot id>"                                *)
EXTENDS Naturals, Sequences, TLC, TLCExt, Json, IOUtils

C == INSTANCE PersistentConc WITH Threads <- {}, Params <- {}, Vals <- {}, NChunks <- 1, MaxAssign <- 0,
        Locked <- TRUE, val <- 0, target <- 0, tmp <- 0, believed <- 0, pc <- 0, data <- 0, wr <- 0, left <- 0, lock <- 0

Traces == JsonDeserialize(IOEnv.TRACE_FILE)
NT == Len(Traces)
VARIABLES t, l, s
ASSUME \A i \in 1 .. NT : TLCSet(i, 1) /\ TLCSet(NT + i, "")
Ev == Traces[t][l]
S0 == [target |-> "absent", seen |-> {}]

Clauses(e) ==
  CASE e.ev = "init" -> << <<"Init", l = 1>> >>
    [] e.ev = "pre" -> << <<"Consistent", e.target = s.target>> >>
    [] e.ev = "fs" ->
         << <<"FileIsSnapshot.partial", e.target # "partial">>,
            \* a complete snapshot of the values at SOME moment of the history (or unchanged / absent)
            <<"FileIsSnapshot.linearisable", e.target = s.target \/ C!SnapshotOK(e.target, s.seen \cup {e.cur})>> >>
    [] e.ev = "end" ->
         << <<"Consistent", e.target = s.target>>,
            <<"QuiescentSaved", e.target = e.cur>> >>
    [] OTHER -> << <<"unknown event", FALSE>> >>
FirstBad(cl) == LET bad == SelectSeq(cl, LAMBDA c : ~c[2]) IN IF bad = <<>> THEN "" ELSE bad[1][1]

Nxt(e) == CASE e.ev = "init" -> [target |-> e.target, seen |-> {e.cur, e.target}]
            [] e.ev = "end" -> s
            [] OTHER -> [target |-> e.target, seen |-> s.seen \cup {e.cur}]

TInit == t \in 1 .. NT /\ l = 1 /\ s = S0
TStep == /\ l <= Len(Traces[t])
         /\ FirstBad(Clauses(Ev)) = ""
         /\ s' = Nxt(Ev)
         /\ l' = l + 1 /\ t' = t
TSpec == TInit /\ [][TStep]_<<t, l, s>>
Track == /\ TLCSet(t, IF l > TLCGet(t) THEN l ELSE TLCGet(t))
         /\ (l <= Len(Traces[t]) /\ FirstBad(Clauses(Ev)) # "") => TLCSet(NT + t, FirstBad(Clauses(Ev)))
Verdicts == \A i \in 1 .. NT :
   IF TLCGet(i) = Len(Traces[i]) + 1 THEN PrintT(<<"ACCEPT", i>>)
   ELSE PrintT(<<"REJECT", i, TLCGet(i), TLCGet(NT + i)>>)
=============================================================================
