----------------------------- MODULE LinkedLimits -----------------------------
(* C18 (3): a parameter p with limit parameters p_min / p_max / p_limits       *)
(* (frappy/params.py Limit, frappy/modulebase.py checkLimits and the automatic *)
(* check_<p> hook): a value is never accepted outside the CURRENT limits, and  *)
(* an inverted limits pair is refused.                                         *)
(*                                                                             *)
(* kind : which limit parameters exist: "minmax", "min", "max", "limits"       *)
(* lo, hi : current lower / upper limit (a missing one stays at the datatype   *)
(*          bound Lo / Hi)                                                     *)
(* forb : values a user check hook (returning None, i.e. not disabling the     *)
(*        automatic check) refuses in addition                                 *)
(* val  : last accepted value of p                                             *)
(* last : "ok" / "refused" outcome of the last operation                       *)
(*                                                                             *)
(* Loose (DESIGN C18): with separate p_min / p_max an inverted pair may be     *)
(* refused when the limit is written or only when the next value is written -  *)
(* both are allowed, but while the pair is inverted no value is accepted.      *)
(* A p_limits tuple is ONE value: a request to set an inverted tuple is        *)
(* refused as such (a driver assignment is a report and cannot be refused).    *)
(* Besides the property, the spec demands that a value inside limits and       *)
(* datatype (and not refused by a user hook) IS accepted - otherwise           *)
(* "accepted" would have no meaning; violations of that direction are reported *)
(* under a separate clause name by the binding.                                *)
EXTENDS Integers, TLC

CONSTANTS Kinds,      \* subset of {"minmax", "min", "max", "limits"}
          Lo, Hi,     \* static datatype bounds of p
          PVals,      \* values offered to p
          LVals,      \* values offered to a limit parameter
          ForbSets,   \* set of sets: values refused by a user check hook (returning None)
          HookExcs,   \* what the user hook raises: subset of {"badvalue", "hardware", "other"} ("other":
                      \* no SECoP error but e.g. a ValueError - a driver can raise anything)
          Inits       \* configured start values of the limit parameters: codes 10 * lo + hi
                      \* (10 * Lo + Hi: nothing configured, the datatype bounds are the default)

VARIABLES kind, forb, hexc, lo, hi, val, last
lvars == <<kind, forb, hexc, lo, hi, val, last>>

LInit == /\ kind \in Kinds /\ forb \in ForbSets
         /\ hexc \in HookExcs /\ (forb = {} => hexc = "badvalue")   \* without hook nothing to raise
         /\ \E c \in Inits :    \* a limit parameter that does not exist stays at the datatype bound
              /\ lo = (IF kind \in {"minmax", "min", "limits"} THEN c \div 10 ELSE Lo)
              /\ hi = (IF kind \in {"minmax", "max", "limits"} THEN c % 10 ELSE Hi)
         /\ Lo <= lo /\ lo <= Hi /\ Lo <= hi /\ hi <= Hi
         /\ kind = "limits" => lo <= hi    \* an inverted tuple in the configuration is refused at start
         /\ val = Lo /\ last = "ok"

Inverted == lo > hi
Acceptable(v) == /\ ~Inverted /\ lo <= v /\ v <= hi
                 /\ Lo <= v /\ v <= Hi /\ v \notin forb

WriteP(v) ==              \* change p v  /  write_p(v)
    /\ IF Acceptable(v) THEN val' = v /\ last' = "ok"
                        ELSE val' = val /\ last' = "refused"
    /\ UNCHANGED <<kind, forb, hexc, lo, hi>>

(* writing one of two separate limit parameters *)
SetOne(newlo, newhi) ==
    /\ \/ lo' = newlo /\ hi' = newhi /\ last' = "ok"
       \/ newlo > newhi /\ UNCHANGED <<lo, hi>> /\ last' = "refused"
    /\ UNCHANGED <<kind, forb, hexc, val>>

SetMin(v) == kind \in {"minmax", "min"} /\ Lo <= v /\ v <= Hi /\ SetOne(v, hi)
SetMax(v) == kind \in {"minmax", "max"} /\ Lo <= v /\ v <= Hi /\ SetOne(lo, v)

SetLimits(a, b, written) ==   \* p_limits := <<a, b>>, one value
    \* written = TRUE : change p_limits [a, b] / write_p_limits((a, b)) - a request that can be refused
    \* written = FALSE: driver assignment self.p_limits = (a, b) - a report, it cannot be refused;
    \*                  an inverted report may be stored (then no value of p is accepted) or dropped
    /\ kind = "limits" /\ Lo <= a /\ a <= Hi /\ Lo <= b /\ b <= Hi
    /\ \/ a <= b /\ lo' = a /\ hi' = b /\ last' = "ok"
       \/ a > b /\ UNCHANGED <<lo, hi>> /\ last' = "refused"
       \/ a > b /\ ~written /\ lo' = a /\ hi' = b /\ last' = "ok"
    /\ UNCHANGED <<kind, forb, hexc, val>>

LNext == \/ \E v \in PVals : WriteP(v)
         \/ \E v \in LVals : SetMin(v) \/ SetMax(v)
         \/ \E a \in LVals, b \in LVals, w \in BOOLEAN : SetLimits(a, b, w)
LSpec == LInit /\ [][LNext]_lvars

(* ---- properties ---- *)
TypeOK == lo \in Lo .. Hi /\ hi \in Lo .. Hi /\ val \in Lo .. Hi /\ last \in {"ok", "refused"}
(* accepted => inside the limits valid at acceptance time (and these are not inverted) *)
AcceptedInside == [][\A v \in PVals : (WriteP(v) /\ last' = "ok") =>
                       (lo <= v /\ v <= hi /\ lo <= hi /\ val' = v)]_lvars
RefusedKeeps == [][\A v \in PVals : (WriteP(v) /\ last' = "refused") => val' = val]_lvars
(* a request to set an inverted limits tuple is refused and changes nothing *)
InvertedTupleRefused == [][\A a \in LVals, b \in LVals : (SetLimits(a, b, TRUE) /\ a > b) =>
                             (last' = "refused" /\ lo' = lo /\ hi' = hi)]_lvars
(* while the pair is inverted nothing is accepted *)
NothingUnderInverted == [][\A v \in PVals : (WriteP(v) /\ lo > hi) => (last' = "refused" /\ val' = val)]_lvars
(* limit parameters only change by operations on them *)
ValueWritesKeepLimits == [][\A v \in PVals : WriteP(v) => (lo' = lo /\ hi' = hi)]_lvars
=============================================================================
