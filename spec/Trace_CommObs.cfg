SPECIFICATION TSpec
CONSTANTS
  Timeout = 20
  Period = 10
  PollInt = 30
  Resume = 5
CONSTRAINT Track
INVARIANT Done
POSTCONDITION Verdicts
CHECK_DEADLOCK FALSE
