SPECIFICATION TSpec
CONSTANTS
  Timeout = 20
  Period = 10
  PollInt = 30
CONSTRAINT Track
INVARIANT Done
POSTCONDITION Verdicts
CHECK_DEADLOCK FALSE
