\* documents X06-restart-after-shutdown at design level: EXPECTED TO FAIL ShutdownFinal
SPECIFICATION Spec
CONSTANTS
  NIf = 1
  Kinds = {"ok"}
  Req = {"res1", "shut1"}
  Repaired = FALSE
  FixNoIf = FALSE
  Crashes = FALSE
INVARIANT ShutdownFinal
CHECK_DEADLOCK FALSE
