SPECIFICATION GSpec
CONSTANTS
  Params = {"P1", "P2"}
  Vals = {"v0", "v1", "v2"}
  NChunks = 2
  AutoChoices = {{"P1"}}
  HwChoices = {{"P2"}}
  NoDefChoices = {{"P1"}}
  CfgVals = {"v2"}
  Faults = {"crash"}
  Corruptions = {"missing", "notjson", "notdict", "extra", "bad", "drop"}
  Dev = {"BelieveEarly"}
  Depth = 12
  MaxChanges = 2
  MaxSaves = 0
  MaxFaults = 0
  MaxStarts = 2
  MaxCorrupt = 2
  MaxOther = 0
  FirstCfgs = {0}
  StartCfgs = {0, 1}
  PostReload = FALSE
  CfgKinds = {"value", "default"}
  Vias = {"set"}
CONSTRAINT Bound
INVARIANT Emit1
CHECK_DEADLOCK FALSE
