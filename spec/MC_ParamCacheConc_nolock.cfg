SPECIFICATION Spec
CONSTANTS
  Threads = {"t1", "t2"}
  Params = {"p1"}
  Vals = {"a", "b"}
  Errs = {"e1"}
  Conns = {"c1", "c2"}
  MaxOps = 2
  Omit = 2
  MaxNow = 2
  OpKinds = {"read", "write", "assign", "annerr"}
  UseLock = FALSE
INVARIANT StreamReconstructs
INVARIANT Ordered
INVARIANT Complete
INVARIANT StampsOrdered
CHECK_DEADLOCK FALSE
