SPECIFICATION MCSpec
CONSTANTS
  Layouts <- CatQIm
  Impl <- NoDevs
CONSTRAINT MCBound5
INVARIANT TypeOK
INVARIANT OneCallPerRead
INVARIANT FreshRead
INVARIANT ReadErrorReported
INVARIANT GroupFresh
INVARIANT PollOncePerGroup
INVARIANT PollCount
INVARIANT OneCallPerChange
INVARIANT CleanWrite
INVARIANT WriteFrame
INVARIANT Isolation
INVARIANT InitOnce
INVARIANT FlagsOK
INVARIANT AcceptedSound
CHECK_DEADLOCK FALSE
