SPECIFICATION TSpec
CONSTANTS
  Threads = {"main", "a", "b", "c", "d", "w1", "w2"}
  Inf = 1000000
  Slack = 0
  AllowDev = TRUE
CONSTRAINT Track
INVARIANT Finished
INVARIANT ActionsOnce
INVARIANT QueuedOnlyWhilePending
INVARIANT FlusherHasWork
INVARIANT PendingCreated
POSTCONDITION Verdicts
CHECK_DEADLOCK FALSE
