SPECIFICATION Spec
CONSTANTS
  Families = {"A1", "B", "C1", "E"}
INVARIANT CacheInDatainfo
PROPERTY DriverOnlyIfAllowed
PROPERTY ErrorLeavesNoTrace
PROPERTY ValidIsServed
PROPERTY Frame
CHECK_DEADLOCK FALSE
