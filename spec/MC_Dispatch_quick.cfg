SPECIFICATION Spec
CONSTANTS
  Families = {"A1", "B", "C0", "E0", "K0", "R", "G"}
INVARIANT CacheInDatainfo
INVARIANT ConstantsHold
INVARIANT EmittedConverts
PROPERTY DriverOnlyIfAllowed
PROPERTY ErrorLeavesNoTrace
PROPERTY ValidIsServed
PROPERTY Frame
CHECK_DEADLOCK FALSE
