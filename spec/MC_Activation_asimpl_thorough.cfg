SPECIFICATION Spec
CONSTANTS
  Conns = {"c1", "c2"}
  Params = {"p1", "p2"}
  Updaters = {"u1"}
  NChanges = 2
  Scripts <- ScriptsA
  SnapLock = FALSE
  SubLock = FALSE
INVARIANT SnapshotBeforeActive
INVARIANT NoLate
INVARIANT Converges
INVARIANT NoMiss
INVARIANT Ordered
PROPERTY Isolation
CHECK_DEADLOCK FALSE
