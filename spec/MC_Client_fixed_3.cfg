SPECIFICATION Spec
CONSTANTS
  Callers = {"c1", "c2"}
  KeyOf <- DiffKey
  MayIgnore = {}
  MaxUpd = 0
  Streaming = FALSE
  CanDrop = TRUE
  WithUser = TRUE
  T = 3
  H = 2
  UseLock = TRUE
  SafeJoin = TRUE
  Release = TRUE
  Recheck = TRUE
  defaultInitValue = defaultInitValue
INVARIANT OwnReply
INVARIANT AtMostOnce
INVARIANT NoSpuriousTimeout
INVARIANT ShutdownClean
INVARIANT NoWorkerLeft
CHECK_DEADLOCK FALSE
