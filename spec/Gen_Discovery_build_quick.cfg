SPECIFICATION GBSpec
CONSTANTS
  O = 20
  BLow = 2
  BHigh = 10
  MaxLen = 5
  NPorts = {0}
  Classes = {}
  Loose = {}
  Contained = {}
  DisableRule = "identity"
  AnnounceRule = "enabled"
  Depth = 0
INVARIANT EmitB
CHECK_DEADLOCK FALSE
INVARIANT JcOK
