SPECIFICATION WSpec
CONSTANTS
  MaxIf = 3
  MaxGen = 3
  RestartRule = "stop_old"
  PortRule = "opened"
  ShutdownRule = "close_only"
  TeardownOrder = "responder_first"
INVARIANT OneResponder
INVARIANT AnswersTrue
CHECK_DEADLOCK FALSE
