---------------------------- MODULE Communicator ----------------------------
(* C16, design level.  Callers talk to one device through a communicator          *)
(* (frappy/io.py StringIO/BytesIO.communicate / multicomm on top of                *)
(* frappy/lib/asynconn.py readline/readbytes):                                     *)
(*    lock ; for each command: [wait] flush stale input ; send ; framed receive    *)
(* The device answers commands in order, in arbitrary chunking, may answer late    *)
(* (after the caller's time-out), stay silent, or send unsolicited bytes.          *)
(* Ghost ids tie every byte on the line to the command it answers.                 *)
(* Switches: HoldLock (multicomm keeps the lock across its commands) and           *)
(* FlushFirst (stale input is discarded before sending) are TRUE in the code; the  *)
(* FALSE variants document why both are needed (TLC finds the mix-up).             *)
EXTENDS Naturals, Sequences, FiniteSets, TLC

CONSTANTS Callers,       \* e.g. {"a", "b"}
          Script,        \* [Callers -> Seq(Seq(gid))]: transactions, each a sequence of command ids
          Mode,          \* [gid -> {"normal", "late", "silent"}] behaviour of the device per command
          Chunks,        \* reply of every command comes in 1 .. Chunks pieces
          MaxGarbage,    \* unsolicited tokens the device may emit while the line is idle
          HoldLock, FlushFirst

Gids == UNION {UNION {{Script[c][n][k] : k \in 1 .. Len(Script[c][n])} : n \in 1 .. Len(Script[c])} : c \in Callers}
Tok(gg, pp, ll) == [g |-> gg, part |-> pp, last |-> ll]
Garbage == Tok(0, 1, TRUE)

(* --algorithm Communicator {
variables
  lock = "free",
  wire = <<>>,          \* commands as the device sees them
  todo = <<>>,          \* commands received, not yet treated by the device
  rx = <<>>,            \* tokens on their way to the host (arrived, not yet read)
  limbo = {},           \* late replies not yet emitted
  ngarb = 0,
  result = [x \in Gids |-> "none"],     \* none | ok | mixed | timeout   (per command)
  busy = {};            \* callers between send and end of receive

define {
  Complete(b) == \E n \in 1 .. Len(b) : b[n].last
  FirstLine(b) == LET n == CHOOSE m \in 1 .. Len(b) : b[m].last /\ \A q \in 1 .. m - 1 : ~b[q].last
                  IN SubSeq(b, 1, n)
  Pure(line, gg) == \A n \in 1 .. Len(line) : line[n].g = gg /\ line[n].part = n
}

fair process (caller \in Callers)
variables tn = 1, cn = 1, buf = <<>>, g = 0;
{
c_loop: while (tn <= Len(Script[self])) {
c_lock:    await lock = "free"; lock := self; cn := 1;
c_cmd:     while (cn <= Len(Script[self][tn])) {
              g := Script[self][tn][cn];
              if (~HoldLock /\ cn > 1) {
c_relock:        await lock = "free"; lock := self
              };
c_flush:      if (FlushFirst) { rx := <<>> };
              buf := <<>>; busy := busy \cup {self};     \* from here on stale data counts as "after the send"
c_send:       wire := Append(wire, g); todo := Append(todo, g);
c_recv:       while (~Complete(buf) /\ result[g] = "none") {
                 either { await rx # <<>>; buf := buf \o rx; rx := <<>> }
                 or     { \* time-out: nothing on the line and the device will not answer this command now
                          await rx = <<>> /\ g \notin {todo[n] : n \in 1 .. Len(todo)} /\ Mode[g] # "normal";
                          result[g] := "timeout" }
              };
c_done:       if (result[g] = "none") {
                 result[g] := IF Pure(FirstLine(buf), g) THEN "ok" ELSE "mixed"
              };
              busy := busy \ {self};
              cn := cn + 1;
              if (~HoldLock) { lock := "free" };
           };
c_unlock:  if (HoldLock) { lock := "free" };
           tn := tn + 1;
        }
}

fair process (device = "dev")
variables dg = 0, part = 1;
{
d_loop: while (TRUE) {
          either { await todo # <<>>;
                   dg := Head(todo); todo := Tail(todo); part := 1;
                   if (Mode[dg] = "normal") {
d_emit:               while (part <= Chunks) {
                         either { rx := Append(rx, Tok(dg, part, FALSE)); part := part + 1 }
                         or     { rx := Append(rx, Tok(dg, part, TRUE)); part := Chunks + 1 }
                      }
                   } else if (Mode[dg] = "late") { limbo := limbo \cup {dg} }
                 }
          or     { \* a late reply shows up while nobody is between send and receive
                   await limbo # {} /\ busy = {};
                   with (x \in limbo) { rx := Append(rx, Tok(x, 1, TRUE)); limbo := limbo \ {x} } }
          or     { await ngarb < MaxGarbage /\ busy = {};
                   ngarb := ngarb + 1; rx := Append(rx, Garbage) }
        }
}
} *)
\* BEGIN TRANSLATION
VARIABLES pc, lock, wire, todo, rx, limbo, ngarb, result, busy

(* define statement *)
Complete(b) == \E n \in 1 .. Len(b) : b[n].last
FirstLine(b) == LET n == CHOOSE m \in 1 .. Len(b) : b[m].last /\ \A q \in 1 .. m - 1 : ~b[q].last
                IN SubSeq(b, 1, n)
Pure(line, gg) == \A n \in 1 .. Len(line) : line[n].g = gg /\ line[n].part = n

VARIABLES tn, cn, buf, g, dg, part

vars == << pc, lock, wire, todo, rx, limbo, ngarb, result, busy, tn, cn, buf, 
           g, dg, part >>

ProcSet == (Callers) \cup {"dev"}

Init == (* Global variables *)
        /\ lock = "free"
        /\ wire = <<>>
        /\ todo = <<>>
        /\ rx = <<>>
        /\ limbo = {}
        /\ ngarb = 0
        /\ result = [x \in Gids |-> "none"]
        /\ busy = {}
        (* Process caller *)
        /\ tn = [self \in Callers |-> 1]
        /\ cn = [self \in Callers |-> 1]
        /\ buf = [self \in Callers |-> <<>>]
        /\ g = [self \in Callers |-> 0]
        (* Process device *)
        /\ dg = 0
        /\ part = 1
        /\ pc = [self \in ProcSet |-> CASE self \in Callers -> "c_loop"
                                        [] self = "dev" -> "d_loop"]

c_loop(self) == /\ pc[self] = "c_loop"
                /\ IF tn[self] <= Len(Script[self])
                      THEN /\ pc' = [pc EXCEPT ![self] = "c_lock"]
                      ELSE /\ pc' = [pc EXCEPT ![self] = "Done"]
                /\ UNCHANGED << lock, wire, todo, rx, limbo, ngarb, result, 
                                busy, tn, cn, buf, g, dg, part >>

c_lock(self) == /\ pc[self] = "c_lock"
                /\ lock = "free"
                /\ lock' = self
                /\ cn' = [cn EXCEPT ![self] = 1]
                /\ pc' = [pc EXCEPT ![self] = "c_cmd"]
                /\ UNCHANGED << wire, todo, rx, limbo, ngarb, result, busy, tn, 
                                buf, g, dg, part >>

c_cmd(self) == /\ pc[self] = "c_cmd"
               /\ IF cn[self] <= Len(Script[self][tn[self]])
                     THEN /\ g' = [g EXCEPT ![self] = Script[self][tn[self]][cn[self]]]
                          /\ IF ~HoldLock /\ cn[self] > 1
                                THEN /\ pc' = [pc EXCEPT ![self] = "c_relock"]
                                ELSE /\ pc' = [pc EXCEPT ![self] = "c_flush"]
                     ELSE /\ pc' = [pc EXCEPT ![self] = "c_unlock"]
                          /\ g' = g
               /\ UNCHANGED << lock, wire, todo, rx, limbo, ngarb, result, 
                               busy, tn, cn, buf, dg, part >>

c_flush(self) == /\ pc[self] = "c_flush"
                 /\ IF FlushFirst
                       THEN /\ rx' = <<>>
                       ELSE /\ TRUE
                            /\ rx' = rx
                 /\ buf' = [buf EXCEPT ![self] = <<>>]
                 /\ busy' = (busy \cup {self})
                 /\ pc' = [pc EXCEPT ![self] = "c_send"]
                 /\ UNCHANGED << lock, wire, todo, limbo, ngarb, result, tn, 
                                 cn, g, dg, part >>

c_send(self) == /\ pc[self] = "c_send"
                /\ wire' = Append(wire, g[self])
                /\ todo' = Append(todo, g[self])
                /\ pc' = [pc EXCEPT ![self] = "c_recv"]
                /\ UNCHANGED << lock, rx, limbo, ngarb, result, busy, tn, cn, 
                                buf, g, dg, part >>

c_recv(self) == /\ pc[self] = "c_recv"
                /\ IF ~Complete(buf[self]) /\ result[g[self]] = "none"
                      THEN /\ \/ /\ rx # <<>>
                                 /\ buf' = [buf EXCEPT ![self] = buf[self] \o rx]
                                 /\ rx' = <<>>
                                 /\ UNCHANGED result
                              \/ /\ rx = <<>> /\ g[self] \notin {todo[n] : n \in 1 .. Len(todo)} /\ Mode[g[self]] # "normal"
                                 /\ result' = [result EXCEPT ![g[self]] = "timeout"]
                                 /\ UNCHANGED <<rx, buf>>
                           /\ pc' = [pc EXCEPT ![self] = "c_recv"]
                      ELSE /\ pc' = [pc EXCEPT ![self] = "c_done"]
                           /\ UNCHANGED << rx, result, buf >>
                /\ UNCHANGED << lock, wire, todo, limbo, ngarb, busy, tn, cn, 
                                g, dg, part >>

c_done(self) == /\ pc[self] = "c_done"
                /\ IF result[g[self]] = "none"
                      THEN /\ result' = [result EXCEPT ![g[self]] = IF Pure(FirstLine(buf[self]), g[self]) THEN "ok" ELSE "mixed"]
                      ELSE /\ TRUE
                           /\ UNCHANGED result
                /\ busy' = busy \ {self}
                /\ cn' = [cn EXCEPT ![self] = cn[self] + 1]
                /\ IF ~HoldLock
                      THEN /\ lock' = "free"
                      ELSE /\ TRUE
                           /\ lock' = lock
                /\ pc' = [pc EXCEPT ![self] = "c_cmd"]
                /\ UNCHANGED << wire, todo, rx, limbo, ngarb, tn, buf, g, dg, 
                                part >>

c_relock(self) == /\ pc[self] = "c_relock"
                  /\ lock = "free"
                  /\ lock' = self
                  /\ pc' = [pc EXCEPT ![self] = "c_flush"]
                  /\ UNCHANGED << wire, todo, rx, limbo, ngarb, result, busy, 
                                  tn, cn, buf, g, dg, part >>

c_unlock(self) == /\ pc[self] = "c_unlock"
                  /\ IF HoldLock
                        THEN /\ lock' = "free"
                        ELSE /\ TRUE
                             /\ lock' = lock
                  /\ tn' = [tn EXCEPT ![self] = tn[self] + 1]
                  /\ pc' = [pc EXCEPT ![self] = "c_loop"]
                  /\ UNCHANGED << wire, todo, rx, limbo, ngarb, result, busy, 
                                  cn, buf, g, dg, part >>

caller(self) == c_loop(self) \/ c_lock(self) \/ c_cmd(self)
                   \/ c_flush(self) \/ c_send(self) \/ c_recv(self)
                   \/ c_done(self) \/ c_relock(self) \/ c_unlock(self)

d_loop == /\ pc["dev"] = "d_loop"
          /\ \/ /\ todo # <<>>
                /\ dg' = Head(todo)
                /\ todo' = Tail(todo)
                /\ part' = 1
                /\ IF Mode[dg'] = "normal"
                      THEN /\ pc' = [pc EXCEPT !["dev"] = "d_emit"]
                           /\ limbo' = limbo
                      ELSE /\ IF Mode[dg'] = "late"
                                 THEN /\ limbo' = (limbo \cup {dg'})
                                 ELSE /\ TRUE
                                      /\ limbo' = limbo
                           /\ pc' = [pc EXCEPT !["dev"] = "d_loop"]
                /\ UNCHANGED <<rx, ngarb>>
             \/ /\ limbo # {} /\ busy = {}
                /\ \E x \in limbo:
                     /\ rx' = Append(rx, Tok(x, 1, TRUE))
                     /\ limbo' = limbo \ {x}
                /\ pc' = [pc EXCEPT !["dev"] = "d_loop"]
                /\ UNCHANGED <<todo, ngarb, dg, part>>
             \/ /\ ngarb < MaxGarbage /\ busy = {}
                /\ ngarb' = ngarb + 1
                /\ rx' = Append(rx, Garbage)
                /\ pc' = [pc EXCEPT !["dev"] = "d_loop"]
                /\ UNCHANGED <<todo, limbo, dg, part>>
          /\ UNCHANGED << lock, wire, result, busy, tn, cn, buf, g >>

d_emit == /\ pc["dev"] = "d_emit"
          /\ IF part <= Chunks
                THEN /\ \/ /\ rx' = Append(rx, Tok(dg, part, FALSE))
                           /\ part' = part + 1
                        \/ /\ rx' = Append(rx, Tok(dg, part, TRUE))
                           /\ part' = Chunks + 1
                     /\ pc' = [pc EXCEPT !["dev"] = "d_emit"]
                ELSE /\ pc' = [pc EXCEPT !["dev"] = "d_loop"]
                     /\ UNCHANGED << rx, part >>
          /\ UNCHANGED << lock, wire, todo, limbo, ngarb, result, busy, tn, cn, 
                          buf, g, dg >>

device == d_loop \/ d_emit

Next == device
           \/ (\E self \in Callers: caller(self))

Spec == /\ Init /\ [][Next]_vars
        /\ \A self \in Callers : WF_vars(caller(self))
        /\ WF_vars(device)

\* END TRANSLATION

ScriptA == [c \in Callers |-> IF c = "a" THEN << <<1, 2>> >> ELSE << <<3>>, <<4>> >>]
ModeNormal == [x \in 1 .. 4 |-> "normal"]
ModeLate == [x \in 1 .. 4 |-> IF x = 3 THEN "late" ELSE IF x = 2 THEN "silent" ELSE "normal"]
(* ------------------------------- properties ------------------------------- *)
(* the reply handed to a caller consists of exactly the bytes the device sent for that command *)
Paired == \A x \in Gids : result[x] # "mixed"
(* a command the device answers normally is never reported as failed, whatever the chunking *)
FramingIndependent == \A x \in Gids : (Mode[x] = "normal" /\ result[x] # "none") => result[x] = "ok"
(* a command the device does not answer in time fails (and is not answered by someone else's bytes) *)
FailsWhenSilent == \A x \in Gids : (Mode[x] # "normal" /\ result[x] # "none") => result[x] = "timeout"
(* the commands of one transaction are contiguous on the wire *)
Atomic == \A c \in Callers : \A n \in 1 .. Len(Script[c]) :
            LET tr == Script[c][n]
                pos == {p \in 1 .. Len(wire) : \E k \in 1 .. Len(tr) : wire[p] = tr[k]}
            IN \A p, q \in pos : \A m \in p .. q : m \in pos
=============================================================================
