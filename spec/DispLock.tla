------------------------------ MODULE DispLock ------------------------------
(* design level: the dispatcher's handling of `change` is read-merge-write on the cache; the dispatcher lock  *)
(* (one request at a time) is what makes it atomic between connections.  UseLock = FALSE is the variant in     *)
(* which the handler runs outside the lock: TLC must find the lost member.                                      *)
EXTENDS Naturals, FiniteSets, TLC
CONSTANTS Conns, UseLock
VARIABLES cur, pc, snap, lock
vars == <<cur, pc, snap, lock>>
Members == Conns                     \* connection c changes member c of the struct to 1
Init == /\ cur = [m \in Members |-> 0] /\ pc = [c \in Conns |-> "idle"]
        /\ snap = [c \in Conns |-> [m \in Members |-> 0]] /\ lock = "free"
Enter(c) == /\ pc[c] = "idle" /\ (UseLock => lock = "free")
            /\ lock' = (IF UseLock THEN c ELSE lock)
            /\ pc' = [pc EXCEPT ![c] = "merge"] /\ UNCHANGED <<cur, snap>>
MergeStep(c) == /\ pc[c] = "merge" /\ snap' = [snap EXCEPT ![c] = [cur EXCEPT ![c] = 1]]   \* validate(payload, previous=cache)
                /\ pc' = [pc EXCEPT ![c] = "write"] /\ UNCHANGED <<cur, lock>>
Write(c) == /\ pc[c] = "write" /\ cur' = snap[c]                                           \* write_<p>(merged value)
            /\ pc' = [pc EXCEPT ![c] = "done"] /\ lock' = (IF UseLock THEN "free" ELSE lock) /\ UNCHANGED snap
Next == \E c \in Conns : Enter(c) \/ MergeStep(c) \/ Write(c)
Spec == Init /\ [][Next]_vars
(* when everybody is done every member has been changed: no request undid another one *)
NoLostMember == (\A c \in Conns : pc[c] = "done") => \A m \in Members : cur[m] = 1
=============================================================================
