SPECIFICATION GSpec
CONSTANTS
  Conns = {"c1", "c2"}
  Mods = {"m1", "m2"}
  Used = {"debug", "info", "error", "off"}
  Depth = 6
INVARIANT Emit1
CHECK_DEADLOCK FALSE
