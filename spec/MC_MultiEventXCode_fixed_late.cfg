SPECIFICATION Spec
CONSTANTS
  Threads = {"a", "b", "w"}
  Script <- Scen_server_late
  InitEv <- Init_server
  MaxTime = 4
  Inf = 99
  RaisingActs = {}
  FixLock = TRUE
  FixInit = TRUE
  FixIsSet = TRUE
  DetTime = FALSE
  Locked = TRUE
INVARIANT NoError
INVARIANT ServerProceeds
INVARIANT NoLostWakeup
INVARIANT FlagConsistent
INVARIANT ActionsAtMostOnce
INVARIANT NoActionLeft
INVARIANT ActionsExactlyOnce
PROPERTY WaitTrueEmpty
PROPERTY WaitTrueQuiet
PROPERTY WaitFalseNotEarly
PROPERTY WaitNotLate
PROPERTY WaitingForExact
PROPERTY DeadlineExact
PROPERTY IsSetRight
PROPERTY ActionsOnlyWhenSet
CHECK_DEADLOCK FALSE
