SPECIFICATION GSpec
CONSTANTS
  NClasses = 2
  NInsts = 1
  Bodies = {}
  Cfgs = {"pmax40"}
  Muts = {}
  DescIds = {"d"}
  MaxBases = 0
  MaxMuts = 0
  MaxLevel = 99
  Depth = 3
  RootP = {"arrf", "arri", "arrs"}
  MixinP = {}
  DerivedP = {}
  DerivedC = {}
  DerivedM = {}
  DerivedW = {}
  MaxOverrides = 1
  MaxRoots = 2
CONSTRAINT GBound
INVARIANT Emit1
CHECK_DEADLOCK FALSE
