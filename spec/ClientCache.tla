----------------------------- MODULE ClientCache -----------------------------
(* C12.  Client cache and three-level callbacks of SecopClient                  *)
(* (frappy/client/__init__.py: ProxyClient cache/callbacks 187-300, receive     *)
(* loop 432-509, description handling 604-647, updateValue 756-768, name        *)
(* mapping 775-779; frappy/errors.py make_secop_error 250-273) and the          *)
(* end-to-end law for values written through the client (700-754, proxy.py).    *)
(*                                                                              *)
(* What the property demands:                                                   *)
(*  - after a message of one of the five update classes for a parameter the     *)
(*    cache entry is the import of that message: value, time stamp min(now, t)  *)
(*    (never in the future), or the rebuilt error;                              *)
(*  - every callback registered for the node, the module or the parameter is    *)
(*    invoked exactly once for that message with the new entry;                 *)
(*  - unknown identifiers / malformed data parts / values the datatype rejects  *)
(*    change nothing and do not stop processing;                                *)
(*  - a registration is answered immediately with the cached state.             *)
(* Loose on purpose: order of callbacks inside one message, what a one-shot     *)
(* callback sees on registration when several entries are cached, how unknown   *)
(* error classes are represented (any generic error), frappy's "Class: text"    *)
(* convention in error texts (both readings allowed), whether a request waiting *)
(* for a reply whose data part is malformed, or which names a command, is       *)
(* released; nodeStateChange / descriptiveDataChange callbacks.                 *)
EXTENDS Naturals, Sequences, FiniteSets, TLC

CONSTANTS Mods,       \* module names that may occur in descriptions
          PNames,     \* parameter names that may occur in descriptions
          ExtraM,     \* module names never described (unknown module)
          ExtraP,     \* accessible names that are never parameters ("" = bare module is always offered)
          CmdP,       \* the ones among them which are commands of every described module
          DescCmds,   \* names of the commands every described module has (for the name maps only)
          Wires,      \* wire value ids offered in messages
          ValidW,     \* the ones the parameter's datatype imports; the rest is rejected
          ValidWB,    \* the same for the datatypes of description variant "b" (equal names, other datatypes)
          Variants,   \* datatype variants a description may come in: subset of {"a", "b"}
          OtherDescs, \* descriptions ANOTHER client object of the same process may be given ({}: there is none)
          ENames,     \* error class names offered in error reports
          KnownE,     \* the ones that are SECoP error classes
          Texts,      \* error text ids
          PrefTexts,  \* text ids of the form "<PrefClass>: <PrefRest>" (frappy convention)
          PrefClass, PrefRest,
          Stamps,     \* time stamps (ticks) offered in qualifiers; NoT = no "t" qualifier
          MaxNow,     \* bound of the clock
          Shapes,     \* data part shapes, "ok" and malformed ones
          LevelKinds, \* subset of {"node", "module", "param"}
          Kinds,      \* callback kinds: "updateEvent", "updateItem"
          Behs,       \* callback behaviours: "ok", "raise", "oneshot"
          ErrBehs,    \* behaviours of a user's handleError callback (node level): subset of {"ok", "raise"}
          InitDescs,  \* descriptions the client may start with
          Descs,      \* descriptions it may be given later (reconnect)
          MaxCbs, MaxWait, Depth   \* bounds of the model-checking configurations only

NoT == 999
NodeL == <<"", "">>
NoKey == <<"", "">>
AllKeys == Mods \X PNames
Idents == (Mods \cup ExtraM) \X (PNames \cup ExtraP \cup {""})
NoErr == [cls |-> "none", text |-> "none"]
Undef == [val |-> "undef", ts |-> 0, err |-> NoErr]

ValueActions == {"update", "reply", "changed"}
ErrorActions == {"error_update", "error_read"}
ReplyOnlyActions == {"error_change"}    \* error reply to a change request: answers the caller, never touches the cache
W0 == CHOOSE w \in Wires : TRUE
E0 == CHOOSE e \in ENames : TRUE
X0 == CHOOSE x \in Texts : TRUE
GoodShapes == Shapes \cap {"ok", "okq"}     \* "okq": well formed, with additional qualifiers
BadShapes == Shapes \ {"ok", "okq"}

(* messages: [action, ident, shape, w, t, en, tx]; irrelevant fields are fixed *)
Msgs ==
  [action : ValueActions, ident : Idents, shape : GoodShapes, w : Wires, t : Stamps, en : {E0}, tx : {X0}]
  \cup [action : ValueActions, ident : Idents, shape : BadShapes, w : {W0}, t : {NoT}, en : {E0}, tx : {X0}]
  \cup [action : ErrorActions, ident : Idents, shape : GoodShapes, w : {W0}, t : Stamps, en : ENames, tx : Texts]
  \cup [action : ErrorActions, ident : Idents, shape : BadShapes, w : {W0}, t : {NoT}, en : {E0}, tx : {X0}]
  \cup [action : ReplyOnlyActions, ident : Idents, shape : {"ok"}, w : {W0}, t : {NoT}, en : ENames, tx : Texts]

Levels == (IF "node" \in LevelKinds THEN {NodeL} ELSE {})
          \cup (IF "module" \in LevelKinds THEN {<<m, "">> : m \in Mods} ELSE {})
          \cup (IF "param" \in LevelKinds THEN AllKeys ELSE {})
(* a user's handleError callback: called by the client on malformed messages / failing callbacks (how  *)
(* often is not decided here); it must never influence cache, update callbacks or the processing        *)
ErrCbs == [level : {NodeL}, kind : {"handleError"}, beh : ErrBehs]
CbSpace == [level : Levels, kind : Kinds, beh : Behs] \cup ErrCbs
ReqKeys == {"reply", "changed"} \X Idents
NoReq == <<"none", NoKey>>

VARIABLES desc,     \* the description: set of known (module, parameter) pairs
          cache,    \* [AllKeys -> entry]
          cbs,      \* registered callbacks
          waiting,  \* requests waiting for their reply: (reply action, identifier)
          now,      \* the client's clock (ticks)
          last,     \* observable outcome of the last operation
          variant,  \* datatype variant of this client's description
          other     \* description of the other client of the process: it must never matter (Isolation)
vars == <<desc, cache, cbs, waiting, now, last, variant, other>>
ValidOf(v) == IF v = "b" THEN ValidWB ELSE ValidW
NoOther == [desc |-> {}, variant |-> "none"]
(* the imported value: the wire value read with the datatype of the own description variant *)
Imp(w, v) == IF v = "b" THEN w \o "b" ELSE w

(* ---- identifier -> parameter (description handling, default accessibles) ---- *)
Resolve(a, id, d) ==
  IF id[2] # "" THEN (IF id \in d THEN id ELSE NoKey)
  ELSE LET k == <<id[1], IF a = "changed" THEN "target" ELSE "value">>
       IN IF k \in d THEN k ELSE NoKey

(* the client's name maps: accessible (module, internal name) -> identifier on the wire and back.  Identifiers are  *)
(* written here as the (module, internal name) they denote, so both maps must be the identity on the described       *)
(* accessibles - in particular inverse to each other: two accessibles of a module never share an internal name       *)
(* (custom "_target" next to the predefined "target"), and the cache / callback key of a message is the internal     *)
(* name of exactly its identifier (Resolve).                                                                         *)
Accessibles(d) == d \cup {<<k[1], c>> : k \in d, c \in DescCmds}
NameMaps(d) == {<<a, a>> : a \in Accessibles(d)}

IsValue(msg) == msg.action \in ValueActions
Handled(msg, d) == /\ msg.action \notin ReplyOnlyActions
                   /\ Resolve(msg.action, msg.ident, d) # NoKey
                   /\ msg.shape \in {"ok", "okq"}
                   /\ IsValue(msg) => msg.w \in ValidOf(variant)   \* this client's own datatypes

MinT(a, b) == IF a <= b THEN a ELSE b
TS(t, n) == IF t = NoT THEN n ELSE MinT(n, t)

ClsOf(en) == IF en \in KnownE THEN en ELSE "generic"
AllowedErr(en, tx) == {[cls |-> ClsOf(en), text |-> tx]}
                      \cup (IF tx \in PrefTexts THEN {[cls |-> PrefClass, text |-> PrefRest]} ELSE {})
AllowedEntries(msg, n) ==
  IF IsValue(msg) THEN {[val |-> Imp(msg.w, variant), ts |-> TS(msg.t, n), err |-> NoErr]}
  ELSE {[val |-> "null", ts |-> TS(msg.t, n), err |-> x] : x \in AllowedErr(msg.en, msg.tx)}

Matches(c, k) == /\ c.kind # "handleError"
                 /\ \/ c.level = NodeL
                    \/ c.level[2] = "" /\ c.level[1] = k[1]
                    \/ c.level = k

RKey(msg) == IF msg.action \in {"reply", "error_read"} THEN <<"reply", msg.ident>>
             ELSE IF msg.action \in {"changed", "error_change"} THEN <<"changed", msg.ident>> ELSE NoReq
IsCmd(id, d) == id[2] \in CmdP /\ \E k \in d : k[1] = id[1]
RelAllowed(msg, d, w) ==
  IF RKey(msg) \notin w THEN {FALSE}
  ELSE IF Handled(msg, d) \/ msg.action \in ReplyOnlyActions THEN {TRUE}
  ELSE IF Resolve(msg.action, msg.ident, d) = NoKey /\ ~IsCmd(msg.ident, d) THEN {TRUE}
  ELSE BOOLEAN       \* malformed reply / reply naming a command while a request waits: not decided here

Init == /\ desc \in InitDescs
        /\ variant \in Variants /\ other = NoOther
        /\ cache = [k \in AllKeys |-> Undef]
        /\ cbs = {}
        /\ waiting = {}
        /\ now = 0
        /\ last = [kind |-> "init"]

(* one line arrives; e is the entry the client stores, rel says whether a waiting request is released *)
Recv(msg, e, rel) ==
  /\ msg \in Msgs
  /\ LET k == Resolve(msg.action, msg.ident, desc)
         h == Handled(msg, desc)
         hit == {c \in cbs : h /\ Matches(c, k)}
     IN /\ IF h THEN /\ e \in AllowedEntries(msg, now)
                     /\ cache' = [cache EXCEPT ![k] = e]
             ELSE /\ e = Undef
                  /\ cache' = cache
        /\ cbs' = cbs \ {c \in hit : c.beh = "oneshot"}
        /\ rel \in RelAllowed(msg, desc, waiting)
        /\ waiting' = IF rel THEN waiting \ {RKey(msg)} ELSE waiting
        /\ last' = [kind |-> "recv", key |-> IF h THEN k ELSE NoKey, handled |-> h,
                    calls |-> hit, view |-> e, released |-> rel]
  /\ UNCHANGED <<variant, other, desc, now>>

Cached(c) == {k \in AllKeys : cache[k] # Undef /\ Matches(c, k)}
ImmAllowed(c) == IF c.beh = "oneshot" /\ Cached(c) # {} THEN (SUBSET Cached(c)) \ {{}}
                 ELSE {Cached(c)}

(* registration: called back at once with the cached entries S *)
Register(c, S) ==
  /\ c \in CbSpace \ cbs
  /\ S \in ImmAllowed(c)
  /\ cbs' = IF c.beh = "oneshot" /\ S # {} THEN cbs ELSE cbs \cup {c}
  /\ last' = [kind |-> "register", cb |-> c, ikeys |-> S]
  /\ UNCHANGED <<variant, other, desc, cache, waiting, now>>

Unregister(c) ==
  /\ c \in cbs
  /\ cbs' = cbs \ {c}
  /\ last' = [kind |-> "unregister", cb |-> c]
  /\ UNCHANGED <<variant, other, desc, cache, waiting, now>>

(* a caller has sent a read / change request and waits for the reply *)
Expect(rk) ==
  /\ rk \in ReqKeys \ waiting
  /\ waiting' = waiting \cup {rk}
  /\ last' = [kind |-> "expect", rk |-> rk]
  /\ UNCHANGED <<variant, other, desc, cache, cbs, now>>

(* nothing arrives for a while (the receive loop times out on the line and goes on) *)
Idle == /\ last' = [kind |-> "idle"]
        /\ UNCHANGED <<variant, other, desc, cache, cbs, waiting, now>>

Tick == /\ now < MaxNow
        /\ now' = now + 1
        /\ last' = [kind |-> "tick"]
        /\ UNCHANGED <<variant, other, desc, cache, cbs, waiting>>

(* a new description (reconnect): identifier maps are rebuilt, the cache is kept *)
Describe(d, v) ==
  /\ d \in Descs /\ v \in Variants /\ <<d, v>> # <<desc, variant>>
  /\ desc' = d /\ variant' = v
  /\ last' = [kind |-> "describe"]
  /\ UNCHANGED <<other, cache, cbs, waiting, now>>

(* another SecopClient object of the same process gets (another) description: nothing of this client changes *)
OtherDescribes(d, v) ==
  /\ d \in OtherDescs /\ v \in Variants /\ [desc |-> d, variant |-> v] # other
  /\ other' = [desc |-> d, variant |-> v]
  /\ last' = [kind |-> "other"]
  /\ UNCHANGED <<variant, desc, cache, cbs, waiting, now>>

Next == \/ \E msg \in Msgs :
             \E e \in (IF Handled(msg, desc) THEN AllowedEntries(msg, now) ELSE {Undef}),
                rel \in RelAllowed(msg, desc, waiting) : Recv(msg, e, rel)
        \/ \E c \in CbSpace \ cbs : \E S \in ImmAllowed(c) : Register(c, S)
        \/ \E c \in cbs : Unregister(c)
        \/ \E rk \in ReqKeys : Expect(rk)
        \/ Tick
        \/ Idle
        \/ \E d \in Descs, v \in Variants : Describe(d, v)
        \/ \E d \in OtherDescs, v \in Variants : OtherDescribes(d, v)

Spec == Init /\ [][Next]_vars

(* ------------------------------ properties ------------------------------ *)
Entries == [val : ValidW \cup {Imp(w, "b") : w \in ValidWB}, ts : 0 .. MaxNow, err : {NoErr}]
           \cup [val : {"null"}, ts : 0 .. MaxNow,
                 err : [cls : KnownE \cup {"generic", PrefClass}, text : Texts \cup {PrefRest}]]
           \cup {Undef}

TypeOK == /\ desc \subseteq AllKeys
          /\ cache \in [AllKeys -> Entries]
          /\ cbs \subseteq CbSpace
          /\ waiting \subseteq ReqKeys
          /\ now \in 0 .. MaxNow

(* no time stamp in the future; never a rejected value in the cache *)
NoFuture == \A k \in AllKeys : cache[k].ts <= now

(* what the last message did is visible in the state *)
LastImport == last.kind = "recv" /\ last.handled =>
                 /\ cache[last.key] = last.view
                 /\ last.view # Undef
                 /\ \A c \in last.calls : Matches(c, last.key) /\ (c.beh = "oneshot" <=> c \notin cbs)
                 /\ \A c \in cbs : Matches(c, last.key) => c \in last.calls

(* unknown / malformed: nothing changes, nobody is called *)
Ignored == [][last'.kind = "recv" /\ ~last'.handled =>
                 cache' = cache /\ cbs' = cbs /\ last'.calls = {} /\ last'.key = NoKey]_vars

(* exactly once: the set of callbacks invoked is exactly the registered matching ones *)
ExactlyOnce == [][\A k \in AllKeys : last'.kind = "recv" /\ last'.handled /\ last'.key = k =>
                     last'.calls = {c \in cbs : Matches(c, k)}]_vars

(* clients are isolated: what the other client of the process is told changes nothing here; and no action of this    *)
(* client reads `other` (cache, name maps and datatypes are a function of the own description and messages only)       *)
Isolation == [][other' # other => UNCHANGED <<desc, variant, cache, cbs, waiting, now>>]_vars

(* frame: an entry changes only by a handled message for a described parameter *)
Frame == [][\A k \in AllKeys : cache'[k] # cache[k] =>
               last'.kind = "recv" /\ last'.handled /\ last'.key = k /\ k \in desc]_vars

(* registration reports the cache as it is and does not change it *)
RegisterSeesCache == last.kind = "register" =>
                        /\ last.ikeys \subseteq Cached(last.cb)
                        /\ last.cb.beh # "oneshot" => last.ikeys = Cached(last.cb) /\ last.cb \in cbs

(* a released caller finds the new entry already in the cache *)
ReleasedSeesNew == last.kind = "recv" /\ last.released /\ last.handled => cache[last.key] = last.view

Bound == /\ TLCGet("level") <= Depth
         /\ Cardinality(cbs) <= MaxCbs
         /\ Cardinality(waiting) <= MaxWait

(* ------------- standard scenario (two descriptions over Mods x PNames) ------------- *)
StdD1 == {<<"m1", "value">>, <<"m1", "target">>, <<"m2", "x">>}
StdD2 == {<<"m1", "value">>, <<"m2", "value">>, <<"m2", "x">>}
StdDescs == {StdD1, StdD2}
StdInit == {StdD1}

(* ------------------- end-to-end law (records from real nodes) ------------------- *)
(* abstract values: [j |-> "atom", v |-> canonical text], [j |-> "struct", m |-> record],  *)
(* [j |-> "seq", e |-> sequence]                                                            *)
RECURSIVE Covers(_, _)
Covers(r, s) ==   \* r carries everything the caller passed in s (optional struct members may be added)
  IF s.j # r.j THEN FALSE
  ELSE IF s.j = "atom" THEN r.v = s.v
  ELSE IF s.j = "seq" THEN Len(r.e) = Len(s.e) /\ \A i \in 1 .. Len(s.e) : Covers(r.e[i], s.e[i])
  ELSE DOMAIN s.m \subseteq DOMAIN r.m /\ \A f \in DOMAIN s.m : Covers(r.m[f], s.m[f])

(* ops: write / writestr (setParameter, setParameterFromString), do (execCommand: cache = result handed to the  *)
(* caller), read, announce (spontaneous update of the driver), readerr / writeerr (driver raises)             *)
(* bigwrite / bigread: the value is so large that its frame leaves the node in several pieces while another     *)
(* thread of the node publishes updates of another parameter on the same activated connection                  *)
E2EReceived(r) == r.op \in {"write", "writestr", "do", "bigwrite"} => r.nrecv >= 1 /\ Covers(r.received, r.sent)
E2ECache(r) == r.op \in {"write", "writestr", "do", "read", "announce", "bigwrite", "bigread"} => r.cache = r.returned
E2EError(r) == r.op \in {"readerr", "writeerr"} => r.cache = r.raised
(* concurrent publishing on the connection: no malformed line (no handleError), every update of the other        *)
(* parameter arrives once, in order, and the last one is what the client cache holds                           *)
E2EQuiet(r) == r.op \in {"bigwrite", "bigread"} =>
                  /\ r.nerrors = 0
                  /\ r.conc_seen = r.conc_sent
                  /\ r.conc_cache = r.conc_last
=============================================================================
