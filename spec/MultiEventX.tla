----------------------------- MODULE MultiEventX -----------------------------
(* Growth module X04: the contract of frappy/lib/multievent.py as its callers (frappy/server.py:            *)
(* interfaces_started / start_events, modulebase.startModule, proxy, protocol/router.py) rely on it,         *)
(* stated over OBSERVABLE events only: every public call has a begin and a return, queued actions announce    *)
(* themselves when they run.  A call takes effect atomically at one point between its begin and its return    *)
(* (the class serialises its critical sections with one lock), so a recorded execution is a behaviour of     *)
(* this module iff such points can be found (Trace_MultiEventX lets TLC search them).  The code-shaped model   *)
(* with the race analysis is MultiEventXCode.tla; the older, smaller MultiEvent.tla belongs to C15.           *)
(*                                                                                                            *)
(*   pending      the sub-events created and not (or no longer) set - "outstanding"                           *)
(*   dl[e]        absolute deadline of sub-event e (Inf = none), fixed when it is created                     *)
(*   queued       actions waiting for the MultiEvent to become set, in queue() order                          *)
(*   flusher      the thread that runs the queued actions right now (it made `pending` empty, or called       *)
(*                queue() while nothing was pending); everything else that needs the lock waits for it        *)
(*   Quiet        nothing pending and nobody flushing: "the MultiEvent is set"                                *)
(*                                                                                                            *)
(* wait(to) has two points: a snapshot (the set of outstanding events it looks at fixes its limit             *)
(* lim = min(largest deadline among them, time + to)), and its return: True needs a Quiet moment after the    *)
(* snapshot and, in virtual time, comes not later than that moment (no lost wake-up); False needs             *)
(* lim reached, not earlier, not later, and no Quiet period that began before.                                *)
(* Time is in integer ticks; `hiT` (parameter of the effect actions) is an upper bound of the time at the     *)
(* effect point (the time of the next observed event), `now` the lower one.  The operators below leave `now`  *)
(* to the module that uses them (Trace_: the time stamps of the events; Gen_ / MC_: ticks).                   *)
EXTENDS Integers, Sequences, FiniteSets, TLC

CONSTANTS Threads,     \* names of the threads that call the object
          Inf,         \* "no deadline" / "no time-out": larger than every time that occurs
          Slack        \* tolerated lateness of a return in ticks (0 under the deterministic scheduler)

VARIABLES pending, created, dl, nm, queued, ran, dropped, flusher, qsince, now, call,
          dto,         \* default_timeout of the MultiEvent (Inf = none; the constructor treats 0 as none)
          defname      \* its attribute `name`: default name of new sub-events ("" = not set)
xvars == <<pending, created, dl, nm, queued, ran, dropped, flusher, qsince, now, call, dto, defname>>

None == "none"
Min(a, b) == IF a <= b THEN a ELSE b
Max(a, b) == IF a >= b THEN a ELSE b
Range(s) == {s[j] : j \in DOMAIN s}
Plus(a, b) == IF a = Inf \/ b = Inf THEN Inf ELSE a + b

NoDl == -1           \* deadline() when nothing is outstanding (the code returns 0, an absolute time long past)
Idle == [op |-> "idle", e |-> "", a |-> "", to |-> 0, name |-> "", st |-> "idle", bvt |-> 0, dn |-> {},
         bres |-> FALSE, ires |-> 0, sres |-> {},
         lo |-> 0, hi |-> 0, shi |-> 0, sfree |-> -1, sawQuiet |-> FALSE, sawEmpty |-> FALSE, sawFlush |-> FALSE,
         ovl |-> FALSE, half |-> FALSE]

Mutators == {"new", "set", "clear", "queue"}
Readers == {"wait", "wfor", "deadline"}          \* calls that look at the whole set of sub-events

(* what deadline() computes: 0 if nothing is outstanding, Inf (None) if an outstanding event has no deadline *)
MaxDl(S) == IF S = {} THEN NoDl
            ELSE IF \E e \in S : dl[e] = Inf THEN Inf
            ELSE CHOOSE d \in {dl[e] : e \in S} : \A e \in S : dl[e] <= d
Names(S) == {nm[e] : e \in S}
Quiet == pending = {} /\ flusher = None

XInit == /\ defname = ""
         /\ pending = {} /\ created = {} /\ dl = <<>> /\ nm = <<>> /\ queued = <<>> /\ ran = <<>>
         /\ dropped = {} /\ flusher = None /\ qsince = 0 /\ now = 0
         /\ call = [th \in Threads |-> Idle]

(* ghost fields of the calls in flight follow every change of pending / flusher *)
Follow(c, p2, f2, hiT) ==
   IF c.op \in Readers /\ c.st \in {"called", "snapped"}
   THEN [c EXCEPT !.sawEmpty = @ \/ p2 = {},
                  !.sawFlush = @ \/ (p2 = {} /\ f2 # None),
                  \* since when could a wait() have looked at the events (nobody flushing = the lock is free)?
                  !.sfree = IF c.st # "called" THEN @ ELSE IF f2 # None THEN -1 ELSE IF @ = -1 THEN hiT ELSE @,
                  !.sawQuiet = @ \/ (c.st = "snapped" /\ p2 = {} /\ f2 = None),
                  !.ovl = @ \/ p2 # pending]
   ELSE c
Effect(th, rec, p2, f2, hiT) ==
   /\ pending' = p2 /\ flusher' = f2
   /\ call' = [x \in Threads |-> IF x = th THEN rec ELSE Follow(call[x], p2, f2, hiT)]
   /\ qsince' = IF p2 = {} /\ f2 = None THEN (IF Quiet THEN qsince ELSE hiT) ELSE -1

(* ------------------------------------------------------------------ begin of a call *)
Begin(th, vt, op, e, a, to, name) ==
   /\ call[th].st = "idle"
   /\ call' = [x \in Threads |->
        IF x = th
        THEN [Idle EXCEPT !.op = op, !.e = e, !.a = a, !.to = to, !.name = name, !.st = "called", !.bvt = vt,
                          !.sawEmpty = (pending = {}), !.dn = {defname},
                          !.sawFlush = (pending = {} /\ flusher # None),
                          !.sfree = IF flusher = None THEN vt ELSE -1,
                          !.half = \E y \in Threads \ {th} : call[y].op = "new" /\ call[y].st # "idle"]
        ELSE IF op = "new" /\ call[x].op \in Readers /\ call[x].st \in {"called", "snapped"}
             THEN [call[x] EXCEPT !.half = TRUE] ELSE call[x]]
   /\ UNCHANGED <<pending, created, dl, nm, queued, ran, dropped, flusher, qsince, dto, defname>>

(* ------------------------------------------------------------------ effect points *)
(* new(timeout, name) / get_trigger(timeout, name): the sub-event is outstanding from now on; its deadline is *)
(* the time of creation + timeout; timeout None or 0 means the default time-out of the MultiEvent, a missing   *)
(* name the default name (the attribute `name` as it was at some moment of the call) or "<unnamed>"            *)
LinNew(th, hiT) ==
   LET c == call[th]
       to == IF c.to = 0 THEN dto ELSE c.to IN
   /\ c.op = "new" /\ c.st = "called" /\ flusher = None /\ c.e \notin created
   /\ \E d \in (IF to = Inf THEN {Inf} ELSE IF hiT - c.bvt > 100 THEN {c.bvt + to, hiT + to} ELSE (c.bvt + to) .. (hiT + to)) :
        /\ dl' = (c.e :> d) @@ dl
        /\ Effect(th, [c EXCEPT !.st = "done", !.ires = d], pending \cup {c.e}, None, hiT)
   /\ created' = created \cup {c.e}
   /\ \E n \in (IF c.name # "" THEN {c.name} ELSE {IF x = "" THEN "<unnamed>" ELSE x : x \in c.dn}) :
        nm' = (c.e :> n) @@ nm
   /\ UNCHANGED <<queued, ran, dropped, dto, defname>>
(* multievent.name = ...: a plain attribute assignment *)
LinSetName(th, hiT) ==
   LET c == call[th] IN
   /\ c.op = "setname" /\ c.st = "called"
   /\ defname' = c.name
   /\ pending' = pending /\ flusher' = flusher /\ qsince' = qsince
   /\ call' = [x \in Threads |-> IF x = th THEN [c EXCEPT !.st = "done"]
                                  ELSE IF call[x].op = "new" /\ call[x].st = "called"
                                       THEN [call[x] EXCEPT !.dn = @ \cup {c.name}] ELSE call[x]]
   /\ UNCHANGED <<created, dl, nm, queued, ran, dropped, dto>>

(* set() of a sub-event / the callable returned by get_trigger(): idempotent; the thread that makes *)
(* `pending` empty runs the queued actions                                                          *)
LinSet(th, hiT) ==
   LET c == call[th]  p2 == pending \ {c.e} IN
   /\ c.op = "set" /\ c.st = "called" /\ flusher = None /\ c.e \in created
   /\ Effect(th, [c EXCEPT !.st = "done"], p2, IF p2 = {} /\ queued # <<>> THEN th ELSE None, hiT)
   /\ UNCHANGED <<created, dl, nm, queued, ran, dropped, dto, defname>>

(* clear() of a sub-event: outstanding again (the MultiEvent is re-used) *)
LinClear(th, hiT) ==
   LET c == call[th] IN
   /\ c.op = "clear" /\ c.st = "called" /\ flusher = None /\ c.e \in created
   /\ Effect(th, [c EXCEPT !.st = "done"], pending \cup {c.e}, None, hiT)
   /\ UNCHANGED <<created, dl, nm, queued, ran, dropped, dto, defname>>

(* queue(action): run at once by the caller if nothing is pending, else by the thread doing the last set *)
LinQueue(th, hiT) ==
   LET c == call[th] IN
   /\ c.op = "queue" /\ c.st = "called" /\ flusher = None
   /\ c.a \notin Range(queued) \cup Range(ran) \cup dropped
   /\ queued' = Append(queued, c.a)
   /\ Effect(th, [c EXCEPT !.st = "done"], pending, IF pending = {} THEN th ELSE None, hiT)
   /\ UNCHANGED <<created, dl, nm, ran, dropped, dto, defname>>

(* a queued action runs: in queue order, by the flusher only, once; an action that raises ends the flush, *)
(* the actions behind it are dropped (documented in queue())                                              *)
Act(th, a, raises, hiT) ==
   /\ flusher = th /\ queued # <<>> /\ Head(queued) = a
   /\ ran' = Append(ran, a)
   /\ queued' = IF raises THEN <<>> ELSE Tail(queued)
   /\ dropped' = IF raises THEN dropped \cup Range(Tail(queued)) ELSE dropped
   /\ Effect(th, call[th], pending, IF queued' = <<>> THEN None ELSE th, hiT)
   /\ UNCHANGED <<created, dl, nm, dto, defname>>

(* wait(to), first point: which events are outstanding decides the limit.  The look is taken as soon as nobody *)
(* is flushing (sfree), not later: a thread that can run does not see time pass.                              *)
Snap(th, hiT) ==
   LET c == call[th]
       m == MaxDl(pending) IN
   /\ c.op = "wait" /\ c.st = "called" /\ flusher = None
   /\ Effect(th, IF pending = {}
                 THEN [c EXCEPT !.st = "snapped", !.sawQuiet = TRUE, !.lo = Inf, !.hi = Inf, !.shi = c.sfree]
                 ELSE [c EXCEPT !.st = "snapped", !.lo = Min(m, Plus(c.bvt, c.to)), !.hi = Min(m, Plus(c.sfree, c.to)),
                                !.shi = c.sfree],
             pending, None, hiT)
   /\ UNCHANGED <<created, dl, nm, queued, ran, dropped, dto, defname>>

(* waiting_for(), deadline(): one consistent look at the outstanding events (also while the queued actions run: *)
(* nothing is outstanding then)                                                                               *)
LinRead(th, hiT) ==
   LET c == call[th] IN
   /\ c.op \in {"wfor", "deadline"} /\ c.st = "called"
   /\ Effect(th, [c EXCEPT !.st = "done", !.sres = Names(pending), !.ires = MaxDl(pending)], pending, flusher, hiT)
   /\ UNCHANGED <<created, dl, nm, queued, ran, dropped, dto, defname>>
(* is_set() of a sub-event / of the MultiEvent: lock-free by design (threading.Event API) *)
LinFlag(th, hiT) ==
   LET c == call[th] IN
   /\ c.op \in {"isset", "mset"} /\ c.st = "called"
   /\ Effect(th, [c EXCEPT !.st = "done", !.bres = IF c.op = "isset" THEN c.e \notin pending ELSE pending = {}],
             pending, flusher, hiT)
   /\ UNCHANGED <<created, dl, nm, queued, ran, dropped, dto, defname>>

Lin(th, hiT) == LinNew(th, hiT) \/ LinSet(th, hiT) \/ LinClear(th, hiT) \/ LinQueue(th, hiT)
                \/ Snap(th, hiT) \/ LinRead(th, hiT) \/ LinFlag(th, hiT) \/ LinSetName(th, hiT)

(* ------------------------------------------------------------------ returns *)
Done(th) == /\ call' = [call EXCEPT ![th] = Idle]
            /\ UNCHANGED <<pending, created, dl, nm, queued, ran, dropped, flusher, qsince, dto, defname>>

RetPlain(th) ==        \* set / clear / queue return only when their flush is over
   /\ call[th].op \in {"set", "clear", "queue", "setname"} /\ call[th].st = "done" /\ flusher # th /\ Done(th)
RetNew(th, d) == /\ call[th].op = "new" /\ call[th].st = "done" /\ d = call[th].ires /\ Done(th)
WaitTrueOK(c, vt) == /\ c.sawQuiet /\ (Quiet => vt <= Max(qsince, c.shi) + Slack)
                     /\ c.lo # Inf => vt <= Max(c.hi, c.shi) + Slack           \* woken before its limit
WaitFalseOK(c, vt) == /\ c.lo # Inf /\ c.lo <= vt /\ vt <= Max(c.hi, c.shi) + Slack     \* (a limit already past: at once)
                      /\ ~(Quiet /\ qsince + Slack < vt)       \* it was woken up: no lost wake-up
RetWait(th, res, vt) ==
   LET c == call[th] IN
   /\ c.op = "wait" /\ c.st = "snapped"
   /\ IF res THEN WaitTrueOK(c, vt) ELSE WaitFalseOK(c, vt)
   /\ Done(th)
RetNames(th, names) == /\ call[th].op = "wfor" /\ call[th].st = "done" /\ names = call[th].sres /\ Done(th)
RetDeadline(th, d) == /\ call[th].op = "deadline" /\ call[th].st = "done" /\ d = call[th].ires /\ Done(th)
(* set() / clear() of the MultiEvent itself are refused (ValueError) and change nothing *)
RetRefused(th) == /\ call[th].op \in {"mforce", "mclear"} /\ call[th].st = "called" /\ Done(th)
RetFlag(th, b) == /\ call[th].op \in {"isset", "mset"} /\ call[th].st = "done" /\ b = call[th].bres /\ Done(th)

(* a thread that never returns: legitimate only for a wait without any limit while something is outstanding *)
StuckOK(th) == call[th].op = "wait" /\ call[th].st = "snapped" /\ call[th].lo = Inf /\ ~Quiet

(* ------------------------------------------------------------------ invariants of the contract itself *)
Count(s, a) == Cardinality({j \in DOMAIN s : s[j] = a})
ActionsOnce == \A a \in Range(ran) \cup Range(queued) \cup dropped :
                  Count(ran, a) + Count(queued, a) + (IF a \in dropped THEN 1 ELSE 0) = 1
QueuedOnlyWhilePending == queued # <<>> => (pending # {} \/ flusher # None)
FlusherHasWork == flusher # None => (pending = {} /\ queued # <<>> /\ call[flusher].op \in {"set", "queue"})
ActionsOnlyWhenSet == [][ran' # ran => pending = {}]_xvars
PendingCreated == pending \subseteq created /\ DOMAIN dl = created /\ DOMAIN nm = created
=============================================================================
