--------------------------- MODULE Gen_LogRotation ---------------------------
(* case emission: every initial directory of LogRotation x every sequence of day steps *)
EXTENDS LogRotation, Json, Sequences
CONSTANT Depth
VARIABLES steps, days0

GInit == RotInit /\ steps = <<>> /\ days0 = days
GNext == \E k \in 1 .. 2 :
           /\ today + k <= MaxDay
           /\ today' = today + k
           /\ steps' = Append(steps, k)
           /\ UNCHANGED <<days, foreign, n, days0>>
GSpec == GInit /\ [][GNext]_<<rotvars, steps, days0>>
Bound == TLCGet("level") <= Depth
Emit1 == (Len(steps) >= 1) =>
   PrintT(<<"BEH", ToJson([n |-> n, start |-> StartDay, days |-> days0, foreign |-> foreign, steps |-> steps])>>)
=============================================================================
