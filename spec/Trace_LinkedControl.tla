-------------------------- MODULE Trace_LinkedControl --------------------------
(* code -> spec: recorded executions of real HasOutputModule controllers on one *)
(* or two real HasControlledBy outputs of a node, with modules of an earlier    *)
(* and a later node alive in the same process.  Event 1: layout code and        *)
(* initial observation.  Observed per event: active (control_active per         *)
(* controller), cby (controlled_by per output, as a name), the client's view    *)
(* vactive / vcby, and foreign (the other nodes' control state is untouched).   *)
EXTENDS LinkedControl, Json, IOUtils, TLCExt, Sequences
Traces == JsonDeserialize(IOEnv.TRACE_FILE)
NT == Len(Traces)
VARIABLES t, l
ASSUME \A i \in 1 .. NT : TLCSet(i, 1)
Ev == Traces[t][l]

Seen(e) == e.vactive = e.active /\ e.vcby = e.cby

TInit == /\ t \in 1 .. NT /\ l = 2
         /\ LET e == Traces[t][1] IN
              /\ lay = e.lay /\ exc = e.exc /\ active = e.active /\ cby = e.cby /\ foreign = e.foreign
              /\ active = [c \in Ctls |-> FALSE] /\ cby = [o \in Outs |-> "self"] /\ foreign /\ Seen(e)

TStep ==
  /\ l <= Len(Traces[t])
  /\ l' = l + 1 /\ t' = t
  /\ active' = Ev.active /\ cby' = Ev.cby /\ foreign' = Ev.foreign
  /\ \/ Ev.ev = "take" /\ TakeOver(Ev.c, Ev.f)
     \/ Ev.ev = "upd" /\ UpdateTarget(Ev.c)
     \/ Ev.ev = "self" /\ SelfControl(Ev.o, Ev.f)
  /\ Seen(Ev)
  /\ AtMostOne' /\ NamesTheActive' /\ NotBuiltInactive' /\ ForeignIntact'

TSpec == TInit /\ [][TStep]_<<cvars, t, l>>
Track == TLCSet(t, IF l > TLCGet(t) THEN l ELSE TLCGet(t))
Verdicts == \A i \in 1 .. NT :
   IF TLCGet(i) = Len(Traces[i]) + 1 THEN PrintT(<<"ACCEPT", i>>)
   ELSE PrintT(<<"REJECT", i, TLCGet(i), "event not explained by LinkedControl">>)
=============================================================================
