-------------------------- MODULE Trace_LinkedControl --------------------------
(* code -> spec: recorded executions of real HasOutputModule controllers on one *)
(* real HasControlledBy output.  Event 1: group size n and initial observation. *)
(* Observed per event: active (control_active per controller), cby              *)
(* (controlled_by of the output as a name) and the client's view vactive, vcby. *)
EXTENDS LinkedControl, Json, IOUtils, TLCExt, Sequences
Traces == JsonDeserialize(IOEnv.TRACE_FILE)
NT == Len(Traces)
VARIABLES t, l
ASSUME \A i \in 1 .. NT : TLCSet(i, 1)
Ev == Traces[t][l]

Seen(e) == e.vactive = e.active /\ e.vcby = e.cby

TInit == /\ t \in 1 .. NT /\ l = 2
         /\ LET e == Traces[t][1] IN
              /\ n = e.n /\ active = e.active /\ cby = e.cby
              /\ active = None /\ cby = "self" /\ Seen(e)

TStep ==
  /\ l <= Len(Traces[t])
  /\ l' = l + 1 /\ t' = t
  /\ active' = Ev.active /\ cby' = Ev.cby
  /\ \/ Ev.ev = "take" /\ TakeOver(Ev.c)
     \/ Ev.ev = "upd" /\ UpdateTarget(Ev.c)
     \/ Ev.ev = "self" /\ SelfControl
  /\ Seen(Ev)
  /\ AtMostOne' /\ NamesTheActive' /\ OutsideGroupInactive'

TSpec == TInit /\ [][TStep]_<<cvars, t, l>>
Track == TLCSet(t, IF l > TLCGet(t) THEN l ELSE TLCGet(t))
Verdicts == \A i \in 1 .. NT :
   IF TLCGet(i) = Len(Traces[i]) + 1 THEN PrintT(<<"ACCEPT", i>>)
   ELSE PrintT(<<"REJECT", i, TLCGet(i), "event not explained by LinkedControl">>)
=============================================================================
