SPECIFICATION GSpec
CONSTANTS
  Kinds = {"d", "ad", "r", "adc"}
  MaxLen = 2
  FaultModes = {"ee", "ww"}
  Depth = 14
  MaxStarts = 2
  MaxRefused = 1
  MaxStops = 1
CONSTRAINT Bound
INVARIANT Emit1
CHECK_DEADLOCK FALSE
