SPECIFICATION GSpec
CONSTANTS
  Kinds = {"d", "ad", "r", "adc"}
  MaxLen = 2
  Hooks = {"hw"}
  FaultModes = {"we", "ee"}
  Depth = 14
  MaxStarts = 2
  MaxRefused = 1
  MaxStops = 0
CONSTRAINT Bound
INVARIANT Emit1
CHECK_DEADLOCK FALSE
