SPECIFICATION GSpec
CONSTANTS
  Threads = {"main", "w1", "w2"}
  Inf = 1000000
  Slack = 0
  Ids <- Ids2
  ActIds <- Acts0
  RaisingActs = {}
  NewTimeouts = {0, 2}
  NewNames = {""}
  DefNames = {}
  WaitTimeouts = {1000000, 1}
  Dto = 3
  Waiters = {"w1"}
  Depth = 5
  MaxTicks = 3
  MaxClears = 0
  MaxWaits = 2
  MaxDirect = 0
  MaxSetNames = 0
INVARIANT Emit
INVARIANT GenInv
CHECK_DEADLOCK FALSE
