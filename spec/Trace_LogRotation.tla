-------------------------- MODULE Trace_LogRotation --------------------------
(* code -> spec: directory listings recorded around real LogfileHandler rollovers *)
EXTENDS LogRotation, Json, IOUtils, TLCExt, SequencesExt, Sequences
Traces == JsonDeserialize(IOEnv.TRACE_FILE)
NT == Len(Traces)
VARIABLES t, l
ASSUME \A i \in 1 .. NT : TLCSet(i, 1)
Ev == Traces[t][l]

TInit == /\ t \in 1 .. NT /\ l = 2
         /\ LET e == Traces[t][1] IN
              /\ n = e.n /\ today = e.today
              /\ days = ToSet(e.days) /\ foreign = ToSet(e.foreign)
              /\ e.today \in ToSet(e.days)      \* the start file was created

TStep == /\ l <= Len(Traces[t])
         /\ l' = l + 1 /\ t' = t
         /\ Ev.ev = "rollover"
         /\ Ev.written                           \* the handler wrote into today's file without error
         /\ today' = Ev.today
         /\ days' = ToSet(Ev.days)
         /\ foreign' = ToSet(Ev.foreign)
         /\ n' = n
         /\ RolloverOK(days, Ev.today, n, ToSet(Ev.days))
         /\ Ev.other = <<>>                      \* no unexpected file names appear

TSpec == TInit /\ [][TStep]_<<rotvars, t, l>>
Track == TLCSet(t, IF l > TLCGet(t) THEN l ELSE TLCGet(t))
Verdicts == \A i \in 1 .. NT :
   IF TLCGet(i) = Len(Traces[i]) + 1 THEN PrintT(<<"ACCEPT", i>>)
   ELSE PrintT(<<"REJECT", i, TLCGet(i), "rollover result not allowed by RolloverOK">>)
=============================================================================
