SPECIFICATION GSpec
CONSTANTS
  Mods = {"m1", "m2"}
  PNames = {"value", "target", "x", "y"}
  ExtraM = {"zz"}
  ExtraP = {"cmd"}
  CmdP = {"cmd"}
  DescCmds = {"cmd", "stop", "_stop"}
  Wires = {"w1", "wbad"}
  ValidW = {"w1"}
  ValidWB = {}
  Variants = {"a"}
  OtherDescs = {}
  ENames = {"HardwareError", "Bogus"}
  KnownE = {"HardwareError"}
  Texts = {"t1"}
  PrefTexts = {}
  PrefClass = "RangeError"
  PrefRest = "t1"
  Stamps = {999}
  MaxNow = 2
  Shapes = {"ok", "okq", "short"}
  LevelKinds = {"node", "module", "param"}
  Kinds = {"updateEvent", "updateItem"}
  Behs = {"ok", "oneshot", "raise"}
  ErrBehs = {"ok", "raise"}
  InitDescs <- GenInit
  Descs <- GenInit
  GIdents <- GIdentsC
  GActions = {"update", "error_update"}
  GLevels <- GLevelsC
  EmitOneIn = 12
  MaxCbs = 3
  MaxWait = 1
  Depth = 4
CONSTRAINT GBound
INVARIANT Emit1
CHECK_DEADLOCK FALSE
