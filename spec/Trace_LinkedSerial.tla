------------------------- MODULE Trace_LinkedSerial -------------------------
(* code -> spec: executions of 2-3 real driver threads assigning members,     *)
(* structs and the enum index of ONE real module under the deterministic      *)
(* scheduler (every source line of modulebase.py / extparams.py / params.py a *)
(* possible preemption point).  Event 1: the scripts.  "emit": an update      *)
(* announced by the module (thread, parameter, value, and the caches as they  *)
(* are at that moment: snapmem = members of the struct, snapidx = the index). *)
(* "end": the caches after all threads have finished.                         *)
EXTENDS LinkedSerial, Json, IOUtils, TLCExt
Traces == JsonDeserialize(IOEnv.TRACE_FILE)
NT == Len(Traces)
VARIABLES t, l
ASSUME \A i \in 1 .. NT : TLCSet(i, 1)
Ev == Traces[t][l]
TInit == t \in 1 .. NT /\ l = 2 /\ SInit(Traces[t][1].scripts, Traces[t][1].hw)
TStep ==
  /\ l <= Len(Traces[t])
  /\ l' = l + 1 /\ t' = t
  /\ \/ /\ Ev.ev = "emit"
        /\ Announce(Ev.th, <<Ev.kind, Ev.x, Ev.m>>, Ev.v)
        \* every announced struct / float equals the members / the index as of the same locked step
        /\ Ev.kind = "str" => Ev.v = Ev.snapmem
        /\ Ev.kind = "flt" => Ev.v = Tab(Ev.snapidx)
     \/ /\ Ev.ev = "end"
        /\ Finished
        /\ Ev.str = str /\ Ev.mem = mem /\ Ev.idx = idx /\ Ev.fval = fval /\ Ev.hw = hw
        /\ Agree
        /\ UNCHANGED svars
TSpec == TInit /\ [][TStep]_<<svars, t, l>>
Track == TLCSet(t, IF l > TLCGet(t) THEN l ELSE TLCGet(t))
Verdicts == \A i \in 1 .. NT :
   IF TLCGet(i) = Len(Traces[i]) + 1 THEN PrintT(<<"ACCEPT", i>>)
   ELSE PrintT(<<"REJECT", i, TLCGet(i), "event not allowed by LinkedSerial">>)
=============================================================================
