SPECIFICATION LSpec
CONSTANTS
  MaxLen = 0
  ReadSize = 1
  Classes = {"idn", "describe", "describe_dot", "describe_m", "read_p", "read_s", "read_hw", "read_nomod", "change_p3", "change_p7", "change_range", "change_s", "change_type", "change_ro", "do_cmd", "do_noarg", "ping", "ping_bare", "activate", "activate_m", "deactivate", "deactivate_m", "logging_on", "logging_off", "empty", "blanks", "help", "help_x", "bad_utf8_spec", "bad_utf8_act", "bad_utf8_data", "bad_utf8_crlf", "bad_json", "extra_tokens", "missing_spec", "missing_data", "extra_read", "extra_ping", "crlf", "lead_blank", "trail_blank", "lead_badjson", "trail_badjson", "double_sp", "long_valid", "long_junk", "unknown", "c_request", "c_request_x", "c_ident", "c_help_d", "c_ident_x", "nonascii_badjson", "deep_list_open", "deep_dict_open", "deep_list_50k", "deep_dict_50k", "deep_list", "deep_dict", "huge_int", "read_k", "change_k", "read_broken", "change_broken", "do_broken", "read_m", "change_m", "do_stop", "change_t", "read_t", "surrogate_t", "long_valid_3k", "ping_long"}
  MaxPend = 2
  Threads = {"req"}
  UseLock = TRUE
  CheckRunning = TRUE
INVARIANT Belongs
INVARIANT ErrorClassIsSECoP
INVARIANT EveryLineWellFormed
INVARIANT HandlerSurvives
PROPERTY OnePerLine
PROPERTY NoWriteAfterFailure
INVARIANT AnsweredAtEOF
CHECK_DEADLOCK FALSE
