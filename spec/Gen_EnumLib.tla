---------------------------- MODULE Gen_EnumLib ----------------------------
(* spec -> code: TLC walks the state graph of EnumLib (states = enums, identified up to the path that built     *)
(* them: VIEW) and prints ONE LINE PER TRANSITION: the path of constructions that leads to the source state     *)
(* followed by the step, with the result the specification demands (exp), the result of the code as             *)
(* transcribed under the deviation switches (alt) and the name of the switch that makes the difference (dev).    *)
(* Operations that do not change an enum (lookups, comparisons, arithmetic, conversions, refused mutations)      *)
(* are self loops.  harness/props/x05.py replays every line on the real frappy.lib.enum.                         *)
EXTENDS EnumLib, Json
CONSTANTS Families        \* subset of {"build", "look", "cmp", "arith", "conv", "mut", "eqe"}
VARIABLE hist

Fam(f) == f \in Families
Emit(step) == PrintT(<<"BEH", ToJson(Append(hist, step))>>)
DevOf(F(_)) == IF F(AllDevs) = F({}) THEN "" ELSE CHOOSE d \in AllDevs : F({d}) # F({})
(* exp: what the specification demands; where the transcription of the code differs: alt and the switch (dev) *)
Exp(F(_)) == IF F(AllDevs) = F({}) THEN [exp |-> F({})] ELSE [exp |-> F({}), alt |-> F(AllDevs), dev |-> DevOf(F)]
Ops == UNCHANGED <<vars, hist>>
C == E(cur)
Mems == DOMAIN cur.map

GInit == Init /\ hist = <<>>

GNew(form, nm, dp, kp) ==
  /\ New(form, nm, dp, kp)
  /\ LET F(S) == NewRes(S, form, nm, dp, kp)
         step == [act |-> "new", form |-> form, nm |-> nm, dp |-> dp, kp |-> kp] @@ Exp(F)
     IN /\ Fam("build") => Emit(step)
        /\ hist' = IF act'.ok THEN Append(hist, step) ELSE hist
GExtend(form, nm, kp) ==
  /\ Extend(form, nm, kp)
  /\ LET F(S) == ExtRes(S, form, nm, kp)
         step == [act |-> "extend", form |-> form, nm |-> nm, kp |-> kp] @@ Exp(F)
     IN /\ Fam("build") => Emit(step)
        /\ hist' = IF act'.ok THEN Append(hist, step) ELSE hist
GRename(nm) ==
  /\ Rename(nm)
  /\ LET step == [act |-> "rename", nm |-> nm, exp |-> EnumR([nm |-> nm, map |-> cur.map])]
     IN /\ Fam("build") => Emit(step)
        /\ hist' = Append(hist, step)

(* ---- self loops ---- *)
ArithOperands == {V("int", v, "") : v \in {-1, 0, 2, 3}} \cup {V("mem", Other.map[s], s) : s \in {"a", "q"}}
                 \cup {V("own", cur.map[s], s) : s \in Mems}
GLook == /\ Fam("look") /\ cur.ok /\ Ops
         /\ \A how \in {"call", "item", "attr"}, key \in Operands(C) :
               (how = "attr" => key.ty \in {"str", "numstr"})
                  => Emit([act |-> "look", how |-> how, key |-> key, exp |-> Lookup(C, how, key)])
         /\ \A mn \in Mems, key \in Names \cup {"zz", "value"} :
               Emit([act |-> "sib", mn |-> mn, key |-> key, exp |-> Sibling(C, mn, key)])
         /\ Emit([act |-> "rep", exp |-> StrR(EnumRepr(C))])
GCmp == /\ Fam("cmp") /\ cur.ok /\ Ops
        /\ \A mn \in Mems, x \in Operands(C) :
              LET F(S) == CmpDirect(S, C, mn, x) IN Emit([act |-> "cmp3", mn |-> mn, x |-> x] @@ Exp(F))
        /\ \A mn \in Mems, op \in {"eq", "ne", "lt", "le", "gt", "ge"}, side \in {"l", "r"}, x \in Operands(C) :
              LET F(S) == CmpOp(S, C, mn, op, side, x) IN
              Emit([act |-> "cmp", mn |-> mn, op |-> op, side |-> side, x |-> x] @@ Exp(F))
GType == /\ Fam("etype") /\ cur.ok /\ Mems # {} /\ Ops
         /\ \A key \in Operands(C) :
               /\ LET F(S) == ViaCopy(S, C, TypeLookup(C, key)) IN Emit([act |-> "et_look", key |-> key] @@ Exp(F))
               /\ LET F(S) == ViaCopy(S, C, TypeExport(C, key)) IN Emit([act |-> "et_export", key |-> key] @@ Exp(F))
         /\ LET F(S) == ViaCopy(S, C, EnumR(C)) IN Emit([act |-> "et_copy"] @@ Exp(F))
         /\ LET F(S) == ViaCopy(S, C, EnumR([nm |-> "renamed", map |-> cur.map])) IN Emit([act |-> "et_rename"] @@ Exp(F))
GArith == /\ Fam("arith") /\ cur.ok /\ Ops
          /\ \A mn \in Mems, op \in BinOps, side \in {"l", "r"}, x \in ArithOperands :
                (side = "r" => x.ty = "int") =>
                   LET F(S) == Arith(S, C, mn, op, side, x) IN
                   Emit([act |-> "ar", mn |-> mn, op |-> op, side |-> side, x |-> x] @@ Exp(F))
          /\ \A mn \in Mems, op \in BinOps \ {"divmod"} :
                Emit([act |-> "iop", mn |-> mn, op |-> op, exp |-> InPlace({}, C, mn, op)])
GConv == /\ Fam("conv") /\ cur.ok /\ Ops
         /\ \A mn \in Mems, what \in ConvOps : Emit([act |-> "cv", mn |-> mn, what |-> what, exp |-> Conv(C, mn, what)])
GMut == /\ Fam("mut") /\ cur.ok /\ Ops
        /\ \A kind \in EnumMuts \cup MemberMuts :
              (kind \in MemberMuts \cup {"pop", "popitem", "setitem_old", "setattr_old", "delitem"} => Mems # {}) =>
                 LET F(S) == MutRes(S, C, kind) IN
                 Emit([act |-> "mut", kind |-> kind] @@ Exp(F))
        /\ Emit([act |-> "mctor", kind |-> "noenum", exp |-> Exc("TypeError")])
        /\ Emit([act |-> "mctor", kind |-> "detached", exp |-> R("mem", 9, 0, "zz")])
        /\ Emit([act |-> "twin", exp |-> BoolR(TRUE)])
(* e == another enum: the same pairs, whatever the display names *)
Variants == {[nm |-> "y", map |-> cur.map], [nm |-> cur.nm, map |-> NoMap], Other}
            \cup {[nm |-> cur.nm, map |-> [x \in Mems \ {n} |-> cur.map[x]]] : n \in Mems}
            \cup {[nm |-> cur.nm, map |-> [cur.map EXCEPT ![n] = 9]] : n \in Mems}
GEqe == /\ Fam("eqe") /\ cur.ok /\ Ops
        /\ \A o \in Variants : Emit([act |-> "eqe", other |-> EnumR(o), exp |-> BoolR(o.map = cur.map)])

GNext == \/ \E form \in NewForms, nm \in DispNames, ps \in AllSeqs(MaxPieces) : \E j \in 0 .. Len(ps) :
               GNew(form, nm, SubSeq(ps, 1, j), SubSeq(ps, j + 1, Len(ps)))
         \/ \E form \in ExtForms, nm \in DispNames, kp \in PieceSeqs(MaxExt) : GExtend(form, nm, kp)
         \/ \E nm \in DispNames : GRename(nm)
         \/ GLook \/ GCmp \/ GType \/ GArith \/ GConv \/ GMut \/ GEqe
GSpec == GInit /\ [][GNext]_<<vars, hist>>
GView == cur
=============================================================================
