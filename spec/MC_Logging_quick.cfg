SPECIFICATION RSpecRemote
CONSTANTS
  Conns = {"c1", "c2"}
  Mods = {"m1", "m2"}
  Used = {"debug", "comlog", "error", "off"}
  ComMods = {"m1"}
  Configs <- CfgOne
  MaxDay = 1
INVARIANT TypeOK
INVARIANT DeadSilent
INVARIANT ExactRouting
INVARIANT ExactSinks
INVARIANT ComlogNeverInMainFile
INVARIANT ComlogOnceInComlogFile
PROPERTY Isolation
PROPERTY ResetClears
CHECK_DEADLOCK FALSE
