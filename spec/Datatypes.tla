------------------------------ MODULE Datatypes ------------------------------
(* C01 C02 C03.  The SECoP type algebra of frappy/datatypes.py over an abstract  *)
(* value universe.  Everything is a record / sequence / integer / string so that *)
(* values survive ToJson / JsonDeserialize unchanged.                            *)
(*                                                                               *)
(* numbers : exact dyadic ticks, 1 tick = 2^-4 (U ticks per unit).  A float that *)
(*           is not a multiple of a tick is the open interval (t, t+1): ix=TRUE. *)
(*           |value| >= HUGE ticks is the class "beyond every finite model       *)
(*           limit" (t = +-HUGE, ix = TRUE).  w = "is a whole number".           *)
(* types   : [k |-> "double", min, max, abs, rel]  rel in {0,1} = {0, 2^-3}      *)
(*           [k |-> "int", min, max]  [k |-> "scaled", scale, min, max]          *)
(*           [k |-> "bigint", min, max]  an int type whose limits are beyond     *)
(*           2^53: limits and values are positions [a, d] = anchor a + offset d  *)
(*           (anchors -2^64 -2^63 0 2^53 10^18 2^63 2^64 = a in -2..4; |d| <=    *)
(*           2^20 near an anchor, < 2^26 at anchor 0, d = +-FAR "far from it")   *)
(*           [k |-> "gscaled", sid, min, max]  a scaled type with an arbitrary  *)
(*           (non-dyadic) scale: sid names the exact float (table in            *)
(*           harness/dt_common.py), min / max are GRID INDICES; physical values  *)
(*           at such a position are "gnum": q = position in quarter grid steps   *)
(*           (4n = the float n*scale), ix = strictly between q and q+1.          *)
(*           [k |-> "bscaled", sid, min, max]  a scaled type (power-of-two scale) *)
(*           whose integer range reaches 2^52 .. 2^53: limits and values are      *)
(*           exact grid positions [a, d] = anchor a + d with the anchors -2^53    *)
(*           -2^52 0 2^52 2^53 (a in -2..2); "gint" = the wire integer at such a  *)
(*           position, "bgnum" = the float (anchor + d) * scale                   *)
(*           [k |-> "bool"]  [k |-> "enum", mem |-> << [n, v] ... >>]            *)
(*           a string record with the extra field text (TextType) and a tuple    *)
(*           <<el, el>> with the extra field limit (LimitsType: an ordered pair) *)
(*           are the two convenience types exported as string / tuple;           *)
(*           [k |-> "command", arg, res] (arg / res a type or [k |-> "none"])    *)
(*           is the pseudo type of commands (description and compatibility only) *)
(*           [k |-> "string", minc, maxc, utf8]  [k |-> "blob", minb, maxb]      *)
(*           [k |-> "array", el, minlen, maxlen]  [k |-> "tuple", els]           *)
(*           [k |-> "struct", mem |-> << [n, t] ... >>, opt |-> << names >>]     *)
(* paths   : "wire"  = import_value then validate(value, previous)              *)
(*           "write" = validate(value, previous) on a python value               *)
(*           "call"  = __call__ : type conversion, numeric limits not demanded   *)
(* Val(dt, c, prev, path) is the SET of outcomes the property allows.            *)
EXTENDS Integers, Sequences, FiniteSets, TLC, SequencesExt

NoLim == 1073741824       \* 2^30 : "no limit" (+-float_info.max / UNLIMITED)
HUGE  == 67108864         \* 2^26 ticks
WIREBIG == 1048576        \* 2^20 : a wire integer beyond every model limit
U == 16                   \* ticks per unit
FAR == 134217728          \* 2^27 : offset class "far from the anchor, before the next one"

Abs(a) == IF a < 0 THEN -a ELSE a
Max2(a, b) == IF a >= b THEN a ELSE b
Min2(a, b) == IF a <= b THEN a ELSE b
Rng(f) == {f[i] : i \in DOMAIN f}
Rep(v, n) == [i \in 1 .. n |-> v]

(* ------------------------------------------------------------ abstract values *)
Null == [j |-> "null"]
None == [j |-> "none"]                     \* "no previous value"
B(b) == [j |-> "bool", b |-> b]
I(n) == [j |-> "int", n |-> n]
N(t) == [j |-> "num", t |-> t, ix |-> FALSE, w |-> (t % U = 0)]
NX(t, w) == [j |-> "num", t |-> t, ix |-> TRUE, w |-> w]
BI(a, d) == [j |-> "bint", a |-> a, d |-> d]   \* the python int anchor(a) + d, beyond +-HUGE
G(q, ix) == [j |-> "gnum", q |-> q, ix |-> ix, src |-> "num"]    \* physical value of a gscaled position, in quarter grid steps
GI(a, d) == [j |-> "gint", a |-> a, d |-> d]     \* wire integer offered to a bscaled position: grid index anchor(a) + d
BG(a, d) == [j |-> "bgnum", a |-> a, d |-> d]    \* python float at a bscaled position: (anchor(a) + d) * scale, exactly on the grid
Sp(s) == [j |-> "special", s |-> s]        \* "nan" "pinf" "ninf"
FMax(s) == [j |-> "fmax", s |-> s]         \* +-float_info.max, s in {1,-1}
\* strings: cls in {"ascii","esc","utf8","nul"} (esc = ASCII with quote/backslash/newline), len = characters, blen = bytes when the
\* text is strictly valid base64 else -1, name = the literal text or "" (synthesised)
S(cls, len, blen, name) == [j |-> "str", cls |-> cls, len |-> len, blen |-> blen, name |-> name]
Bytes(n) == [j |-> "bytes", len |-> n]
Mem(n, nm) == [j |-> "member", n |-> n, name |-> nm]
L(xs) == [j |-> "list", xs |-> xs]
O(kv) == [j |-> "obj", kv |-> kv]          \* kv = << [k |-> name, v |-> value] ... >>, distinct keys

Ok(v) == [ok |-> TRUE, v |-> v]
Err(e) == [ok |-> FALSE, e |-> e]
WT == Err("WrongType")
RE == Err("RangeError")
AnyErr == {WT, RE}
OkVals(os) == {o.v : o \in {p \in os : p.ok}}
ErrsOf(os) == {o \in os : ~o.ok}

RECURSIVE SeqProd(_)
SeqProd(ss) == IF ss = <<>> THEN {<<>>}
               ELSE {<<h>> \o tl : h \in ss[1], tl \in SeqProd(Tail(ss))}

(* all elements accepted -> every combination of allowed element results;       *)
(* any element that may fail contributes its error classes                      *)
Combine(outs) ==
    {Ok(L(xs)) : xs \in SeqProd([i \in 1 .. Len(outs) |-> OkVals(outs[i])])}
    \cup UNION {ErrsOf(outs[i]) : i \in 1 .. Len(outs)}

Keys(o) == {o.kv[i].k : i \in DOMAIN o.kv}
ValOf(o, k) == o.kv[CHOOSE i \in DOMAIN o.kv : o.kv[i].k = k].v
Names(dt) == {dt.mem[i].n : i \in DOMAIN dt.mem}
TypeOf(dt, nm) == dt.mem[CHOOSE i \in DOMAIN dt.mem : dt.mem[i].n = nm].t

(* ------------------------------------------------------------------- numbers *)
IsNum(c) == c.j \in {"int", "num"}
Big(c) == (c.j = "int" /\ Abs(c.n) >= HUGE) \/ (c.j = "num" /\ Abs(c.t) >= HUGE)
Sign(c) == IF c.j = "int" THEN (IF c.n < 0 THEN -1 ELSE 1) ELSE (IF c.t < 0 THEN -1 ELSE 1)
T(c) == IF c.j = "int" THEN c.n * U ELSE c.t                       \* only when ~Big(c)
Inexact(c) == c.j = "num" /\ c.ix
Whole(c) == c.j = "int" \/ c.w
AsNum(c) == IF c.j = "num" THEN c
            ELSE IF Abs(c.n) >= HUGE THEN NX(Sign(c) * HUGE, TRUE) ELSE N(c.n * U)
AsInt(c) == IF c.j = "int" THEN c                                   \* for whole c
            ELSE IF Abs(c.t) >= HUGE THEN I(Sign(c) * HUGE) ELSE I(c.t \div U)
B2I(b) == IF b THEN 1 ELSE 0

(* double: prec = max(|v|*rel, abs); accept iff min-prec <= v <= max+prec; clamp *)
P8(dt, t) == Max2(Abs(t) * dt.rel, 8 * dt.abs)                      \* 8 * prec
LoOK(dt, t) == dt.min = -NoLim \/ 8 * dt.min - P8(dt, t) <= 8 * t
HiOK(dt, t) == dt.max = NoLim \/ 8 * t <= 8 * dt.max + P8(dt, t)
Acc(dt, t) == LoOK(dt, t) /\ HiOK(dt, t)
GeMin(dt, t) == dt.min = -NoLim \/ dt.min <= t
LeMax(dt, t) == dt.max = NoLim \/ t <= dt.max
Clamp(dt, t) == IF ~GeMin(dt, t) THEN dt.min ELSE IF ~LeMax(dt, t) THEN dt.max ELSE t

DoubleNum(dt, c) ==
    IF Big(c)
    THEN IF (Sign(c) = 1 /\ dt.max = NoLim) \/ (Sign(c) = -1 /\ dt.min = -NoLim)
         THEN {Ok(AsNum(c))} ELSE {RE}
    ELSE IF ~Inexact(c)
    THEN IF Acc(dt, T(c)) THEN {Ok(N(Clamp(dt, T(c))))} ELSE {RE}
    ELSE LET t == c.t
             a == Acc(dt, t) /\ Acc(dt, t + 1)
             r == ~Acc(dt, t) /\ ~Acc(dt, t + 1)
             lim == IF ~GeMin(dt, t) THEN dt.min ELSE dt.max IN
         IF GeMin(dt, t) /\ LeMax(dt, t + 1) THEN {Ok(c)}           \* strictly inside: unchanged
         ELSE IF a THEN {Ok(N(lim))}                                 \* inside the tolerance: clamped
         ELSE IF r THEN {RE}
         ELSE {Ok(N(lim)), RE}       \* the tolerance boundary lies inside (t, t+1): not decided

VDoubleN(dt, c, path) == DoubleNum(dt, c) \cup (IF path = "call" THEN {Ok(AsNum(c))} ELSE {})

VDouble(dt, c, path) ==
    CASE IsNum(c) -> VDoubleN(dt, c, path)
      [] c.j = "bool" -> {WT} \cup VDoubleN(dt, I(B2I(c.b)), path)    \* documented as accepted; may be refused
      [] c.j = "member" -> {WT} \cup VDoubleN(dt, I(c.n), path)
      [] c.j = "fmax" -> IF path = "call" \/ (c.s = 1 /\ dt.max = NoLim) \/ (c.s = -1 /\ dt.min = -NoLim)
                         THEN {Ok(c)} ELSE {RE}
      [] c.j = "special" ->
           IF c.s = "nan" THEN AnyErr \cup (IF path = "call" THEN {Ok(c)} ELSE {})
           ELSE LET s == IF c.s = "pinf" THEN 1 ELSE -1 IN
                AnyErr \cup (IF path = "call" \/ (s = 1 /\ dt.max = NoLim) \/ (s = -1 /\ dt.min = -NoLim)
                             THEN {Ok(FMax(s))} ELSE {})
      [] OTHER -> {WT}

(* int *)
IntRes(dt, n, path) == (IF dt.min <= n /\ n <= dt.max THEN {Ok(I(n))} ELSE {RE})
                       \cup (IF path = "call" THEN {Ok(I(n))} ELSE {})
VInt(dt, c, path) ==
    CASE c.j = "int" -> IntRes(dt, c.n, path)
      [] c.j = "bool" -> {WT} \cup IntRes(dt, B2I(c.b), path)
      [] c.j = "num" -> IF c.w THEN {WT} \cup IntRes(dt, AsInt(c).n, path) ELSE AnyErr   \* a fraction is never truncated
      [] c.j = "member" -> {WT} \cup IntRes(dt, c.n, path)
      [] c.j = "special" -> AnyErr
      [] OTHER -> {WT}

(* bigint: exact integer arithmetic on positions; the result is the integer offered *)
P(a, d) == [a |-> a, d |-> d]
PosOf(c) == IF c.j = "bint" THEN P(c.a, c.d)
            ELSE IF c.n >= HUGE THEN P(4, FAR) ELSE IF c.n <= -HUGE THEN P(-2, -FAR) ELSE P(0, c.n)
PLE(p, q) == p.a < q.a \/ (p.a = q.a /\ p.d <= q.d)
BigRes(dt, p, path) == (IF PLE(dt.min, p) /\ PLE(p, dt.max) THEN {Ok(BI(p.a, p.d))} ELSE {RE})
                       \cup (IF path = "call" THEN {Ok(BI(p.a, p.d))} ELSE {})
VBigInt(dt, c, path) ==
    CASE c.j \in {"int", "bint"} -> BigRes(dt, PosOf(c), path)
      [] c.j = "bool" -> {WT} \cup BigRes(dt, P(0, B2I(c.b)), path)
      [] c.j = "member" -> {WT} \cup BigRes(dt, P(0, c.n), path)
      [] c.j = "num" -> IF ~c.w THEN AnyErr
                        ELSE IF Abs(c.t) >= HUGE THEN {WT} \cup BigRes(dt, PosOf(I(Sign(c) * HUGE)), path)   \* only floats beyond all anchors are offered
                        ELSE {WT} \cup BigRes(dt, P(0, c.t \div U), path)
      [] c.j = "special" -> AnyErr
      [] OTHER -> {WT}
(* a big integer offered to a type whose limits are all small is "beyond every model limit" *)
(* (a value of a bigint type is always a position, also a small one: anchor 0 with |d| < HUGE is the plain integer d) *)
Nrm(d, c) == IF d.k # "bigint" /\ c.j = "bint"
             THEN IF c.a = 0 /\ Abs(c.d) < HUGE THEN I(c.d)
                  ELSE I(IF PLE(P(0, 0), P(c.a, c.d)) THEN HUGE ELSE -HUGE)
             ELSE c

(* scaled: physical value on the grid k*scale; tolerance one grid step (the exact *)
(* boundary min-scale / max+scale is not decided), result clamped on the grid;    *)
(* a tie of the rounding may go either way                                        *)
RoundSet(t, s) == LET q == t \div s
                      r == t % s IN
                  IF 2 * r < s THEN {q * s} ELSE IF 2 * r > s THEN {(q + 1) * s} ELSE {q * s, (q + 1) * s}
ClampS(dt, g) == Max2(dt.min, Min2(dt.max, g))
ScaledAt(dt, gs, t1, t2, path) ==          \* value somewhere in [t1, t2], grid candidates gs
    LET lo == dt.min - dt.scale
        hi == dt.max + dt.scale
        res == {Ok(N(ClampS(dt, g))) : g \in gs} IN
    (IF lo < t1 /\ t2 < hi THEN res
     ELSE IF t2 < lo \/ hi < t1 THEN {RE}
     ELSE res \cup {RE})
    \cup (IF path = "call" THEN {Ok(N(g)) : g \in gs} ELSE {})
ScaledPhys(dt, c, path) ==
    IF Big(c) THEN {RE} \cup (IF path = "call" THEN {Ok(AsNum(c)), Ok(NX(Sign(c) * HUGE, TRUE))} ELSE {})
    ELSE IF ~Inexact(c) THEN ScaledAt(dt, RoundSet(T(c), dt.scale), T(c), T(c), path)
    ELSE ScaledAt(dt, RoundSet(c.t, dt.scale) \cup RoundSet(c.t + 1, dt.scale), c.t, c.t + 1, path)
ScaledWire(dt, n) == IF Abs(n) >= WIREBIG THEN {RE}
                     ELSE ScaledAt(dt, {n * dt.scale}, n * dt.scale, n * dt.scale, "wire")
VScaled(dt, c, path) ==
    IF path = "wire"
    THEN CASE c.j = "int" -> ScaledWire(dt, c.n)
           [] c.j = "bool" -> {WT} \cup ScaledWire(dt, B2I(c.b))
           [] c.j = "num" -> IF c.w THEN {WT} \cup ScaledWire(dt, AsInt(c).n) ELSE AnyErr
           [] c.j = "special" -> AnyErr
           [] OTHER -> {WT}                                          \* never a string taken as a number
    ELSE CASE IsNum(c) -> ScaledPhys(dt, c, path)
           [] c.j = "bool" -> {WT} \cup ScaledPhys(dt, I(B2I(c.b)), path)
           [] c.j = "member" -> {WT} \cup ScaledPhys(dt, I(c.n), path)
           [] c.j = "special" -> AnyErr
           [] OTHER -> {WT}

(* gscaled: the same rule in grid units: a scaled type of scale 4 over quarter grid steps; the oracle  *)
(* never divides by the (float) scale: integer limits, grid points and half-grid points are exact     *)
G4(d) == [k |-> "scaled", scale |-> 4, min |-> 4 * d.min, max |-> 4 * d.max]
AsTick(c) == [j |-> "num", t |-> c.q, ix |-> c.ix, w |-> FALSE]
GMap(os) == {IF o.ok THEN Ok(G(o.v.t, o.v.ix)) ELSE o : o \in os}
VGScaled(d, c, path) ==
    IF path = "wire" THEN GMap(VScaled(G4(d), c, "wire"))       \* wire integer n = grid index
    ELSE CASE c.j = "gnum" -> (IF c.src = "num" THEN {} ELSE {WT}) \cup GMap(ScaledPhys(G4(d), AsTick(c), path))
           [] c.j \in {"int", "num", "bint", "bool", "member", "fmax"} -> AnyErr    \* not grounded in grid units: never offered
           [] c.j = "special" -> AnyErr
           [] OTHER -> {WT}

(* bscaled: exact integer arithmetic on grid positions; one step outside a limit is the undecided tolerance boundary *)
GPos(c) == IF c.j \in {"gint", "bgnum"} THEN P(c.a, c.d) ELSE P(0, c.n)
Near(p, q) == p.a = q.a /\ Abs(p.d) # FAR /\ Abs(q.d) # FAR /\ Abs(p.d - q.d) = 1
BRes(d, p, path) ==
    (IF PLE(d.min, p) /\ PLE(p, d.max) THEN {Ok(BG(p.a, p.d))}
     ELSE IF Near(p, d.min) THEN {Ok(BG(d.min.a, d.min.d)), RE}
     ELSE IF Near(p, d.max) THEN {Ok(BG(d.max.a, d.max.d)), RE}
     ELSE {RE})
    \cup (IF path = "call" THEN {Ok(BG(p.a, p.d))} ELSE {})
VBScaled(d, c, path) ==
    IF path = "wire"
    THEN CASE c.j = "gint" -> BRes(d, GPos(c), path)
           [] c.j = "int" /\ Abs(c.n) < HUGE -> BRes(d, P(0, c.n), path)
           [] c.j = "bool" -> {WT} \cup BRes(d, P(0, B2I(c.b)), path)
           [] c.j = "num" -> IF c.w /\ Abs(c.t) < HUGE THEN {WT} \cup BRes(d, P(0, c.t \div U), path) ELSE AnyErr
           [] c.j \in {"int", "bint", "special"} -> AnyErr         \* (big plain integers are not grounded in grid positions: never offered)
           [] OTHER -> {WT}
    ELSE CASE c.j = "bgnum" -> BRes(d, GPos(c), path)
           [] c.j \in {"int", "num", "bint", "bool", "member", "fmax", "gnum", "special"} -> AnyErr
           [] OTHER -> {WT}

(* bool *)
BoolOf(n) == IF n \in {0, 1} THEN {Ok(B(n = 1)), WT} ELSE AnyErr
VBool(dt, c, path) ==
    CASE c.j = "bool" -> {Ok(c)}
      [] c.j = "int" -> BoolOf(c.n)
      [] c.j = "member" -> BoolOf(c.n)
      [] c.j = "num" -> IF ~c.ix /\ c.t \in {0, U} THEN BoolOf(c.t \div U) ELSE AnyErr
      [] c.j = "special" -> AnyErr
      [] OTHER -> {WT}

(* enum *)
ByVal(dt, v) == {m \in Rng(dt.mem) : m.v = v}
ByName(dt, nm) == {m \in Rng(dt.mem) : m.n = nm}
MemOks(ms) == {Ok(Mem(m.v, m.n)) : m \in ms}
VEnum(dt, c, path) ==
    CASE c.j = "int" -> IF ByVal(dt, c.n) # {} THEN MemOks(ByVal(dt, c.n)) ELSE {RE}
      [] c.j = "str" -> IF c.name # "" /\ ByName(dt, c.name) # {}
                        THEN MemOks(ByName(dt, c.name)) \cup AnyErr ELSE AnyErr
      [] c.j = "member" -> IF [n |-> c.name, v |-> c.n] \in Rng(dt.mem) THEN {Ok(c)}
                           ELSE MemOks(ByVal(dt, c.n)) \cup AnyErr
      [] c.j = "bool" -> MemOks(ByVal(dt, B2I(c.b))) \cup AnyErr
      [] c.j = "num" -> IF c.w THEN MemOks(ByVal(dt, AsInt(c).n)) \cup AnyErr ELSE AnyErr
      [] c.j = "special" -> AnyErr
      [] OTHER -> {WT}

(* string *)
StrLenOK(dt, c) == dt.minc <= c.len /\ (dt.maxc = NoLim \/ c.len <= dt.maxc)
StrClsOK(dt, c) == c.cls \in {"ascii", "esc"} \/ (c.cls = "utf8" /\ dt.utf8)
VString(dt, c, path) ==
    IF c.j # "str" THEN {WT}
    ELSE IF StrClsOK(dt, c) THEN (IF StrLenOK(dt, c) THEN {Ok(c)} ELSE {RE})
    ELSE AnyErr

(* blob *)
BlobLen(dt, n) == IF dt.minb <= n /\ n <= dt.maxb THEN {Ok(Bytes(n))} ELSE {RE}
VBlob(dt, c, path) ==
    IF path = "wire"
    THEN IF c.j # "str" THEN {WT}
         ELSE IF c.blen >= 0 THEN BlobLen(dt, c.blen) ELSE AnyErr    \* undecodable base64 is never bytes
    ELSE IF c.j = "bytes" THEN BlobLen(dt, c.len) ELSE {WT}

(* LimitsType: the validated pair must be ordered (min <= max); "unknown" when the abstraction cannot tell *)
IsLimit(d) == "limit" \in DOMAIN d
Ord3(a, b) ==
    CASE a.j = "int" /\ b.j = "int" -> IF a.n < b.n THEN "le" ELSE IF a.n > b.n THEN "gt"
                                       ELSE IF Abs(a.n) >= HUGE THEN "unknown" ELSE "le"
      [] a.j = "num" /\ b.j = "num" -> IF a.t < b.t THEN "le" ELSE IF a.t > b.t THEN "gt"
                                       ELSE IF Abs(a.t) >= HUGE \/ (a.ix /\ b.ix) THEN "unknown" ELSE IF a.ix THEN "gt" ELSE "le"
      [] a.j = "gnum" /\ b.j = "gnum" -> IF a.q < b.q THEN "le" ELSE IF a.q > b.q THEN "gt"
                                         ELSE IF Abs(a.q) >= HUGE \/ (a.ix /\ b.ix) THEN "unknown" ELSE IF a.ix THEN "gt" ELSE "le"
      [] a.j = "bint" /\ b.j = "bint" -> IF Abs(a.d) = FAR \/ Abs(b.d) = FAR THEN (IF a.a < b.a THEN "le" ELSE IF a.a > b.a THEN "gt" ELSE "unknown")
                                         ELSE IF PLE(P(a.a, a.d), P(b.a, b.d)) THEN "le" ELSE "gt"
      [] OTHER -> "unknown"
PairOrd(v) == Ord3(v.xs[1], v.xs[2])
OrderFilter(os) ==
    {o \in os : ~o.ok \/ PairOrd(o.v) # "gt"}
    \cup (IF \E o \in os : o.ok /\ PairOrd(o.v) # "le" THEN {RE} ELSE {})

PrevAt(prev, i) == IF prev.j = "list" /\ i <= Len(prev.xs) THEN prev.xs[i] ELSE None

(* ---------------------------------------------------------------- the oracle *)
RECURSIVE Val(_, _, _, _), StructKV(_, _, _, _, _, _)

(* struct results: member order; offered members validated, members not offered  *)
(* copied from the previous value when fill                                      *)
StructKV(dt, c, prev, path, fill, i) ==
    IF i > Len(dt.mem) THEN {<<>>}
    ELSE LET k == dt.mem[i].n
             rest == StructKV(dt, c, prev, path, fill, i + 1)
             given == k \in Keys(c) /\ ValOf(c, k).j # "null"
             inprev == prev.j = "obj" /\ k \in Keys(prev)
             pv == IF inprev THEN ValOf(prev, k) ELSE None IN
         IF given THEN {<<[k |-> k, v |-> v]>> \o r :
                          v \in OkVals(Val(dt.mem[i].t, ValOf(c, k), pv, path)), r \in rest}
         ELSE IF fill /\ inprev THEN {<<[k |-> k, v |-> pv]>> \o r : r \in rest}
         ELSE rest

Val(dt, c0, prev, path) ==
    LET c == Nrm(dt, c0) IN
    CASE dt.k = "double" -> VDouble(dt, c, path)
      [] dt.k = "int" -> VInt(dt, c, path)
      [] dt.k = "bigint" -> VBigInt(dt, c, path)
      [] dt.k = "scaled" -> VScaled(dt, c, path)
      [] dt.k = "gscaled" -> VGScaled(dt, c, path)
      [] dt.k = "bscaled" -> VBScaled(dt, c, path)
      [] dt.k = "bool" -> VBool(dt, c, path)
      [] dt.k = "enum" -> VEnum(dt, c, path)
      [] dt.k = "string" -> VString(dt, c, path)
      [] dt.k = "blob" -> VBlob(dt, c, path)
      [] dt.k = "array" ->
           IF c.j # "list" THEN AnyErr                \* scalar, string, object: never a sequence
           ELSE LET n == Len(c.xs)
                    outs == [i \in 1 .. n |-> Val(dt.el, c.xs[i], PrevAt(prev, i), path)] IN
                IF n < dt.minlen \/ n > dt.maxlen
                THEN {RE} \cup UNION {ErrsOf(outs[i]) : i \in 1 .. n}
                ELSE Combine(outs)                    \* length of the result = length offered
      [] dt.k = "tuple" ->
           IF c.j # "list" \/ Len(c.xs) # Len(dt.els) THEN AnyErr
           ELSE LET R == Combine([i \in 1 .. Len(dt.els) |-> Val(dt.els[i], c.xs[i], PrevAt(prev, i), path)]) IN
                IF IsLimit(dt) /\ path # "call" THEN OrderFilter(R) ELSE R     \* (__call__ is the plain tuple conversion)
      [] dt.k = "command" -> AnyErr                                          \* a command has no values
      [] dt.k = "struct" ->
           IF c.j # "obj" THEN AnyErr
           ELSE LET names == Names(dt)
                    opt == Rng(dt.opt)
                    keys == Keys(c)
                    nulls == {k \in keys : ValOf(c, k).j = "null"}
                    given == keys \ nulls
                    pk == IF prev.j = "obj" THEN Keys(prev) \cap names ELSE {}
                    absent == names \ given
                    need == absent \ opt              \* mandatory members offered without a value
                    elerrs == UNION {ErrsOf(Val(TypeOf(dt, k), ValOf(c, k), None, path)) : k \in given \cap names}
                    nofill == IF need = {} THEN {Ok(O(kv)) : kv \in StructKV(dt, c, prev, path, FALSE, 1)} ELSE {}
                    filled == IF need \subseteq pk THEN {Ok(O(kv)) : kv \in StructKV(dt, c, prev, path, TRUE, 1)} ELSE {} IN
                IF keys \ names # {} THEN AnyErr
                ELSE nofill \cup filled \cup elerrs
                     \cup (IF nulls # {} \/ need # {} \/ (path = "call" /\ absent # {}) THEN AnyErr ELSE {})

(* ------------------------------------------- declarative side: InSet, Denotes *)
(* Independent statement of the two demands on an accepted result; Sound below   *)
(* cross-checks the operational oracle Val against them on every case.           *)
RECURSIVE InSet(_, _, _)
(* v lies in the declared value set of dt; lim = FALSE: numeric limits not demanded (call path) *)
InSet(dt, v, lim) ==
    CASE dt.k = "double" ->
           \/ v.j = "num" /\ ~lim
           \/ v.j = "num" /\ Abs(v.t) >= HUGE /\ ((v.t > 0 /\ dt.max = NoLim) \/ (v.t < 0 /\ dt.min = -NoLim))
           \/ v.j = "num" /\ Abs(v.t) < HUGE /\ GeMin(dt, v.t) /\ LeMax(dt, IF v.ix THEN v.t + 1 ELSE v.t)
           \/ v.j = "fmax" /\ (~lim \/ (v.s = 1 /\ dt.max = NoLim) \/ (v.s = -1 /\ dt.min = -NoLim))
           \/ v.j = "special" /\ ~lim                          \* NaN handed through by a driver: not decided
      [] dt.k = "int" -> v.j = "int" /\ (~lim \/ (dt.min <= v.n /\ v.n <= dt.max))
      [] dt.k = "bigint" -> v.j = "bint" /\ (~lim \/ (PLE(dt.min, P(v.a, v.d)) /\ PLE(P(v.a, v.d), dt.max)))
      [] dt.k = "scaled" -> /\ v.j = "num"
                            /\ \/ ~lim /\ v.ix /\ Abs(v.t) >= HUGE
                               \/ ~v.ix /\ v.t % dt.scale = 0 /\ (~lim \/ (dt.min <= v.t /\ v.t <= dt.max))
      [] dt.k = "bscaled" -> v.j = "bgnum" /\ (~lim \/ (PLE(dt.min, P(v.a, v.d)) /\ PLE(P(v.a, v.d), dt.max)))
      [] dt.k = "gscaled" -> /\ v.j = "gnum"
                             /\ \/ ~lim /\ v.ix /\ Abs(v.q) >= HUGE
                                \/ ~v.ix /\ v.q % 4 = 0 /\ (~lim \/ (4 * dt.min <= v.q /\ v.q <= 4 * dt.max))
      [] dt.k = "bool" -> v.j = "bool"
      [] dt.k = "enum" -> v.j = "member" /\ [n |-> v.name, v |-> v.n] \in Rng(dt.mem)
      [] dt.k = "string" -> v.j = "str" /\ StrClsOK(dt, v) /\ StrLenOK(dt, v)
      [] dt.k = "blob" -> v.j = "bytes" /\ dt.minb <= v.len /\ v.len <= dt.maxb
      [] dt.k = "array" -> /\ v.j = "list" /\ dt.minlen <= Len(v.xs) /\ Len(v.xs) <= dt.maxlen
                           /\ \A i \in 1 .. Len(v.xs) : InSet(dt.el, v.xs[i], lim)
      [] dt.k = "tuple" -> /\ v.j = "list" /\ Len(v.xs) = Len(dt.els)
                           /\ \A i \in 1 .. Len(v.xs) : InSet(dt.els[i], v.xs[i], lim)
                           /\ (IsLimit(dt) /\ lim) => PairOrd(v) # "gt"
      [] dt.k = "struct" -> /\ v.j = "obj"
                            /\ Keys(v) \subseteq Names(dt)
                            /\ Cardinality(Keys(v)) = Len(v.kv)
                            /\ (Names(dt) \ Rng(dt.opt)) \subseteq Keys(v)
                            /\ \A k \in Keys(v) : InSet(TypeOf(dt, k), ValOf(v, k), lim)

NumSrc(c) == CASE IsNum(c) -> {c} [] c.j = "bool" -> {I(B2I(c.b))} [] c.j = "member" -> {I(c.n)} [] OTHER -> {}
(* s numeric, v a float result at most tol8/8 ticks away (tolerance / grid step), never a different number *)
NumClose(s, v, tol8) ==
    IF Big(s) THEN v.j = "num" /\ v.ix /\ v.t = Sign(s) * HUGE
    ELSE /\ v.j = "num"
         /\ \/ v = AsNum(s)
            \/ ~v.ix /\ 8 * Abs(v.t - T(s)) <= tol8 + (IF Inexact(s) THEN 8 ELSE 0)

RECURSIVE Denotes(_, _, _, _, _)
Denotes(dt, c0, v, prev, path) ==
    LET c == Nrm(dt, c0) IN
    CASE dt.k = "double" ->
           \/ \E s \in NumSrc(c) : NumClose(s, v, IF Big(s) THEN 0 ELSE Max2(P8(dt, T(s)), P8(dt, T(s) + 1)))
           \/ c.j = "special" /\ c.s = "pinf" /\ v = FMax(1)
           \/ c.j = "special" /\ c.s = "ninf" /\ v = FMax(-1)
           \/ c.j \in {"special", "fmax"} /\ v = c
      [] dt.k = "int" -> \E s \in NumSrc(c) : Whole(s) /\ v = AsInt(s)
      [] dt.k = "bigint" -> /\ v.j = "bint"                       \* exactly the integer offered
                            /\ \/ c.j = "bint" /\ v = c
                               \/ \E s \in NumSrc(c) : Whole(s) /\ P(v.a, v.d) = PosOf(AsInt(s))
      [] dt.k = "scaled" ->
           IF path = "wire"
           THEN \E s \in NumSrc(c) : Whole(s) /\ Abs(AsInt(s).n) < WIREBIG /\ v.j = "num" /\ ~v.ix
                                     /\ Abs(v.t - AsInt(s).n * dt.scale) <= dt.scale
           ELSE \E s \in NumSrc(c) : NumClose(s, v, 8 * dt.scale)
      [] dt.k = "bscaled" ->
           /\ v.j = "bgnum"
           /\ \E p \in (IF c.j \in {"gint", "bgnum"} THEN {GPos(c)} ELSE {PosOf(AsInt(s)) : s \in {x \in NumSrc(c) : Whole(x)}}) :
                 P(v.a, v.d) = p \/ Near(P(v.a, v.d), p)
      [] dt.k = "gscaled" ->
           /\ v.j = "gnum"
           /\ IF path = "wire"
              THEN \E s \in NumSrc(c) : Whole(s) /\ Abs(AsInt(s).n) < WIREBIG /\ ~v.ix /\ Abs(v.q - 4 * AsInt(s).n) <= 4
              ELSE c.j = "gnum" /\ NumClose(AsTick(c), AsTick(v), 32)
      [] dt.k = "bool" -> /\ v.j = "bool"
                          /\ \/ v = c
                             \/ \E s \in NumSrc(c) : ~Big(s) /\ ~Inexact(s) /\ T(s) = U * B2I(v.b)
      [] dt.k = "enum" -> /\ v.j = "member"
                          /\ \/ c.j = "str" /\ c.name = v.name
                             \/ \E s \in NumSrc(c) : Whole(s) /\ AsInt(s).n = v.n
      [] dt.k = "string" -> v = c
      [] dt.k = "blob" -> IF path = "wire" THEN c.j = "str" /\ c.blen >= 0 /\ v = Bytes(c.blen)
                          ELSE c.j = "bytes" /\ v = c
      [] dt.k = "array" -> /\ c.j = "list" /\ v.j = "list" /\ Len(v.xs) = Len(c.xs)     \* never shorter or longer
                           /\ \A i \in 1 .. Len(c.xs) : Denotes(dt.el, c.xs[i], v.xs[i], PrevAt(prev, i), path)
      [] dt.k = "tuple" -> /\ c.j = "list" /\ v.j = "list" /\ Len(v.xs) = Len(c.xs)
                           /\ \A i \in 1 .. Len(c.xs) : Denotes(dt.els[i], c.xs[i], v.xs[i], PrevAt(prev, i), path)
      [] dt.k = "struct" ->
           /\ c.j = "obj" /\ v.j = "obj"
           /\ LET given == {k \in Keys(c) : ValOf(c, k).j # "null"} IN
              /\ given \subseteq Keys(v)
              /\ \A k \in Keys(v) :
                    IF k \in given
                    THEN Denotes(TypeOf(dt, k), ValOf(c, k), ValOf(v, k),
                                 IF prev.j = "obj" /\ k \in Keys(prev) THEN ValOf(prev, k) ELSE None, path)
                    ELSE prev.j = "obj" /\ k \in Keys(prev) /\ ValOf(v, k) = ValOf(prev, k)

(* ------------------------------------------------------ candidate catalogues *)
LitLen(s) == CASE s = "STANDBY" -> 7 [] s = "RAMPING" -> 7 [] s = "ERROR" -> 5 [] s = "5" -> 1 [] s = "s" -> 1 [] s = "k" -> 1 [] s = "c" -> 1 [] s = "a" -> 1 [] s = "b" -> 1 [] s = "x" -> 1 [] s = "zz" -> 2
               [] s = "on" -> 2 [] s = "off" -> 3 [] s = "YWJ" -> 3
               [] s = "!!!!YWJj" -> 8 [] s = "YQ==YQ==" -> 8
Lit(s) == S("ascii", LitLen(s), -1, s)                   \* none of the literals is strictly valid base64
Plain(n) == S("ascii", n, IF n % 4 = 0 THEN 3 * (n \div 4) ELSE -1, "")
B64(nb) == S("ascii", 4 * ((nb + 2) \div 3), nb, "")
Utf(n) == S("utf8", n, -1, "")
Nul(n) == S("nul", n, -1, "")
Esc(n) == S("esc", n, -1, "")
NatOnly(ns) == {n \in ns : n >= 0}

(* offered to every type at every position: every JSON kind, python-only kinds, extremes *)
Common == {Null, B(TRUE), B(FALSE), I(0), I(1), I(3), N(16), N(24), NX(0, FALSE),
           I(HUGE), NX(HUGE, TRUE), NX(-HUGE, FALSE), Sp("nan"), Sp("pinf"), Sp("ninf"),
           Lit("5"), Plain(0), Plain(2), L(<<>>), L(<<I(1)>>), O(<<>>), O(<<[k |-> "a", v |-> I(1)]>>),
           Bytes(2), Mem(1, "a"), BI(1, 1), BI(-1, -1)}      \* 2^53+1 and -(2^63)-1: not representable as doubles

TickForms(ts) == {N(t) : t \in ts} \cup {I(t \div U) : t \in {x \in ts : x % U = 0}}
Tol(dt, lim) == Max2((Abs(lim) * dt.rel + 7) \div 8, dt.abs)
Around(dt, lim) == LET p == Tol(dt, lim) IN
    {lim - 2 * p - 2, lim - p - 1, lim - p, lim - p + 1, lim - 1, lim, lim + 1,
     lim + p - 1, lim + p, lim + p + 1, lim + 2 * p + 2}
OwnDouble(dt) ==
    LET lo == IF dt.min = -NoLim THEN {} ELSE {dt.min}
        hi == IF dt.max = NoLim THEN {} ELSE {dt.max} IN
    TickForms(UNION {Around(dt, l) : l \in lo \cup hi} \cup {0, 40})
    \cup {NX(t, FALSE) : t \in UNION {{l - 1, l} : l \in lo \cup hi}}
OwnInt(dt) == LET ns == {dt.min - 1, dt.min, dt.min + 1, dt.max - 1, dt.max, dt.max + 1} IN
    {I(n) : n \in ns} \cup {N(n * U) : n \in {m \in ns : Abs(m * U) < HUGE}}
    \cup {N(n * U + 8) : n \in {m \in {dt.min, dt.max} : Abs(m * U) + 8 < HUGE}}
CI(a, d) == IF a = 0 /\ Abs(d) < HUGE THEN I(d) ELSE BI(a, d)      \* as a candidate a small integer is an "int"
OwnBig(dt) ==
    UNION {{CI(p.a, p.d - 1), CI(p.a, p.d), CI(p.a, p.d + 1)} : p \in {dt.min, dt.max}}
    \cup {BI(1, 0), BI(1, 1), BI(2, 1), BI(3, -1), BI(3, 0), BI(4, -1), BI(4, 0), BI(-1, -1), BI(-1, 0), BI(-2, 0),
          BI(0, FAR), BI(2, FAR), I(-1), I(7)}
OwnScaled(dt) ==
    LET s == dt.scale
        a == dt.min \div s
        b == dt.max \div s
        h == Max2(s \div 2, 1)
        ws == {a - 2, a - 1, a, a + 1, b - 1, b, b + 1, b + 2}
        ps == {dt.min - s - 1, dt.min - s, dt.min - s + 1, dt.min - h, dt.min, dt.min + 1, dt.min + h, dt.min + s,
               dt.max - s, dt.max - h, dt.max, dt.max + h, dt.max + s - 1, dt.max + s, dt.max + s + 1} IN
    {I(n) : n \in ws} \cup {N(n * U) : n \in {a, b + 1}} \cup {N(a * U + 8)}
    \cup TickForms(ps) \cup {NX(dt.min - s, FALSE), NX(dt.min - s - 1, FALSE), NX(dt.max, FALSE)}
OwnGScaled(dt) ==
    LET a == dt.min
        b == dt.max IN
    {I(n) : n \in {a - 2, a - 1, a, a + 1, b - 1, b, b + 1, b + 2}} \cup {N(n * U) : n \in {a, b + 1}} \cup {N(a * U + 8)}
    \cup {G(q, FALSE) : q \in {4 * a - 5, 4 * a - 4, 4 * a - 3, 4 * a - 2, 4 * a, 4 * a + 1, 4 * a + 2, 4 * a + 4,
                                4 * b - 4, 4 * b - 2, 4 * b, 4 * b + 2, 4 * b + 3, 4 * b + 4, 4 * b + 5}}     \* grid, quarter and half-grid points around both limits
    \cup {G(4 * a - 4, TRUE), G(4 * a - 5, TRUE), G(4 * b, TRUE), G(4 * b + 3, TRUE)}
OddPoints == {P(2, -1), P(2, -3), P(1, 1), P(1, 3), P(1, 0), P(-2, 1), P(-2, 3), P(-1, -1), P(0, 1), P(0, -1)}   \* odd integers just below 2^53 / above 2^52, mirrored
OwnBScaled(dt) ==
    LET ps == UNION {{P(p.a, p.d - 2), P(p.a, p.d - 1), p, P(p.a, p.d + 1), P(p.a, p.d + 2)} : p \in {dt.min, dt.max}} \cup OddPoints IN
    {GI(p.a, p.d) : p \in ps}
    \cup {BG(p.a, p.d) : p \in {q \in ps : PLE(P(-2, 0), q) /\ PLE(q, P(2, 0))}}      \* (beyond +-2^53 not every grid point is a double)
OwnEnum(dt) ==
    UNION {{I(m.v), Lit(m.n), Mem(m.v, m.n), N(m.v * U), N(m.v * U + 8)} : m \in Rng(dt.mem)}
    \cup {I(99), Lit("zz"), Mem(99, "zz"), Mem(dt.mem[1].v, "zz")}
OwnString(dt) ==
    LET lens == NatOnly({dt.minc - 1, dt.minc, dt.minc + 1}
                        \cup (IF dt.maxc = NoLim THEN {9} ELSE {dt.maxc, dt.maxc + 1}))
        m == Max2(dt.minc, 1) IN
    {Plain(n) : n \in lens} \cup {Utf(m), Nul(m)}
    \cup (IF dt.maxc = NoLim THEN {} ELSE {Utf(dt.maxc + 1)})
OwnBlob(dt) == LET ns == NatOnly({dt.minb - 1, dt.minb, dt.maxb, dt.maxb + 1}) IN
    {B64(n) : n \in ns} \cup {Bytes(n) : n \in ns} \cup {Lit("!!!!YWJj"), Lit("YWJ"), Lit("YQ==YQ==")}

DropAt(s, i) == SubSeq(s, 1, i - 1) \o SubSeq(s, i + 1, Len(s))
ZeroOr(lo, hi) == IF lo <= 0 /\ 0 <= hi THEN 0 ELSE lo

RECURSIVE Good(_), IVal(_), Cands(_)
(* candidates every implementation must accept, in wire and/or python form *)
Good(dt) ==
    CASE dt.k = "double" -> {N(IF GeMin(dt, 0) /\ LeMax(dt, 0) THEN 0 ELSE IF dt.min # -NoLim THEN dt.min ELSE dt.max)}
      [] dt.k = "int" -> {I(ZeroOr(dt.min, dt.max))}
      [] dt.k = "bigint" -> {CI(dt.max.a, dt.max.d)}
      [] dt.k = "scaled" -> {I(0)}                       \* catalogue types contain 0
      [] dt.k = "gscaled" -> {I(dt.max), G(4 * dt.max, FALSE)}      \* grid index on the wire, physical value from python
      [] dt.k = "bscaled" -> {GI(dt.max.a, dt.max.d - 1), BG(dt.max.a, dt.max.d - 1)}
      [] dt.k = "bool" -> {B(TRUE)}
      [] dt.k = "enum" -> {I(dt.mem[1].v)}
      [] dt.k = "string" -> {Plain(IF dt.maxc = 0 THEN 0 ELSE Max2(dt.minc, 1))}     \* (maxchars = 0: only the empty string)
      [] dt.k = "blob" -> {B64(dt.minb), Bytes(dt.minb)}
      [] dt.k = "array" -> {L(Rep(g, IF dt.maxlen = 0 THEN 0 ELSE Max2(dt.minlen, 1))) : g \in Good(dt.el)}   \* (maxlen = 0: only the empty array)
      [] dt.k = "tuple" -> {L(gs) : gs \in SeqProd([i \in 1 .. Len(dt.els) |-> Good(dt.els[i])])}
      [] dt.k = "struct" -> {O([i \in 1 .. Len(dt.mem) |-> [k |-> dt.mem[i].n, v |-> gs[i]]]) :
                               gs \in SeqProd([i \in 1 .. Len(dt.mem) |-> Good(dt.mem[i].t)])}

(* a valid internal value (what a parameter may currently hold), different from Good where possible *)
IVal(dt) ==
    CASE dt.k = "double" -> N(IF dt.max # NoLim THEN dt.max ELSE IF dt.min # -NoLim THEN dt.min ELSE 32)
      [] dt.k = "int" -> I(dt.max)
      [] dt.k = "bigint" -> BI(dt.min.a, dt.min.d)
      [] dt.k = "scaled" -> N(dt.max)
      [] dt.k = "gscaled" -> G(4 * dt.min, FALSE)
      [] dt.k = "bscaled" -> BG(dt.min.a, dt.min.d)
      [] dt.k = "bool" -> B(FALSE)
      [] dt.k = "enum" -> Mem(dt.mem[Len(dt.mem)].v, dt.mem[Len(dt.mem)].n)
      [] dt.k = "string" -> Plain(IF dt.maxc = 0 THEN 0 ELSE Max2(dt.minc, 1))
      [] dt.k = "blob" -> Bytes(dt.maxb)
      [] dt.k = "array" -> L(Rep(IVal(dt.el), IF dt.maxlen = 0 THEN 0 ELSE Max2(dt.minlen, 1)))
      [] dt.k = "tuple" -> L([i \in 1 .. Len(dt.els) |-> IVal(dt.els[i])])
      [] dt.k = "struct" -> O([i \in 1 .. Len(dt.mem) |-> [k |-> dt.mem[i].n, v |-> IVal(dt.mem[i].t)]])

Cands(dt) == Common \cup
    CASE dt.k = "double" -> OwnDouble(dt)
      [] dt.k = "int" -> OwnInt(dt)
      [] dt.k = "bigint" -> OwnBig(dt)
      [] dt.k = "scaled" -> OwnScaled(dt)
      [] dt.k = "gscaled" -> OwnGScaled(dt)
      [] dt.k = "bscaled" -> OwnBScaled(dt)
      [] dt.k = "command" -> {}
      [] dt.k = "bool" -> {}
      [] dt.k = "enum" -> OwnEnum(dt)
      [] dt.k = "string" -> OwnString(dt)
      [] dt.k = "blob" -> OwnBlob(dt)
      [] dt.k = "array" ->
           LET lens == {n \in {dt.minlen - 1, dt.minlen, dt.maxlen, dt.maxlen + 1} : 0 <= n /\ n <= 5} IN
           {L(Rep(g, n)) : n \in lens, g \in Good(dt.el)}
           \cup {L(<<e>>) : e \in Cands(dt.el)}
           \cup {L(<<g, e>>) : g \in Good(dt.el), e \in (Cands(dt.el) \ Common) \cup {Null, Lit("5"), N(24), L(<<>>), Sp("nan")}}
      [] dt.k = "tuple" ->
           LET n == Len(dt.els)
               goods == SeqProd([i \in 1 .. n |-> Good(dt.els[i])]) IN
           {L(gs) : gs \in goods}
           \cup UNION {{L([gs EXCEPT ![i] = e]) : gs \in goods, e \in Cands(dt.els[i])} : i \in 1 .. n}
           \cup {L(SubSeq(gs, 1, n - 1)) : gs \in goods} \cup {L(gs \o <<gs[1]>>) : gs \in goods}
      [] dt.k = "struct" ->
           LET n == Len(dt.mem)
               goods == {g.kv : g \in Good(dt)} IN
           {O(kv) : kv \in goods}
           \cup UNION {{O([kv EXCEPT ![i] = [k |-> kv[i].k, v |-> e]]) : kv \in goods, e \in Cands(dt.mem[i].t)} : i \in 1 .. n}
           \cup UNION {{O(DropAt(kv, i)), O([kv EXCEPT ![i] = [k |-> kv[i].k, v |-> Null]])} : kv \in goods, i \in 1 .. n}
           \cup {O(kv \o <<[k |-> "zz", v |-> I(1)]>>) : kv \in goods}
           \cup {L(<<L(<<Lit(dt.mem[1].n), I(1)>>)>>)}

RECURSIVE HasInternal(_)
HasInternal(c) == CASE c.j \in {"bytes", "member", "fmax"} -> TRUE
                    [] c.j = "list" -> \E i \in DOMAIN c.xs : HasInternal(c.xs[i])
                    [] c.j = "obj" -> \E i \in DOMAIN c.kv : HasInternal(c.kv[i].v)
                    [] OTHER -> FALSE

(* previous values the parameter may currently hold *)
Prevs(dt, c) ==
    CASE dt.k = "array" ->
           IF c.j = "list"
           THEN {None} \cup {L(Rep(IVal(dt.el), n)) :
                              n \in {m \in {Len(c.xs) - 1, Len(c.xs), Len(c.xs) + 1} : dt.minlen <= m /\ m <= dt.maxlen}}
           ELSE {None, IVal(dt)}
      [] dt.k = "struct" ->
           LET full == IVal(dt) IN
           {None, full, O(SelectSeq(full.kv, LAMBDA e : e.k \notin Rng(dt.opt)))}
      [] OTHER -> {None, IVal(dt)}

(* a gnum is a python float (never on the wire); a plain number offered from python to a gscaled position *)
(* would have to be divided by the float scale: such cases are left to the random driver, whose alpha     *)
(* classifies them in grid units with exact rational arithmetic                                           *)
RECURSIVE HasGnum(_), HasGint(_), Ungrounded(_, _), UngroundedW(_, _)
HasGint(c) == CASE c.j = "gint" -> TRUE
                [] c.j = "list" -> \E i \in DOMAIN c.xs : HasGint(c.xs[i])
                [] c.j = "obj" -> \E i \in DOMAIN c.kv : HasGint(c.kv[i].v)
                [] OTHER -> FALSE
UngroundedW(d, c) ==            \* on the wire: a plain integer beyond the small range offered to a bscaled position
    CASE d.k = "bscaled" -> (c.j = "int" /\ Abs(c.n) >= HUGE) \/ c.j = "bint" \/ (c.j = "num" /\ Abs(c.t) >= HUGE)
      [] d.k = "array" /\ c.j = "list" -> \E i \in DOMAIN c.xs : UngroundedW(d.el, c.xs[i])
      [] d.k = "tuple" /\ c.j = "list" -> \E i \in 1 .. Min2(Len(d.els), Len(c.xs)) : UngroundedW(d.els[i], c.xs[i])
      [] d.k = "struct" /\ c.j = "obj" -> \E i \in DOMAIN c.kv : c.kv[i].k \in Names(d) /\ UngroundedW(TypeOf(d, c.kv[i].k), c.kv[i].v)
      [] OTHER -> FALSE
HasGnum(c) == CASE c.j \in {"gnum", "bgnum"} -> TRUE
                [] c.j = "list" -> \E i \in DOMAIN c.xs : HasGnum(c.xs[i])
                [] c.j = "obj" -> \E i \in DOMAIN c.kv : HasGnum(c.kv[i].v)
                [] OTHER -> FALSE
Ungrounded(d, c) ==
    CASE d.k = "gscaled" -> c.j \in {"int", "num", "bint", "bool", "member", "fmax"}
      [] d.k = "bscaled" -> c.j \in {"int", "num", "bint", "bool", "member", "fmax"}
      [] d.k = "array" /\ c.j = "list" -> \E i \in DOMAIN c.xs : Ungrounded(d.el, c.xs[i])
      [] d.k = "tuple" /\ c.j = "list" -> \E i \in 1 .. Min2(Len(d.els), Len(c.xs)) : Ungrounded(d.els[i], c.xs[i])
      [] d.k = "struct" /\ c.j = "obj" -> \E i \in DOMAIN c.kv : c.kv[i].k \in Names(d) /\ Ungrounded(TypeOf(d, c.kv[i].k), c.kv[i].v)
      [] OTHER -> FALSE
PathsFor(d, c, p) ==
    (IF HasInternal(c) \/ HasGnum(c) \/ UngroundedW(d, c) THEN {} ELSE {"wire"})
    \cup (IF Ungrounded(d, c) \/ HasGint(c) THEN {} ELSE (IF p # None THEN {"write"} ELSE {"write", "call"}))
Cases(dt) == UNION {{[c |-> c, p |-> p, path |-> path] : path \in PathsFor(dt, c, p)} :
                      <<c, p>> \in UNION {{<<x, q>> : q \in Prevs(dt, x)} : x \in Cands(dt)}}

(* ------------------------------------------------------ C02: the wire encoding *)
WireKind(d) == CASE d.k = "double" -> "num"
                 [] d.k \in {"int", "bigint", "scaled", "gscaled", "bscaled", "enum"} -> "int"
                 [] d.k = "bool" -> "bool"
                 [] d.k = "string" -> "str"
                 [] d.k = "blob" -> "b64str"
                 [] d.k \in {"array", "tuple"} -> "list"
                 [] d.k = "struct" -> "obj"

RECURSIVE Export(_, _), KindOK(_, _), VS(_), EqModFloat(_, _, _)
(* abstract JSON value exported for the internal value v *)
Export(d, v) ==
    CASE d.k \in {"double", "int", "bigint", "bool", "string"} -> v
      [] d.k = "scaled" -> I(v.t \div d.scale)
      [] d.k = "gscaled" -> I(v.q \div 4)
      [] d.k = "bscaled" -> GI(v.a, v.d)                      \* exactly the grid index, also where n + 0.5 is not a double
      [] d.k = "enum" -> I(v.n)
      [] d.k = "blob" -> B64(v.len)
      [] d.k = "array" -> L([i \in 1 .. Len(v.xs) |-> Export(d.el, v.xs[i])])
      [] d.k = "tuple" -> L([i \in 1 .. Len(v.xs) |-> Export(d.els[i], v.xs[i])])
      [] d.k = "struct" -> O([i \in 1 .. Len(v.kv) |->
                               [k |-> v.kv[i].k, v |-> Export(TypeOf(d, v.kv[i].k), v.kv[i].v)]])

(* the JSON value j has the kind SECoP prescribes for d, at every position *)
KindOK(d, j) ==
    CASE WireKind(d) = "num" -> j.j = "num"
      [] WireKind(d) = "int" -> j.j \in {"int", "bint", "gint"}
      [] WireKind(d) = "bool" -> j.j = "bool"
      [] WireKind(d) = "str" -> j.j = "str"
      [] WireKind(d) = "b64str" -> j.j = "str" /\ j.blen >= 0
      [] d.k = "array" -> j.j = "list" /\ \A i \in 1 .. Len(j.xs) : KindOK(d.el, j.xs[i])
      [] d.k = "tuple" -> j.j = "list" /\ Len(j.xs) = Len(d.els) /\ \A i \in 1 .. Len(j.xs) : KindOK(d.els[i], j.xs[i])
      [] d.k = "struct" -> /\ j.j = "obj" /\ Keys(j) \subseteq Names(d)
                           /\ \A i \in 1 .. Len(j.kv) : KindOK(TypeOf(d, j.kv[i].k), j.kv[i].v)

(* a finite set of valid internal values: limits, far grid points, empty and maximal containers, *)
(* every enum member, optional members absent / present                                        *)
Diag(seqs, s) == [i \in 1 .. Len(seqs) |-> seqs[i][((s - 1) % Len(seqs[i])) + 1]]
MaxLen(seqs) == IF seqs = <<>> THEN 0 ELSE CHOOSE m \in {Len(seqs[i]) : i \in 1 .. Len(seqs)} :
                                              \A i \in 1 .. Len(seqs) : Len(seqs[i]) <= m
VS(d) ==
    CASE d.k = "double" ->
           LET lo == IF d.min = -NoLim THEN (IF d.max = NoLim THEN -160 ELSE d.max - 320) ELSE d.min
               hi == IF d.max = NoLim THEN lo + 320 ELSE d.max
               ts == {t \in {lo, lo + 1, hi - 1, hi, 0, 24, (lo + hi) \div 2} : lo <= t /\ t <= hi} IN
           {N(t) : t \in ts} \cup {NX(t, FALSE) : t \in {x \in {lo, hi - 1} : lo <= x /\ x + 1 <= hi}}
           \cup (IF d.max = NoLim THEN {NX(HUGE, TRUE)} ELSE {}) \cup (IF d.min = -NoLim THEN {NX(-HUGE, TRUE)} ELSE {})
      [] d.k = "int" -> {I(n) : n \in {m \in {d.min, d.min + 1, 0, d.max - 1, d.max} : d.min <= m /\ m <= d.max}}
      [] d.k = "bigint" -> {BI(p.a, p.d) : p \in {q \in {d.min, P(d.min.a, d.min.d + 1), P(d.max.a, d.max.d - 1), d.max,
                                                            P(1, 1), P(2, 1), P(3, -1), P(0, FAR)} : PLE(d.min, q) /\ PLE(q, d.max)}}
      [] d.k = "scaled" -> {N(t) : t \in {m \in {d.min, d.min + d.scale, 0, d.max - d.scale, d.max} : d.min <= m /\ m <= d.max}}
      [] d.k = "bscaled" -> {BG(p.a, p.d) : p \in {q \in {d.min, P(d.min.a, d.min.d + 1), P(d.max.a, d.max.d - 1), d.max, P(0, 0)} \cup OddPoints :
                                                         PLE(d.min, q) /\ PLE(q, d.max)}}      \* (the limits +-2^53 included: limit +- scale is not a double there)
      [] d.k = "gscaled" -> {G(4 * n, FALSE) : n \in {m \in {d.min, d.min + 1, 0, 1, 1000, d.max - 1, d.max} : d.min <= m /\ m <= d.max}}
      [] d.k = "bool" -> {B(TRUE), B(FALSE)}
      [] d.k = "enum" -> {Mem(m.v, m.n) : m \in Rng(d.mem)}
      [] d.k = "string" ->
           LET lens == {n \in {d.minc, d.minc + 1, IF d.maxc = NoLim THEN d.minc + 9 ELSE d.maxc} :
                          d.minc <= n /\ (d.maxc = NoLim \/ n <= d.maxc)} IN
           {Plain(n) : n \in lens} \cup {Esc(n) : n \in lens \ {0}}
           \cup (IF d.utf8 THEN {Utf(n) : n \in lens \ {0}} ELSE {})
      [] d.k = "blob" -> {Bytes(n) : n \in {d.minb, d.maxb, (d.minb + d.maxb) \div 2}}
      [] d.k = "array" ->
           LET es == SetToSeq(VS(d.el))
               K == Len(es) IN
           UNION {{L([i \in 1 .. n |-> es[((i + s - 2) % K) + 1]]) : s \in 1 .. (IF n = 0 THEN 1 ELSE K)} :
                    n \in {d.minlen, d.maxlen}}
      [] d.k = "tuple" ->
           LET seqs == [i \in 1 .. Len(d.els) |-> SetToSeq(VS(d.els[i]))] IN
           IF IsLimit(d) THEN {v \in {L(<<x, y>>) : x \in VS(d.els[1]), y \in VS(d.els[1])} : PairOrd(v) = "le"}
           ELSE {L(Diag(seqs, s)) : s \in 1 .. MaxLen(seqs)}
      [] d.k = "struct" ->
           LET seqs == [i \in 1 .. Len(d.mem) |-> SetToSeq(VS(d.mem[i].t))]
               full(s) == [i \in 1 .. Len(d.mem) |-> [k |-> d.mem[i].n, v |-> Diag(seqs, s)[i]]]
               opt == Rng(d.opt) IN
           UNION {{O(full(s)), O(SelectSeq(full(s), LAMBDA e : e.k \notin opt))}
                  \cup {O(SelectSeq(full(s), LAMBDA e : e.k # o)) : o \in opt} : s \in 1 .. MaxLen(seqs)}

(* equal at every leaf that is not a float (double, scaled) *)
EqModFloat(d, a, b) ==
    CASE d.k \in {"double", "scaled", "gscaled", "bscaled"} -> TRUE
      [] d.k \in {"array", "tuple"} ->
           /\ b.j = "list" /\ Len(b.xs) = Len(a.xs)
           /\ \A i \in 1 .. Len(a.xs) : EqModFloat(IF d.k = "array" THEN d.el ELSE d.els[i], a.xs[i], b.xs[i])
      [] d.k = "struct" ->
           /\ b.j = "obj" /\ Len(b.kv) = Len(a.kv)
           /\ \A i \in 1 .. Len(a.kv) : b.kv[i].k = a.kv[i].k /\ EqModFloat(TypeOf(d, a.kv[i].k), a.kv[i].v, b.kv[i].v)
      [] OTHER -> a = b

(* C02 for commands: a call hands an argument value to the driver and a result value back to the caller; *)
(* both cross the wire like parameter values, so both obey the round trip law of their own datatype        *)
CmdCalls(d) ==
    LET as == IF d.arg.k = "none" THEN <<Null>> ELSE SetToSeq(VS(d.arg))
        rs == IF d.res.k = "none" THEN <<Null>> ELSE SetToSeq(VS(d.res))
        n == Max2(Len(as), Len(rs)) IN
    {[a |-> as[((s - 1) % Len(as)) + 1], r |-> rs[((s - 1) % Len(rs)) + 1]] : s \in 1 .. n}

RECURSIVE HasFloat(_)
HasFloat(d) == CASE d.k \in {"double", "scaled", "gscaled", "bscaled"} -> TRUE
                 [] d.k = "array" -> HasFloat(d.el)
                 [] d.k = "tuple" -> \E i \in 1 .. Len(d.els) : HasFloat(d.els[i])
                 [] d.k = "struct" -> \E i \in 1 .. Len(d.mem) : HasFloat(d.mem[i].t)
                 [] OTHER -> FALSE

(* law on the model: every value of the value set is valid, is exported with the prescribed kinds, *)
(* and the exported form imports to exactly that value again                                       *)
RoundTripLaw(d) == \A v \in VS(d) :
    /\ InSet(d, v, TRUE)
    /\ KindOK(d, Export(d, v))
    /\ Val(d, Export(d, v), None, "wire") = {Ok(v)}
    /\ Val(d, v, None, "write") = {Ok(v)}
    /\ EqModFloat(d, v, v)

CmdRoundTripLaw(d) == /\ d.arg.k # "none" => RoundTripLaw(d.arg)         \* what the driver receives = what the caller passed
                      /\ d.res.k # "none" => RoundTripLaw(d.res)         \* what the caller gets = what the driver returned
                      /\ CmdCalls(d) # {}

(* ------------------------------------------- C03: description, rebuild, compatibility *)
(* A datainfo is an abstract JSON object O(kv): keys sorted (member order kept for the       *)
(* "members" of a struct), numbers N / I, texts Txt, lists L.  For C03 double and scaled     *)
(* types carry the presentation properties too: unit, fmt, and for scaled abs, rel;          *)
(* rel = -1 stands for the default relative resolution (1.2e-7, not representable in ticks). *)
Txt(s) == [j |-> "text", s |-> s]
HasKey(o, k) == k \in Keys(o)
NumT(v) == IF v.j = "int" THEN v.n * U ELSE v.t           \* ticks of an exact number
IntOf(v) == IF v.j = "int" THEN v.n ELSE v.t \div U
RelOf(v) == IF NumT(v) = 0 THEN 0 ELSE IF NumT(v) = 2 THEN 1 ELSE 99
GetT(i, k, dflt) == IF HasKey(i, k) THEN NumT(ValOf(i, k)) ELSE dflt
GetI(i, k, dflt) == IF HasKey(i, k) THEN IntOf(ValOf(i, k)) ELSE dflt
GetS(i, k, dflt) == IF HasKey(i, k) THEN ValOf(i, k).s ELSE dflt

RECURSIVE Rebuild(_), Describe(_)
(* the datatype a datainfo denotes (missing keys = defaults, unknown keys ignored) *)
Rebuild(i) ==
    LET ty == GetS(i, "type", "?") IN
    CASE ty = "double" -> [k |-> "double", min |-> GetT(i, "min", -NoLim), max |-> GetT(i, "max", NoLim),
                           abs |-> GetT(i, "absolute_resolution", 0),
                           rel |-> IF HasKey(i, "relative_resolution") THEN RelOf(ValOf(i, "relative_resolution")) ELSE -1,
                           unit |-> GetS(i, "unit", ""), fmt |-> GetS(i, "fmtstr", "%g")]
      [] ty = "int" -> IF ValOf(i, "min").j = "bint" \/ ValOf(i, "max").j = "bint"
                       THEN [k |-> "bigint", min |-> PosOf(ValOf(i, "min")), max |-> PosOf(ValOf(i, "max"))]   \* limits kept exactly
                       ELSE [k |-> "int", min |-> GetI(i, "min", 0), max |-> GetI(i, "max", 0)]
      [] ty = "scaled" /\ ValOf(i, "scale").j = "gscale" /\ (ValOf(i, "min").j = "gint" \/ ValOf(i, "max").j = "gint") ->
                          [k |-> "bscaled", sid |-> ValOf(i, "scale").sid, min |-> GPos(ValOf(i, "min")), max |-> GPos(ValOf(i, "max")),
                           abs |-> GetT(i, "absolute_resolution", -1),
                           rel |-> IF HasKey(i, "relative_resolution") THEN RelOf(ValOf(i, "relative_resolution")) ELSE -1,
                           unit |-> GetS(i, "unit", ""), fmt |-> GetS(i, "fmtstr", "%g")]
      [] ty = "scaled" /\ ValOf(i, "scale").j = "gscale" /\ ValOf(i, "min").j # "gint" /\ ValOf(i, "max").j # "gint" ->      \* a scale of the table: exactly that float; limits are the integers given
                          [k |-> "gscaled", sid |-> ValOf(i, "scale").sid, min |-> GetI(i, "min", 0), max |-> GetI(i, "max", 0),
                           abs |-> GetT(i, "absolute_resolution", -1),
                           rel |-> IF HasKey(i, "relative_resolution") THEN RelOf(ValOf(i, "relative_resolution")) ELSE -1,
                           unit |-> GetS(i, "unit", ""), fmt |-> GetS(i, "fmtstr", "%g")]
      [] ty = "scaled" /\ ValOf(i, "scale").j # "gscale" -> LET sc == GetT(i, "scale", 1) IN
                          [k |-> "scaled", scale |-> sc, min |-> GetI(i, "min", 0) * sc, max |-> GetI(i, "max", 0) * sc,
                           abs |-> GetT(i, "absolute_resolution", sc),
                           rel |-> IF HasKey(i, "relative_resolution") THEN RelOf(ValOf(i, "relative_resolution")) ELSE -1,
                           unit |-> GetS(i, "unit", ""), fmt |-> GetS(i, "fmtstr", "%g")]
      [] ty = "bool" -> [k |-> "bool"]
      [] ty = "enum" -> LET m == ValOf(i, "members") IN
                        [k |-> "enum", mem |-> SortSeq([x \in 1 .. Len(m.kv) |-> [n |-> m.kv[x].k, v |-> IntOf(m.kv[x].v)]],
                                                       LAMBDA a, b : a.v < b.v)]
      [] ty = "string" -> [k |-> "string", minc |-> GetI(i, "minchars", 0), maxc |-> GetI(i, "maxchars", NoLim),
                           utf8 |-> IF HasKey(i, "isUTF8") THEN ValOf(i, "isUTF8").b ELSE FALSE]
      [] ty = "blob" -> [k |-> "blob", minb |-> GetI(i, "minbytes", 0), maxb |-> GetI(i, "maxbytes", 0)]
      [] ty = "array" -> [k |-> "array", el |-> Rebuild(ValOf(i, "members")), minlen |-> GetI(i, "minlen", 0),
                          maxlen |-> GetI(i, "maxlen", 0)]
      [] ty = "tuple" -> LET m == ValOf(i, "members").xs IN [k |-> "tuple", els |-> [x \in 1 .. Len(m) |-> Rebuild(m[x])]]
      [] ty = "struct" -> LET m == ValOf(i, "members").kv IN
                          [k |-> "struct", mem |-> [x \in 1 .. Len(m) |-> [n |-> m[x].k, t |-> Rebuild(m[x].v)]],
                           opt |-> IF HasKey(i, "optional")
                                   THEN [x \in 1 .. Len(ValOf(i, "optional").xs) |-> ValOf(i, "optional").xs[x].s]
                                   ELSE [x \in 1 .. Len(m) |-> m[x].k]]
      [] ty = "command" -> [k |-> "command", arg |-> IF HasKey(i, "argument") THEN Rebuild(ValOf(i, "argument")) ELSE [k |-> "none"],
                            res |-> IF HasKey(i, "result") THEN Rebuild(ValOf(i, "result")) ELSE [k |-> "none"]]
      [] OTHER -> [k |-> "invalid"]

(* a canonical datainfo of d: only the non-default properties (keys in sorted order) *)
KV(k, v) == [k |-> k, v |-> v]
GJ(p) == IF p.a = 0 /\ Abs(p.d) < HUGE THEN I(p.d) ELSE GI(p.a, p.d)
PosJ(p) == IF p.a = 0 /\ Abs(p.d) < HUGE THEN I(p.d) ELSE BI(p.a, p.d)
OptKV(cond, k, v) == IF cond THEN <<KV(k, v)>> ELSE <<>>
Describe(d) ==
    CASE d.k = "double" ->
           O(OptKV(d.abs # 0, "absolute_resolution", N(d.abs)) \o OptKV(d.fmt # "%g", "fmtstr", Txt(d.fmt))
             \o OptKV(d.max # NoLim, "max", N(d.max)) \o OptKV(d.min # -NoLim, "min", N(d.min))
             \o OptKV(d.rel # -1, "relative_resolution", N(2 * d.rel)) \o <<KV("type", Txt("double"))>>
             \o OptKV(d.unit # "", "unit", Txt(d.unit)))
      [] d.k = "int" -> O(<<KV("max", I(d.max)), KV("min", I(d.min)), KV("type", Txt("int"))>>)
      [] d.k = "bigint" -> O(<<KV("max", PosJ(d.max)), KV("min", PosJ(d.min)), KV("type", Txt("int"))>>)
      [] d.k = "scaled" ->
           O(OptKV(d.abs # d.scale, "absolute_resolution", N(d.abs)) \o OptKV(d.fmt # "%g", "fmtstr", Txt(d.fmt))
             \o <<KV("max", I(d.max \div d.scale)), KV("min", I(d.min \div d.scale))>>
             \o OptKV(d.rel # -1, "relative_resolution", N(2 * d.rel))
             \o <<KV("scale", N(d.scale)), KV("type", Txt("scaled"))>> \o OptKV(d.unit # "", "unit", Txt(d.unit)))
      [] d.k = "gscaled" ->
           O(OptKV(d.abs # -1, "absolute_resolution", N(d.abs)) \o OptKV(d.fmt # "%g", "fmtstr", Txt(d.fmt))
             \o <<KV("max", I(d.max)), KV("min", I(d.min))>>
             \o OptKV(d.rel # -1, "relative_resolution", N(2 * d.rel))
             \o <<KV("scale", [j |-> "gscale", sid |-> d.sid]), KV("type", Txt("scaled"))>> \o OptKV(d.unit # "", "unit", Txt(d.unit)))
      [] d.k = "bscaled" ->
           O(OptKV(d.abs # -1, "absolute_resolution", N(d.abs)) \o OptKV(d.fmt # "%g", "fmtstr", Txt(d.fmt))
             \o <<KV("max", GJ(d.max)), KV("min", GJ(d.min))>>
             \o OptKV(d.rel # -1, "relative_resolution", N(2 * d.rel))
             \o <<KV("scale", [j |-> "gscale", sid |-> d.sid]), KV("type", Txt("scaled"))>> \o OptKV(d.unit # "", "unit", Txt(d.unit)))
      [] d.k = "command" -> O(OptKV(d.arg.k # "none", "argument", Describe(d.arg)) \o OptKV(d.res.k # "none", "result", Describe(d.res))
                              \o <<KV("type", Txt("command"))>>)
      [] d.k = "bool" -> O(<<KV("type", Txt("bool"))>>)
      [] d.k = "enum" -> O(<<KV("members", O([x \in 1 .. Len(d.mem) |-> KV(d.mem[x].n, I(d.mem[x].v))])), KV("type", Txt("enum"))>>)
      [] d.k = "string" -> O(OptKV(d.utf8, "isUTF8", B(TRUE)) \o OptKV(d.maxc # NoLim, "maxchars", I(d.maxc))
                             \o OptKV(d.minc # 0, "minchars", I(d.minc)) \o <<KV("type", Txt("string"))>>)
      [] d.k = "blob" -> O(<<KV("maxbytes", I(d.maxb))>> \o OptKV(d.minb # 0, "minbytes", I(d.minb)) \o <<KV("type", Txt("blob"))>>)
      [] d.k = "array" -> O(<<KV("maxlen", I(d.maxlen)), KV("members", Describe(d.el))>>
                            \o OptKV(d.minlen # 0, "minlen", I(d.minlen)) \o <<KV("type", Txt("array"))>>)
      [] d.k = "tuple" -> O(<<KV("members", L([x \in 1 .. Len(d.els) |-> Describe(d.els[x])])), KV("type", Txt("tuple"))>>)
      [] d.k = "struct" ->
           O(<<KV("members", O([x \in 1 .. Len(d.mem) |-> KV(d.mem[x].n, Describe(d.mem[x].t))]))>>
             \o OptKV(Rng(d.opt) # Names(d), "optional", L([x \in 1 .. Len(d.opt) |-> Txt(d.opt[x])]))
             \o <<KV("type", Txt("struct"))>>)

(* add the presentation properties to every double / scaled node (u = unit, f = format) *)
RECURSIVE Deco(_, _, _, _)
Deco(d, u, f, dflt) ==
    CASE d.k = "double" -> [k |-> "double", min |-> d.min, max |-> d.max, abs |-> d.abs, rel |-> IF dflt THEN -1 ELSE d.rel,
                            unit |-> u, fmt |-> f]
      [] d.k = "scaled" -> [k |-> "scaled", scale |-> d.scale, min |-> d.min, max |-> d.max,
                            abs |-> IF dflt THEN d.scale ELSE 0, rel |-> IF dflt THEN -1 ELSE 1, unit |-> u, fmt |-> f]
      [] d.k = "gscaled" -> [k |-> "gscaled", sid |-> d.sid, min |-> d.min, max |-> d.max,
                             abs |-> IF dflt THEN -1 ELSE 0, rel |-> IF dflt THEN -1 ELSE 1, unit |-> u, fmt |-> f]
      [] d.k = "bscaled" -> [k |-> "bscaled", sid |-> d.sid, min |-> d.min, max |-> d.max,
                             abs |-> IF dflt THEN -1 ELSE 0, rel |-> IF dflt THEN -1 ELSE 1, unit |-> u, fmt |-> f]
      [] d.k = "array" -> [d EXCEPT !.el = Deco(d.el, u, f, dflt)]
      [] d.k = "tuple" -> [d EXCEPT !.els = [x \in 1 .. Len(d.els) |-> Deco(d.els[x], u, f, dflt)]]
      [] d.k = "struct" -> [d EXCEPT !.mem = [x \in 1 .. Len(d.mem) |-> [n |-> d.mem[x].n, t |-> Deco(d.mem[x].t, u, f, dflt)]]]
      [] d.k = "command" -> [k |-> "command", arg |-> Deco(d.arg, u, f, dflt), res |-> Deco(d.res, u, f, dflt)]
      [] OTHER -> d

(* what the exported datainfo can say about a type: TextType is described as a string, LimitsType as a tuple *)
RECURSIVE Canon(_)
Canon(d) ==
    CASE d.k = "string" -> [k |-> "string", minc |-> d.minc, maxc |-> d.maxc, utf8 |-> d.utf8]
      [] d.k = "tuple" -> [k |-> "tuple", els |-> [x \in 1 .. Len(d.els) |-> Canon(d.els[x])]]
      [] d.k = "array" -> [d EXCEPT !.el = Canon(d.el)]
      [] d.k = "struct" -> [d EXCEPT !.mem = [x \in 1 .. Len(d.mem) |-> [n |-> d.mem[x].n, t |-> Canon(d.mem[x].t)]]]
      [] d.k = "command" -> [k |-> "command", arg |-> Canon(d.arg), res |-> Canon(d.res)]
      [] OTHER -> d
RECURSIVE HasLimit(_)
HasLimit(d) == CASE d.k = "tuple" -> IsLimit(d) \/ \E i \in 1 .. Len(d.els) : HasLimit(d.els[i])
                 [] d.k = "array" -> HasLimit(d.el)
                 [] d.k = "struct" -> \E i \in 1 .. Len(d.mem) : HasLimit(d.mem[i].t)
                 [] d.k = "command" -> HasLimit(d.arg) \/ HasLimit(d.res)
                 [] OTHER -> FALSE

(* law on the model: the description denotes the type, also with unknown keys added (must-ignore) *)
WithUnknown(i) == O(i.kv \o <<KV("x-unknown", I(1))>>)
DescribeLaw(d) == Rebuild(Describe(d)) = Canon(d) /\ Rebuild(WithUnknown(Describe(d))) = Canon(d)

(* compatibility by its meaning: every value valid for a is valid for b, computed over a finite  *)
(* universe that is exact for interval-like and finite value sets                              *)
RECURSIVE CU(_), Supported(_, _)
AnyOf(S0) == CHOOSE x \in S0 : TRUE
CU(a) ==
    CASE a.k = "int" -> IF a.max - a.min <= 24 THEN {I(n) : n \in a.min .. a.max} ELSE VS(a)
      [] a.k = "string" -> VS(a) \cup (IF a.maxc = NoLim THEN {Plain(WIREBIG + 1)} \cup (IF a.utf8 THEN {Utf(WIREBIG + 1)} ELSE {}) ELSE {})
      [] a.k = "array" -> UNION {{L(Rep(v, n)) : v \in (IF n = 0 THEN {Null} ELSE CU(a.el))} : n \in {a.minlen, a.maxlen}}
      [] a.k = "tuple" ->
           LET base == [x \in 1 .. Len(a.els) |-> AnyOf(CU(a.els[x]))] IN
           UNION {{L([base EXCEPT ![x] = v]) : v \in CU(a.els[x])} : x \in 1 .. Len(a.els)}
      [] a.k = "struct" ->
           LET base == [x \in 1 .. Len(a.mem) |-> KV(a.mem[x].n, AnyOf(CU(a.mem[x].t)))]
               opt == Rng(a.opt) IN
           UNION {{O([base EXCEPT ![x] = KV(a.mem[x].n, v)]) : v \in CU(a.mem[x].t)} : x \in 1 .. Len(a.mem)}
           \cup {O(SelectSeq(base, LAMBDA e : e.k \notin opt))} \cup {O(SelectSeq(base, LAMBDA e : e.k # o)) : o \in opt}
      [] a.k \in {"command", "none"} -> {}
      [] OTHER -> VS(a)
MayAccept(b, v) == \E o \in Val(b, v, None, "write") : o.ok
(* v sits exactly on a tolerance boundary the property does not decide (accepted or out of range) *)
Undecided(b, v) == MayAccept(b, v) /\ RE \in Val(b, v, None, "write")
Subset(a, b) == \A v \in CU(a) : MayAccept(b, v)
SubsetSure(a, b) == \A v \in CU(a) : MayAccept(b, v) /\ ~Undecided(b, v)
(* the pairings compatible() is written to support: same kind with equal or wider limits, numbers into *)
(* wider number kinds, integer ranges into enums / booleans that contain them, element-wise in containers *)
Lo(d) == IF d.k = "int" THEN d.min * U ELSE d.min
Hi(d) == IF d.k = "int" THEN d.max * U ELSE d.max
WiderNum(a, b) == /\ (Lo(b) = -NoLim \/ (Lo(a) # -NoLim /\ Lo(b) <= Lo(a)))
                  /\ (Hi(b) = NoLim \/ (Hi(a) # NoLim /\ Hi(a) <= Hi(b)))
Supported(a, b) ==
    CASE a.k \in {"double", "scaled"} -> b.k \in {"double", "scaled"} /\ WiderNum(a, b)
      [] a.k = "int" ->
           CASE b.k \in {"int", "double", "scaled"} -> WiderNum(a, b)
             [] b.k = "enum" -> a.max - a.min <= 24 /\ \A n \in a.min .. a.max : ByVal(b, n) # {}
             [] b.k = "bool" -> 0 <= a.min /\ a.max <= 1
             [] OTHER -> FALSE
      [] a.k = "bool" -> b.k = "bool"
      [] a.k \in {"command", "none"} -> FALSE
      [] a.k = "gscaled" -> b.k = "gscaled" /\ b.sid = a.sid /\ b.min <= a.min /\ a.max <= b.max
      [] a.k = "bscaled" -> b.k = "bscaled" /\ b.sid = a.sid /\ PLE(b.min, a.min) /\ PLE(a.max, b.max)
      [] a.k = "bigint" -> b.k = "bigint" /\ PLE(b.min, a.min) /\ PLE(a.max, b.max)
      [] a.k = "enum" -> b.k = "enum" /\ \A m \in Rng(a.mem) : ByVal(b, m.v) # {}
      [] a.k = "string" -> /\ b.k = "string" /\ b.minc <= a.minc /\ (a.utf8 => b.utf8)
                           /\ (b.maxc = NoLim \/ (a.maxc # NoLim /\ a.maxc <= b.maxc))
      [] a.k = "blob" -> b.k = "blob" /\ b.minb <= a.minb /\ a.maxb <= b.maxb
      [] a.k = "array" -> b.k = "array" /\ b.minlen <= a.minlen /\ a.maxlen <= b.maxlen /\ Supported(a.el, b.el)
      [] a.k = "tuple" -> b.k = "tuple" /\ Len(a.els) = Len(b.els) /\ \A x \in 1 .. Len(a.els) : Supported(a.els[x], b.els[x])
      [] a.k = "struct" -> /\ b.k = "struct" /\ Names(a) \subseteq Names(b)
                           /\ (Names(b) \ Names(a)) \subseteq Rng(b.opt)
                           /\ (Rng(a.opt) \cap Names(b)) \subseteq Rng(b.opt)
                           /\ \A x \in 1 .. Len(a.mem) : Supported(a.mem[x].t, TypeOf(b, a.mem[x].n))
(* allowed verdicts of a.compatible(b): TRUE = passes *)
(* a gscaled type against another kind or another scale: the model cannot relate grid units, verdict free *)
RECURSIVE HasGS(_), GClash(_, _)
HasGS(d) == CASE d.k \in {"gscaled", "bscaled"} -> TRUE
              [] d.k = "array" -> HasGS(d.el)
              [] d.k = "tuple" -> \E i \in 1 .. Len(d.els) : HasGS(d.els[i])
              [] d.k = "struct" -> \E i \in 1 .. Len(d.mem) : HasGS(d.mem[i].t)
              [] d.k = "command" -> HasGS(d.arg) \/ HasGS(d.res)
              [] OTHER -> FALSE
GClash(a, b) ==
    CASE a.k = "gscaled" /\ b.k = "gscaled" -> a.sid # b.sid
      [] a.k = "bscaled" /\ b.k = "bscaled" -> a.sid # b.sid
      [] a.k = "array" /\ b.k = "array" -> GClash(a.el, b.el)
      [] a.k = "tuple" /\ b.k = "tuple" /\ Len(a.els) = Len(b.els) -> \E i \in 1 .. Len(a.els) : GClash(a.els[i], b.els[i])
      [] a.k = "struct" /\ b.k = "struct" /\ Names(a) = Names(b) ->
           \E i \in 1 .. Len(a.mem) : GClash(a.mem[i].t, TypeOf(b, a.mem[i].n))
      [] OTHER -> HasGS(a) \/ HasGS(b)
(* commands: the argument of a must fit into the argument of b, the result of b into the result of a; *)
(* types with an ordered pair (LimitsType) are left free (compatible() treats them as plain tuples)     *)
RECURSIVE AllowedPass(_, _)
CmdPart(x, y) == IF x.k = "none" /\ y.k = "none" THEN {TRUE}
                 ELSE IF x.k = "none" \/ y.k = "none" THEN {FALSE} ELSE AllowedPass(x, y)
AllowedPass(a0, b0) ==
    LET a == Canon(a0)
        b == Canon(b0) IN
    IF HasLimit(a0) \/ HasLimit(b0) THEN {TRUE, FALSE}
    ELSE IF a.k = "command" /\ b.k = "command"
    THEN {x /\ y : x \in CmdPart(a.arg, b.arg), y \in CmdPart(b.res, a.res)}
    ELSE IF a.k = "command" THEN {FALSE}
    ELSE IF GClash(a, b) THEN {TRUE, FALSE} ELSE IF ~Subset(a, b) THEN {FALSE} ELSE IF Supported(a, b) /\ SubsetSure(a, b) THEN {TRUE} ELSE {TRUE, FALSE}

(* --------------------------------------------------------------- type catalogue *)
Dbl(lo, hi, a, r) == [k |-> "double", min |-> lo, max |-> hi, abs |-> a, rel |-> r]
IntT(lo, hi) == [k |-> "int", min |-> lo, max |-> hi]
Scl(s, lo, hi) == [k |-> "scaled", scale |-> s, min |-> lo, max |-> hi]
BoolT == [k |-> "bool"]
BigT(lo, hi) == [k |-> "bigint", min |-> lo, max |-> hi]
GScl(sid, lo, hi) == [k |-> "gscaled", sid |-> sid, min |-> lo, max |-> hi]
BScl(sid, lo, hi) == [k |-> "bscaled", sid |-> sid, min |-> lo, max |-> hi]
Text(hi) == [k |-> "string", minc |-> 0, maxc |-> hi, utf8 |-> FALSE, text |-> TRUE]
Lim(el) == [k |-> "tuple", els |-> <<el, el>>, limit |-> TRUE]
Cmd(a, r) == [k |-> "command", arg |-> a, res |-> r]
NoT == [k |-> "none"]
Enm(mem) == [k |-> "enum", mem |-> mem]
Strg(lo, hi, u) == [k |-> "string", minc |-> lo, maxc |-> hi, utf8 |-> u]
Blob(lo, hi) == [k |-> "blob", minb |-> lo, maxb |-> hi]
Arr(el, lo, hi) == [k |-> "array", el |-> el, minlen |-> lo, maxlen |-> hi]
Tup(els) == [k |-> "tuple", els |-> els]
Stc(mem, opt) == [k |-> "struct", mem |-> mem, opt |-> opt]
M(n, t) == [n |-> n, t |-> t]
\* StatusType: tuple(enum of standard status codes, string) built by the convenience class
Status == [k |-> "tuple", status |-> TRUE,
           els |-> <<Enm(<<[n |-> "STANDBY", v |-> 130], [n |-> "RAMPING", v |-> 370], [n |-> "ERROR", v |-> 400]>>), Strg(0, NoLim, FALSE)>>]

Leaves == <<Dbl(-16, 40, 0, 0), Dbl(0, 160, 4, 0), Dbl(16, 16, 0, 1), Dbl(-NoLim, NoLim, 0, 0), Dbl(-NoLim, 32, 0, 1),
            IntT(-2, 3), IntT(5, 5), Scl(4, 0, 160), Scl(32, -64, 6400), BoolT,
            Enm(<<[n |-> "a", v |-> 1], [n |-> "b", v |-> 2]>>),
            Enm(<<[n |-> "off", v |-> 0], [n |-> "on", v |-> 1], [n |-> "x", v |-> 5]>>),
            Strg(1, 3, FALSE), Strg(0, NoLim, TRUE), Blob(1, 3), Blob(0, 6),
            BigT(P(0, 0), P(4, -1)), BigT(P(-1, 0), P(3, -1)), BigT(P(1, 1), P(2, 1)),      \* UInt64, Int64, 2^53+1 .. 10^18+1
            \* scales whose float quotient limit/scale is inexact on either side, negative limits, tiny / huge / periodic scales
            GScl("0.1", 3, 7), GScl("0.1", -7, -3), GScl("0.2", -3, 7), GScl("0.01", 29, 57), GScl("0.003", -9, 33),
            GScl("1/3", -2, 7), GScl("2^-20", 0, 1000000), GScl("1.000001e-3", 0, 1000000), GScl("0.0254/4096", -5, 100000),
            GScl("7", -3, 9), GScl("1e6", 0, 12),
            \* integer range up to 2^53: every grid point is a double, n + 0.5 is not
            BScl("1", P(-2, 0), P(2, 0)), BScl("0.5", P(-1, -5), P(2, -1)), BScl("8", P(0, 0), P(2, 0)),
            \* convenience types and the shapes the short constructor forms produce (StringType(n), BLOBType(n), IntRange())
            Text(NoLim), Text(5), Lim(Dbl(-16, 40, 4, 0)), Lim(IntT(-2, 3)), Lim(Scl(4, 0, 160)), Lim(GScl("0.1", 3, 7)),
            Strg(2, 2, FALSE), Blob(2, 2), IntT(-16777216, 16777216), Status,
            \* degenerate length limits: maximum 0 (value set = the empty string / blob) and minimum = maximum
            Strg(0, 0, FALSE), Blob(0, 0), Strg(3, 3, TRUE)>>
NL == Len(Leaves)
Lf(i) == Leaves[((i - 1) % NL) + 1]
SmallLeaves == <<IntT(-2, 3), GScl("0.1", 3, 7), BigT(P(1, 1), P(4, -1)), Blob(1, 3), BScl("1", P(-2, 0), P(2, 0)), Scl(4, 0, 160),
                 GScl("1/3", -6, 1000000),
                 Strg(1, 3, FALSE), Dbl(0, 160, 4, 0),
                 Enm(<<[n |-> "a", v |-> 1], [n |-> "b", v |-> 2]>>)>>
NS == Len(SmallLeaves)
Sm(i) == SmallLeaves[((i - 1) % NS) + 1]
AB(t1, t2, opt) == Stc(<<M("a", t1), M("b", t2)>>, opt)

(* arrays that can only be empty (maxlen = 0) or have exactly one length, alone and nested *)
Degenerate == <<Arr(IntT(-2, 3), 0, 0), Arr(Strg(1, 3, FALSE), 0, 0), Arr(Blob(1, 3), 3, 3),
                Arr(Arr(IntT(-2, 3), 0, 0), 0, 2), Arr(Arr(IntT(-2, 3), 0, 2), 0, 0),
                Tup(<<Arr(Dbl(0, 160, 4, 0), 0, 0), Strg(0, 0, FALSE)>>),
                AB(Arr(Scl(4, 0, 160), 0, 0), Blob(0, 0), <<"b">>)>>
Depth1 ==
    [i \in 1 .. NL |-> Arr(Lf(i), 0, 2)] \o [i \in 1 .. NL |-> Arr(Lf(i), 1, 3)]
    \o [i \in 1 .. NL |-> Tup(<<Lf(i), Lf(i + 1)>>)]
    \o [i \in 1 .. NL |-> AB(Lf(i), Lf(i + 5), <<"b">>)]
    \o [i \in 1 .. NL |-> AB(Lf(i + 3), Lf(i), IF i % 2 = 0 THEN <<>> ELSE <<"a", "b">>)]
    \o <<Tup(<<Lf(6), Lf(13), Lf(8)>>), Tup(<<Lf(15)>>), Arr(Lf(6), 2, 2), Arr(Lim(IntT(-2, 3)), 0, 2),
         AB(Lim(Dbl(-16, 40, 4, 0)), Text(5), <<"b">>)>>
    \o Degenerate
Depth2N(ns) ==
    [i \in 1 .. ns |-> Arr(Arr(Sm(i), 0, 2), 0, 2)]
    \o [i \in 1 .. ns |-> Arr(Tup(<<Sm(i), Sm(i + 1)>>), 1, 2)]
    \o [i \in 1 .. ns |-> Arr(AB(Sm(i), Sm(i + 2), <<"b">>), 0, 2)]
    \o [i \in 1 .. ns |-> Tup(<<Arr(Sm(i), 0, 2), Sm(i + 3)>>)]
    \o [i \in 1 .. ns |-> AB(Arr(Sm(i), 1, 2), Tup(<<Sm(i + 1), Sm(i + 4)>>), <<"b">>)]
    \o [i \in 1 .. ns |-> Stc(<<M("s", AB(Sm(i), Sm(i + 1), <<"b">>)), M("k", Sm(i + 2))>>, <<"s">>)]
Depth2 == Depth2N(NS)
Depth1Quick ==
    [i \in 1 .. NL |-> Arr(Lf(i), 0, 2)] \o [i \in 1 .. NL \div 6 |-> Arr(Lf(6 * i - 1), 1, 3)]
    \o [i \in 1 .. NL \div 2 |-> Tup(<<Lf(2 * i - 1), Lf(2 * i)>>)]
    \o [i \in 1 .. NL \div 2 |-> AB(Lf(2 * i - 1), Lf(2 * i + 4), <<"b">>)]
    \o [i \in 1 .. NL \div 4 |-> AB(Lf(4 * i + 3), Lf(4 * i), IF i % 2 = 0 THEN <<>> ELSE <<"a", "b">>)]
    \o <<Tup(<<Lf(6), Lf(13), Lf(8)>>), Tup(<<Lf(15)>>), Arr(Lf(6), 2, 2), Arr(Lim(IntT(-2, 3)), 0, 2),
         AB(Lim(Dbl(-16, 40, 4, 0)), Text(5), <<"b">>)>>
    \o Degenerate
AllPairs == [i \in 1 .. NL * NL |-> Tup(<<Lf(((i - 1) \div NL) + 1), Lf(((i - 1) % NL) + 1)>>)]
Depth3 ==
    [i \in 1 .. NS |-> Arr(Arr(Arr(Sm(i), 0, 2), 1, 2), 0, 2)]
    \o [i \in 1 .. NS |-> Arr(AB(Arr(Sm(i), 0, 2), Tup(<<Sm(i + 1), Sm(i + 2)>>), <<"b">>), 0, 2)]
    \o [i \in 1 .. NS |-> Tup(<<AB(Tup(<<Sm(i), Sm(i + 1)>>), Sm(i + 2), <<"a", "b">>), Arr(Sm(i + 3), 0, 2)>>)]
    \o [i \in 1 .. NS |-> Stc(<<M("s", Arr(AB(Sm(i), Sm(i + 1), <<"b">>), 0, 2)), M("k", Sm(i + 2))>>, <<>>)]


BaseSeq(tier) == CASE tier = "mc" -> Leaves \o SubSeq(Depth1, 1, NL)
                   [] tier = "quick" -> Leaves \o Depth1Quick \o Depth2N(4)
                   [] tier = "thorough" -> Leaves \o Depth1 \o Depth2 \o AllPairs \o Depth3

(* types for compatibility pairs: nested, overlapping and disjoint value sets of every kind *)
CLeaves == <<Dbl(0, 160, 0, 0), Dbl(0, 80, 0, 0), Dbl(-16, 160, 4, 0), Dbl(-NoLim, NoLim, 0, 0), Dbl(16, 200, 0, 1),
             IntT(0, 10), IntT(0, 1), IntT(1, 2), IntT(-5, 20), IntT(0, 5),
             Scl(4, 0, 160), Scl(16, 0, 80), Scl(4, -16, 320),
             GScl("0.1", 3, 7), GScl("0.1", 0, 7), GScl("0.1", 3, 6), GScl("0.2", 3, 7),
             BoolT,
             Enm(<<[n |-> "a", v |-> 1], [n |-> "b", v |-> 2]>>), Enm(<<[n |-> "off", v |-> 0], [n |-> "on", v |-> 1]>>),
             Enm(<<[n |-> "off", v |-> 0], [n |-> "a", v |-> 1], [n |-> "b", v |-> 2], [n |-> "x", v |-> 5]>>),
             Enm(<<[n |-> "x", v |-> 1], [n |-> "big", v |-> 200]>>),
             Strg(0, NoLim, TRUE), Strg(0, NoLim, FALSE), Strg(1, 3, FALSE), Strg(0, 8, TRUE), Strg(2, 3, FALSE),
             Blob(0, 6), Blob(1, 3), Blob(2, 8), Blob(0, 0), Strg(0, 0, FALSE),
             Arr(IntT(0, 10), 0, 0), Arr(IntT(0, 5), 0, 0), Arr(IntT(0, 10), 2, 2)>>
NC == Len(CLeaves)
CSmall == <<Dbl(0, 160, 0, 0), Dbl(0, 80, 0, 0), IntT(0, 10), IntT(0, 1), Scl(4, 0, 160), BoolT,
            Enm(<<[n |-> "off", v |-> 0], [n |-> "on", v |-> 1]>>), Strg(1, 3, FALSE), Strg(0, 8, TRUE), Blob(1, 3)>>
NCS == Len(CSmall)
CContainers ==
    [i \in 1 .. NCS |-> Arr(CSmall[i], 0, 2)] \o [i \in 1 .. NCS |-> Arr(CSmall[i], 1, 3)]
    \o [i \in 1 .. NCS |-> Tup(<<CSmall[i], CSmall[(i % NCS) + 1]>>)]
    \o [i \in 1 .. NCS |-> AB(CSmall[i], CSmall[(i % NCS) + 1], <<"b">>)]
    \o [i \in 1 .. NCS |-> AB(CSmall[i], CSmall[(i % NCS) + 1], <<>>)]
    \o [i \in 1 .. NCS |-> AB(CSmall[i], CSmall[(i % NCS) + 1], <<"a", "b">>)]
    \o <<Stc(<<M("a", CSmall[3])>>, <<>>), Stc(<<M("a", CSmall[3]), M("b", CSmall[8]), M("c", CSmall[6])>>, <<"c">>),
         Tup(<<CSmall[3]>>), Tup(<<CSmall[3], CSmall[8], CSmall[6]>>), Arr(Arr(CSmall[3], 0, 2), 0, 2), Arr(Arr(CSmall[4], 0, 2), 0, 3)>>
Commands == <<Cmd(NoT, NoT), Cmd(IntT(0, 10), NoT), Cmd(IntT(0, 5), NoT), Cmd(NoT, IntT(0, 10)), Cmd(NoT, IntT(0, 5)),
              Cmd(Dbl(0, 160, 0, 0), Dbl(0, 80, 0, 0)), Cmd(Dbl(0, 80, 0, 0), Dbl(0, 160, 0, 0)),
              Cmd(Tup(<<IntT(0, 10), Strg(1, 3, FALSE)>>), Enm(<<[n |-> "off", v |-> 0], [n |-> "on", v |-> 1]>>)),
              Cmd(AB(IntT(0, 10), Strg(0, 8, TRUE), <<"b">>), Arr(Scl(4, 0, 160), 0, 2)),
              Cmd(GScl("0.1", 3, 7), Text(5))>>
(* C02: commands over all ordered pairs of a small set of argument / result types (none included) *)
CmdSmall == <<NoT, Scl(4, 0, 160), Blob(1, 3), Enm(<<[n |-> "off", v |-> 0], [n |-> "on", v |-> 1]>>),
              Tup(<<IntT(0, 10), Strg(1, 3, FALSE)>>), Arr(Scl(4, 0, 160), 0, 2), AB(IntT(0, 10), Blob(0, 6), <<"b">>),
              GScl("0.1", 3, 7), BigT(P(1, 1), P(4, -1)), IntT(0, 10), Dbl(0, 160, 4, 0), BoolT, Strg(0, 8, TRUE),
              BScl("0.5", P(-2, 0), P(2, 0))>>
NCm == Len(CmdSmall)
CmdPairs == SelectSeq([i \in 1 .. NCm * NCm |-> Cmd(CmdSmall[((i - 1) \div NCm) + 1], CmdSmall[((i - 1) % NCm) + 1])],
                      LAMBDA c : c.arg # c.res \/ c.arg = NoT)
CTypes(tier) == IF tier = "thorough" THEN CLeaves \o CContainers \o Commands \o Depth2
                ELSE CLeaves \o CContainers \o Commands \o <<Text(5), Text(NoLim), Lim(IntT(0, 10)), Lim(Dbl(0, 160, 0, 0))>>
(* types whose description / rebuild / copy is examined: the C01 catalogue with presentation properties *)
ETypes(tier) == LET base == BaseSeq(tier) \o Commands IN
    [i \in 1 .. Len(base) |-> Deco(base[i], IF i % 3 = 0 THEN "" ELSE IF i % 3 = 1 THEN "K" ELSE "$/min",
                                            IF i % 2 = 0 THEN "%g" ELSE "%.4e", i % 4 < 2)]

(* the catalogue a configuration walks through: C01/C02 type trees, C03 pair types ("c-"), C03 decorated types ("e-") *)
TypeSeq(tier) == CASE tier \in {"mc", "quick", "thorough"} -> BaseSeq(tier)
                   [] tier = "c-quick" -> CTypes("quick")
                   [] tier = "c-thorough" -> CTypes("thorough")
                   [] tier = "r-quick" -> SubSeq(ETypes("quick"), 1, Len(BaseSeq("quick")))          \* C02: value types with fmtstr / unit / resolutions
                   [] tier = "r-thorough" -> SubSeq(ETypes("thorough"), 1, Len(BaseSeq("thorough")))
                   [] tier \in {"x-quick", "x-thorough"} -> CmdPairs
                   [] tier = "e-quick" -> ETypes("quick")
                   [] tier = "e-thorough" -> ETypes("thorough")

(* ------------------------------------------------------- the model's own laws *)
(* One TLC state per datatype; the laws quantify over all its cases.             *)
CONSTANTS Tier, Shard, NShards
VARIABLE dt
Mine == {i \in 1 .. Len(TypeSeq(Tier)) : i % NShards = Shard}
Init == dt \in {TypeSeq(Tier)[i] : i \in Mine}
Next == UNCHANGED dt
Spec == Init /\ [][Next]_dt

Allowed(d, x) == Val(d, x.c, x.p, x.path)
CaseRecs(d) == {[c |-> x.c, p |-> x.p, path |-> x.path, allowed |-> Allowed(d, x)] : x \in Cases(d)}

(* the laws over a set R of evaluated cases [c, p, path, allowed] of datatype d *)
TotalR(d, R) == \A r \in R : r.allowed # {}
SoundR(d, R) == \A r \in R : \A o \in r.allowed :
            o.ok => InSet(d, o.v, r.path # "call") /\ Denotes(d, r.c, o.v, r.p, r.path)
(* validating an already validated value returns it unchanged *)
IdempotentR(d, R) == \A r \in R : \A o \in r.allowed :
            o.ok => /\ Ok(o.v) \in Val(d, o.v, None, "call")
                    /\ r.path # "call" => Val(d, o.v, None, "write") = {Ok(o.v)}
(* apart from the documented filling of members that were not offered, the result *)
(* does not depend on the previous value                                          *)
PrevFreeR(d, R) == \A r \in R :
            (d.k \in {"double", "int", "bigint", "scaled", "bool", "enum", "string", "blob"} /\ r.p # None)
               => r.allowed = Val(d, r.c, None, r.path)
(* vacuity guards: the catalogue exercises acceptance, both error classes and loose cases *)
NonVacuousR(d, R) == /\ \E r \in R : \E o \in r.allowed : o.ok
                     /\ \E r \in R : WT \in r.allowed /\ \A o \in r.allowed : ~o.ok
                     /\ \E r \in R : RE \in r.allowed
                     /\ \E r \in R : Cardinality(r.allowed) > 1

Total == TotalR(dt, CaseRecs(dt))
Sound == SoundR(dt, CaseRecs(dt))
Idempotent == IdempotentR(dt, CaseRecs(dt))
PrevFree == PrevFreeR(dt, CaseRecs(dt))
NonVacuous == NonVacuousR(dt, CaseRecs(dt))
RoundTrip == RoundTripLaw(dt) /\ VS(dt) # {}
CmdRoundTrip == CmdRoundTripLaw(dt)
(* every type is compatible with itself, and compatibility by meaning is transitive on the catalogue *)
CompatSane ==
    IF HasLimit(dt) THEN AllowedPass(dt, dt) = {TRUE, FALSE}
    ELSE IF dt.k = "command" THEN AllowedPass(dt, dt) = {TRUE}
    ELSE /\ Subset(dt, dt) /\ Supported(dt, dt) /\ AllowedPass(dt, dt) = {TRUE}
         /\ \A i \in 1 .. Len(TypeSeq(Tier)) :
               LET b == TypeSeq(Tier)[i] IN
               (~HasLimit(b) /\ b.k # "command") =>
                  /\ Supported(dt, b) => Subset(dt, b)
                  /\ \A j \in 1 .. Len(TypeSeq(Tier)) :
                        LET c == TypeSeq(Tier)[j] IN
                        (~HasLimit(c) /\ c.k # "command" /\ Subset(dt, b) /\ Subset(b, c)) => Subset(dt, c)
DescribeRebuild == DescribeLaw(Deco(dt, "K", "%.3f", TRUE)) /\ DescribeLaw(Deco(dt, "$", "%g", FALSE))
AllLaws(d, R) == TotalR(d, R) /\ SoundR(d, R) /\ IdempotentR(d, R) /\ PrevFreeR(d, R) /\ NonVacuousR(d, R)
=============================================================================
