SPECIFICATION Spec
CONSTANTS
  Tier = "c-quick"
  Shard = 0
  NShards = 6
INVARIANT CompatSane
CHECK_DEADLOCK FALSE
