SPECIFICATION GSpec
CONSTANTS
  Params = {"p1", "p2"}
  Mod2 = {"p2"}
  Vals = {"a", "b"}
  Errs = {"e1", "e2"}
  Invs = {"i1"}
  Conns = {"c1", "c2"}
  OmitChoices = {0}
  InitStamps = {1}
  NoDefault = {}
  InitScopeSets = {{}, {"mod2"}}
  HiddenChoices = {{}}
  ActScopes = {"all", "mod", "mod2", "p2"}
  RepKinds = {}
  MaxNow = 5
  Depth = 4
  FullParams = {}
  LiteParams = {"p1", "p2"}
  GenConns = {"c2"}
  GenDefaults = {"b"}
  GenLiteOmit = {0}
  GenFixedSub = {"mod2"}
  GenFullKinds = {"ReadOk", "ReadRaise", "ReadInvalid", "Write", "Assign", "AnnounceErr", "Untouched"}
  GenExtra = {"Deact"}
CONSTRAINT Bound
INVARIANT EmitMax
CHECK_DEADLOCK FALSE
