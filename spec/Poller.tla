------------------------------- MODULE Poller -------------------------------
(* C13, design level.  The body of the poll thread (frappy/modulebase.py             *)
(* __pollThread) in integer virtual time (ticks): start-up reads, due-time            *)
(* computation, wait, main polls of all due modules, exactly one slow poll per turn,  *)
(* collection of a new slow round.  Every module has one main poll (doPoll) and the   *)
(* polled parameters Params.  Poll functions may fail: a failure takes time like a     *)
(* success and changes nothing else (error containment is what callPollFunc does).     *)
(* Reading the clock takes an infinitesimal time: `now > due` of the code is           *)
(* `now >= due` on ticks; where the code compares against a time stamp taken inside a  *)
(* read, equality on ticks may go either way.                                          *)
EXTENDS Naturals, Sequences, FiniteSets, TLC

CONSTANTS NMods, Params,
          Intervals, Slows, Durs,      \* value sets explored for poll interval, slow interval, durations
          Horizon

Mods == 1 .. NMods
MP == Mods \X Params

VARIABLES I, S, D, R,      \* configuration chosen in Init: [Mods -> Nat] each
          now, phase,      \* phase: "startup" | "top" | "main" | "slow" | "collect"
          mi,              \* module index inside the main-poll loop
          lastMain, lastSlow, ts,
          toPoll,          \* remaining entries of the slow round (sequence of <<m, p>>)
          passes,          \* how often the slow loop went round in this turn (<= 2)
          mainDl, slowDl,  \* deadlines derived from the bounds of the property
          t0, nMain        \* end of the start-up round; [Mods -> number of main polls since then]
vars == <<I, S, D, R, now, phase, mi, lastMain, lastSlow, ts, toPoll, passes, mainDl, slowDl, t0, nMain>>

Sum(f) == LET RECURSIVE sm(_)
              sm(n) == IF n = 0 THEN 0 ELSE f[n] + sm(n - 1)
          IN sm(NMods)
MaxOf(f) == CHOOSE x \in {f[m] : m \in Mods} : \A m \in Mods : f[m] <= x
FullTurn == Sum(D) + MaxOf(R) + 1
NPolled == NMods * Cardinality(Params)
SlowBound(m) == 2 * S[m] + (NPolled + 2) * FullTurn
Floor(t, i) == IF i = 0 THEN t ELSE (t \div i) * i

Init == /\ I \in [Mods -> Intervals] /\ S \in [Mods -> Slows] /\ D \in [Mods -> Durs] /\ R \in [Mods -> Durs]
        /\ \A m \in Mods : I[m] = 0 => D[m] > 0          \* interval 0 with a zero-time poll is a busy loop by definition
        /\ now = 0 /\ phase = "startup" /\ mi = 1
        /\ lastMain = [m \in Mods |-> 0] /\ lastSlow = [m \in Mods |-> 0]
        /\ ts = [x \in MP |-> 0] /\ toPoll = <<>> /\ passes = 0
        /\ mainDl = [m \in Mods |-> 0] /\ slowDl = [x \in MP |-> 0]
        /\ t0 = 0 /\ nMain = [m \in Mods |-> 0]

(* first round: every polled parameter is read once, then the started callback fires *)
SeqOfMP == LET RECURSIVE build(_)
               build(T) == IF T = {} THEN <<>> ELSE LET x == CHOOSE y \in T : TRUE IN <<x>> \o build(T \ {x})
           IN build(MP)
Startup ==
   /\ phase = "startup"
   /\ LET total == Sum([m \in Mods |-> R[m] * Cardinality(Params)]) IN
        /\ now' = now + total
        /\ ts' = [x \in MP |-> now + total]          \* (all stamps within the round; the latest is an upper bound)
        /\ mainDl' = [m \in Mods |-> now + total + I[m] + FullTurn]
        /\ slowDl' = [x \in MP |-> now + total + SlowBound(x[1])]
        /\ t0' = now + total
   /\ phase' = "top"
   /\ UNCHANGED <<I, S, D, R, mi, lastMain, lastSlow, toPoll, passes, nMain>>

MinOf(T) == CHOOSE x \in T : \A y \in T : x <= y
Top ==
   /\ phase = "top"
   /\ LET dues == {lastMain[m] + I[m] : m \in Mods} \cup {lastSlow[m] + S[m] : m \in Mods}
          next == MinOf(dues) IN
      IF next > now /\ toPoll = <<>>
      THEN /\ now' = next /\ UNCHANGED <<phase, mi>>            \* nothing to do: sleep until the earliest due time
      ELSE /\ phase' = "main" /\ mi' = 1 /\ UNCHANGED now
   /\ passes' = 0
   /\ UNCHANGED <<I, S, D, R, lastMain, lastSlow, ts, toPoll, mainDl, slowDl, t0, nMain>>

Main ==
   /\ phase = "main"
   /\ IF mi > NMods
      THEN /\ phase' = "slow" /\ UNCHANGED <<now, mi, lastMain, mainDl, nMain>>
      ELSE /\ mi' = mi + 1 /\ UNCHANGED phase
           /\ IF now >= lastMain[mi] + I[mi]
              THEN /\ lastMain' = [lastMain EXCEPT ![mi] = Floor(now, I[mi])]
                   /\ mainDl' = [mainDl EXCEPT ![mi] = now + I[mi] + FullTurn]
                   /\ now' = now + D[mi]
                   /\ nMain' = [nMain EXCEPT ![mi] = @ + 1]
                   /\ Assert(nMain'[mi] * I[mi] <= (now - t0) + 2 * I[mi], "NotFaster: more main polls than elapsed / interval + 2")
              ELSE UNCHANGED <<now, lastMain, mainDl, nMain>>
   /\ UNCHANGED <<I, S, D, R, lastSlow, ts, toPoll, passes, slowDl, t0>>

(* one due slow poll per turn; an entry refreshed less than half a slow interval ago is skipped *)
Slow ==
   /\ phase = "slow"
   /\ IF toPoll # <<>>
      THEN LET x == Head(toPoll) IN
           /\ toPoll' = Tail(toPoll)
           /\ \/ /\ now * 2 >= ts[x] * 2 + S[x[1]]                 \* due (equality may go either way)
                 /\ now' = now + R[x[1]]
                 /\ ts' = [ts EXCEPT ![x] = now + R[x[1]]]
                 /\ slowDl' = [slowDl EXCEPT ![x] = now + SlowBound(x[1])]
                 /\ phase' = "top"
              \/ /\ now * 2 <= ts[x] * 2 + S[x[1]]                 \* fresh enough: skipped in this round
                 /\ UNCHANGED <<now, ts, slowDl, phase>>
           /\ UNCHANGED <<lastSlow, passes>>
      ELSE \* iterator exhausted: collect the modules whose slow round is due
           LET due == {m \in Mods : now >= lastSlow[m] + S[m]} IN
           /\ lastSlow' = [m \in Mods |-> IF m \in due THEN Floor(now, S[m]) ELSE lastSlow[m]]
           /\ toPoll' = SelectSeq(SeqOfMP, LAMBDA x : x[1] \in due)
           /\ passes' = passes + 1
           /\ phase' = (IF due = {} \/ passes >= 1 THEN "top" ELSE "slow")
           /\ UNCHANGED <<now, ts, slowDl>>
   /\ UNCHANGED <<I, S, D, R, mi, lastMain, mainDl, t0, nMain>>

Next == (now <= Horizon) /\ (Startup \/ Top \/ Main \/ Slow)
Spec == Init /\ [][Next]_vars

(* ------------------------------- properties ------------------------------- *)
(* each module's main poll starts again no later than its interval plus one sweep *)
MainBound == phase # "startup" => \A m \in Mods : now <= mainDl[m]
(* every polled parameter is refreshed within a bounded multiple of the slow interval *)
SlowBoundOK == phase # "startup" => \A x \in MP : now <= slowDl[x]
(* the slow-poll loop of one turn goes round at most twice *)
TurnBounded == passes <= 2
=============================================================================
