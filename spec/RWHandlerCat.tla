----------------------------- MODULE RWHandlerCat -----------------------------
(* X03: the catalogue of class layouts the model checker and the behaviour generator start from. *)
(* (random layouts beyond this catalogue are produced by harness/props/x03.py and judged by      *)
(* Trace_RWHandler, which reads the layout from the trace)                                        *)
EXTENDS RWHandler

H(kind, keys, fn) == [kind |-> kind, keys |-> keys, np |-> "no", fn |-> fn, style |-> "assign", rb |-> ""]
NP(d, where) == [d EXCEPT !.np = where]
RB(d, fn) == [d EXCEPT !.style = "rb", !.rb = fn]
LOne(name, base, cfg) == [name |-> name, cls |-> name, base |-> base, sub |-> <<>>, hassub |-> FALSE, cfg |-> cfg, im |-> <<>>, fix |-> ""]
LSub(name, base, sub, cfg) == [name |-> name, cls |-> name, base |-> base, sub |-> sub, hassub |-> TRUE, cfg |-> cfg, im |-> <<>>, fix |-> ""]
IM(L, name, im) == [L EXCEPT !.name = name, !.cls = name, !.im = im]
Bad(L, cls, fix) == [L EXCEPT !.cls = cls, !.fix = fix]

ab == <<"a", "b">>
bc == <<"b", "c">>
abc == <<"a", "b", "c">>

(* ---- accepted layouts, one class ---- *)
L_r2      == LOne("r2", <<H("R", ab, "rd"), H("W", ab, "wr")>>, <<>>)
L_cr2     == LOne("cr2", <<H("CR", ab, "rdab"), H("CW", ab, "wrab")>>, <<>>)
L_cr3rb   == LOne("cr3rb", <<H("CR", abc, "rdall"), RB(H("CW", abc, "wrall"), "rdall")>>, <<>>)
L_mix     == LOne("mix", <<H("R", <<"a">>, "rda"), H("CR", bc, "rdbc"), H("W", <<"a">>, "wra"), H("CW", bc, "wrbc")>>, <<>>)
L_overlap == LOne("overlap", <<H("CR", ab, "rdab"), RB(H("CW", bc, "wrbc"), "rdab"), H("W", <<"a">>, "wra")>>, <<>>)
L_order   == LOne("order", <<H("CR", <<"c", "a">>, "rdca"), H("CW", <<"c", "a">>, "wrca"), H("R", <<"b">>, "rdb")>>, <<>>)
L_rnp     == LOne("rnp", <<NP(H("R", ab, "rd"), "func"), H("CR", <<"c">>, "rdc")>>, <<>>)
L_rnph    == LOne("rnph", <<NP(H("R", ab, "rd"), "hdl")>>, <<>>)
L_crnp    == LOne("crnp", <<NP(H("CR", ab, "rdab"), "func"), H("R", <<"c">>, "rdc")>>, <<>>)
L_crnph   == LOne("crnph", <<NP(H("CR", ab, "rdab"), "hdl")>>, <<>>)
L_wonly   == LOne("wonly", <<H("CW", ab, "wrab"), H("W", <<"c">>, "wrc")>>, <<>>)
(* ---- configured values: start-up writes ---- *)
L_cfg2    == LOne("cfg2", <<H("CR", ab, "rdab"), H("CW", ab, "wrab")>>, ab)
L_cfg1    == LOne("cfg1", <<H("CR", ab, "rdab"), RB(H("CW", ab, "wrab"), "rdab")>>, <<"b">>)
L_cfgw    == LOne("cfgw", <<H("R", ab, "rd"), H("W", ab, "wr")>>, ab)
L_cfg3    == LOne("cfg3", <<H("CW", bc, "wrbc"), H("W", <<"a">>, "wra"), H("CR", abc, "rdall")>>, abc)
(* ---- hardware functions that fail while the modules start ---- *)
L_imcomm  == IM(LOne("x", <<H("R", <<"a">>, "rda"), H("CR", bc, "rdbc"), H("W", abc, "wr")>>, <<"c">>), "imcomm", <<<<"rda", "comm">>>>)
L_imw     == IM(L_cfg2, "imw", <<<<"wrab", "secop">>>>)
L_imw2    == IM(L_cfgw, "imw2", <<<<"wr", "secop">>>>)
L_imcw3   == IM(L_cfg3, "imcw3", <<<<"wrbc", "plain">>>>)
L_imrb    == IM(L_cfg1, "imrb", <<<<"rdab", "comm">>>>)
L_impart  == IM(L_cr3rb, "impart", <<<<"rdall", "part">>>>)
(* ---- inheritance ---- *)
L_inh     == LSub("inh", <<H("CR", ab, "rdab"), H("CW", ab, "wrab")>>, <<>>, <<>>)
L_ovr1    == LSub("ovr1", <<H("CR", ab, "rdab")>>, <<H("PR", <<"a">>, "read_a")>>, <<>>)
L_ovr2    == LSub("ovr2", <<H("CR", ab, "rdab"), H("CW", ab, "wrab")>>, <<H("PR", <<"b">>, "read_b")>>, <<>>)
L_ovrw    == LSub("ovrw", <<H("CR", ab, "rdab"), H("CW", ab, "wrab")>>, <<H("PW", <<"a">>, "write_a")>>, <<"a">>)
L_ovrnp   == LSub("ovrnp", <<H("R", ab, "rd")>>, <<NP(H("PR", <<"a">>, "read_a"), "func")>>, <<>>)
L_subh    == LSub("subh", <<H("R", ab, "rd"), H("W", ab, "wr")>>, <<H("CR", bc, "rdbc"), H("CW", bc, "wrbc")>>, <<>>)
L_subh2   == LSub("subh2", <<H("CR", ab, "rdab"), H("CW", ab, "wrab")>>, <<H("R", <<"a">>, "rda"), H("W", <<"b">>, "wrb")>>, <<"b">>)
L_subsame == LSub("subsame", <<H("R", <<"a">>, "rd"), H("CR", bc, "rdbc")>>, <<H("R", <<"a">>, "rd_s"), NP(H("CR", bc, "rdbc_s"), "func")>>, <<>>)
(* ---- refused layouts (and the corrected class of the same name that is defined afterwards) ---- *)
L_dupkey   == Bad(LOne("dupkey", <<H("R", ab, "r1"), H("CR", bc, "r2"), H("R", <<"c">>, "r3")>>, <<>>), "dupk", "dupkey_fix")
L_dupkeyF  == Bad(LOne("dupkey_fix", <<H("R", ab, "r1"), H("R", <<"c">>, "r3")>>, <<>>), "dupk", "")
L_dupplain == Bad(LOne("dupplain", <<H("R", ab, "r1"), H("PR", <<"a">>, "read_a"), H("W", ab, "w1")>>, <<>>), "dupp", "dupplain_fix")
L_dupplainF == Bad(LOne("dupplain_fix", <<H("R", <<"b">>, "r1"), H("PR", <<"a">>, "read_a"), H("W", ab, "w1")>>, <<>>), "dupp", "")
L_dupw     == Bad(LOne("dupw", <<H("W", ab, "w1"), H("CW", <<"b">>, "w2")>>, <<>>), "dupw", "")
L_dupfn    == Bad(LOne("dupfn", <<H("R", <<"a">>, "r1"), H("W", <<"a">>, "w1"), H("R", <<"b">>, "r1")>>, <<>>), "dupf", "dupfn_fix")
L_dupfnF   == Bad(LOne("dupfn_fix", <<H("R", <<"a">>, "r1"), H("W", <<"a">>, "w1"), H("R", <<"b">>, "r2")>>, <<>>), "dupf", "")
L_subdup   == Bad(LSub("subdup", <<H("R", ab, "r1")>>, <<H("R", <<"a">>, "r2"), H("PR", <<"a">>, "read_a"), H("W", <<"c">>, "w3")>>, <<>>), "subd", "subdup_fix")
L_subdupF  == Bad(LSub("subdup_fix", <<H("R", ab, "r1")>>, <<H("R", <<"a">>, "r2"), H("W", <<"c">>, "w3")>>, <<>>), "subd", "")
L_nokeyr   == LOne("nokeyr", <<H("R", <<"a", "z">>, "r1")>>, <<>>)
L_nokeycr  == LOne("nokeycr", <<H("CR", <<"z", "a", "b">>, "r1"), H("CW", ab, "w1")>>, <<>>)
L_nokeyw   == LOne("nokeyw", <<H("W", <<"a", "z">>, "w1")>>, <<>>)
L_nokeycw  == LOne("nokeycw", <<H("CW", <<"z", "a">>, "w1")>>, <<>>)
L_nokeyp   == LOne("nokeyp", <<H("PR", <<"z">>, "read_z")>>, <<>>)

Good1 == {L_r2, L_cr2, L_cr3rb, L_mix, L_overlap, L_order, L_rnp, L_rnph, L_crnp, L_crnph, L_wonly}
GoodCfg == {L_cfg2, L_cfg1, L_cfgw, L_cfg3}
GoodIm == {L_imcomm, L_imw, L_imw2, L_imcw3, L_imrb, L_impart}
GoodSub == {L_inh, L_ovr1, L_ovr2, L_ovrw, L_ovrnp, L_subh, L_subh2, L_subsame}
Refused == {L_dupkey, L_dupkeyF, L_dupplain, L_dupplainF, L_dupw, L_dupfn, L_dupfnF, L_subdup, L_subdupF,
            L_nokeyr, L_nokeycr, L_nokeyw, L_nokeycw, L_nokeyp}
AllLayouts == Good1 \cup GoodCfg \cup GoodIm \cup GoodSub \cup Refused

(* model checking: a few layouts at a time keeps the state graph small *)
CatCommon == {L_cr2, L_mix}
CatRb == {L_cr3rb, L_overlap}
CatCfg == {L_cfg2, L_cfg1, L_cfg3}
CatIm == {L_imcomm, L_imw, L_imrb}
CatSub == {L_ovr1, L_subh2, L_ovrw}
CatPlain == {L_r2, L_ovrnp, L_crnp}
CatQSub == {L_subh2, L_ovrw}
CatQIm == {L_imcomm, L_imrb}
NoDevs == {}
AsImplMask == {"MaskErr"}
AsImplNone == {"WriteNone"}
AsImplKey == {"ReadKeyNoParam"}
AsImplLeak == {"RegistryLeak"}
BrokenPollAll == {"X_PollAll"}
BrokenPollAllNoSkip == {"X_PollAll", "X_NoFreshSkip"}
GenCommon == {L_cr2, L_r2, L_order}
GenMixed == {L_mix, L_overlap, L_cr3rb}
GenPlain == {L_rnp, L_rnph, L_crnp, L_crnph, L_wonly}
GenSub == {L_inh, L_ovr1, L_ovr2, L_ovrw}
GenSub2 == {L_ovrnp, L_subh, L_subh2, L_subsame}
BadOnes == {L_dupkey, L_dupplain, L_dupw, L_dupfn, L_subdup, L_nokeyr, L_nokeycr, L_nokeyw, L_nokeycw, L_nokeyp}
(* the catalogue's refused layouts are refused, its accepted ones accepted *)
CatalogueVerdicts == lay # NoLay => ((phase = "refused") <=> (lay \in BadOnes))
AllModes == {"ok", "secop", "comm", "plain", "ret", "part", "none", "done"}
QuickModes == {"ok", "secop", "ret", "none", "done"}

(* model checking: the full alphabet on module m, requests on key a and poll rounds on the bystanders n and p *)
MCNext ==
    \/ \E L \in Layouts : phase = "undef" /\ Define(L, Impl)
    \/ Start(Impl)
    \/ phase = "new" /\ \E k \in ParamSet : Change("m", k, 3, Impl)
    \/ phase = "run" /\ \E k \in ParamSet : \/ Read("m", k, Impl) \/ (\E v \in ReqVals : Change("m", k, v, Impl))
                             \/ Assign("m", k, 2) \/ (\E v \in {1, X} : HwSet("m", k, v))
    \/ Poll("m", Impl)
    \/ phase = "run" /\ \E fn \in Fns(lay) : CallCommon("m", fn) \/ \E md \in ModesOf(DeclByFn(lay, fn).kind) : SetMode("m", fn, md)
    \/ phase = "run" /\ \E x \in {"n", "p"} : Read(x, "a", Impl) \/ Change(x, "a", 1, Impl) \/ Poll(x, Impl)
MCSpec == Init /\ [][MCNext]_vars
MCBound4 == TLCGet("level") <= 4
MCBound5 == TLCGet("level") <= 5
MCBound6 == TLCGet("level") <= 6
(* the class-creation rules alone, over the whole catalogue (refused layouts followed by their corrected twins) *)
DefNext == \E L \in Layouts : (phase = "undef" \/ L.name = lay.fix) /\ Define(L, Impl)
DefSpec == Init /\ [][DefNext]_vars
(* the verdict is a function of the definition: whatever was defined before, an accepted layout is accepted *)
VerdictStable == [][\A L \in Layouts : Define(L, Impl) => last'.verdict = Create(L, {}, {}).v]_vars
=============================================================================
