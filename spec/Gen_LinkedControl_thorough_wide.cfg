SPECIFICATION GSpec
CONSTANTS
  Layouts = {10, 20, 30, 11, 21, 22}
  Excs = {"hardware", "other"}
  Depth = 5
  Depth2 = 4
  Upd = {"a1", "a3", "b1", "b2"}
  FC = {}
  FO = {}
  UpdAny = TRUE
CONSTRAINT Bound
INVARIANT Emit1
CHECK_DEADLOCK FALSE
