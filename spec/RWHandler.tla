------------------------------ MODULE RWHandler ------------------------------
(* X03 (growth).  frappy/rwhandler.py: ReadHandler / CommonReadHandler / WriteHandler /         *)
(* CommonWriteHandler / WriteParameters / nopoll, together with the way HasAccessibles wraps the  *)
(* generated read_<k> / write_<k> methods (frappy/modulebase.py:113-215), the start-up writes     *)
(* (writeInitParams) and the poller (poll flags, first round, slow rounds) use them.              *)
(*                                                                                                *)
(* A LAYOUT is a program of class definitions: a base class body and optionally a subclass body,  *)
(* each a sequence of declarations                                                                *)
(*    R  keys fn   @ReadHandler(keys)        def fn(self, pname)                                  *)
(*    CR keys fn   @CommonReadHandler(keys)  def fn(self)                                         *)
(*    W  keys fn   @WriteHandler(keys)       def fn(self, pname, value)                           *)
(*    CW keys fn   @CommonWriteHandler(keys) def fn(self, values)                                 *)
(*    PR <<k>> fn  def read_k(self)      PW <<k>> fn   def write_k(self, value)   (plain methods) *)
(* over the parameters a, b, c ("z" is a name that is no parameter).  np says where @nopoll sits.  *)
(*                                                                                                *)
(* What this module states (rwhandler.py docstrings, modulebase.py:47-50,193,213-215,295-302,     *)
(* doc/source/magic.rst "nopoll"):                                                                *)
(*  class creation                                                                                *)
(*   - a key claimed twice in one class body (two handlers, or handler + plain method) is         *)
(*     refused ("superfluous method"), two handler functions of the same name in one body are     *)
(*     refused ("duplicate method"), a generated read_<k> / write_<k> for a name that is no       *)
(*     parameter is refused ("... is no parameter"); anything else is accepted;                   *)
(*   - the verdict depends on the class definition only, not on what was defined (or refused)     *)
(*     before;                                                                                    *)
(*   - a subclass inherits the generated methods; a declaration in the subclass body beats the    *)
(*     inherited one key by key; handlers of the base class stay as they were.                    *)
(*  reads                                                                                         *)
(*   - R:  a read request for k calls fn(module, k) exactly once; the result is the new value     *)
(*         of k and the reply;                                                                    *)
(*   - CR: a read request for any key of the group calls fn(module) exactly once; fn assigns      *)
(*         every key of the group; the reply is the value fn has just assigned to k; a value      *)
(*         the datatype refuses is a read error of k (error reply, readerror kept) exactly as    *)
(*         for R;  fn returning something is a ProgrammingError;                                  *)
(*   - an exception in fn becomes the readerror of the requested key and the error reply          *)
(*     (SECoP error: its class, anything else: InternalError), other keys keep their state.       *)
(*  writes                                                                                        *)
(*   - W:  a change of k to v calls fn(module, k, v) exactly once; what fn returns is the new    *)
(*         value and the reply; fn returning None means "v was taken" as for plain write methods;*)
(*   - CW: a change of k to v calls fn(module, values) exactly once; values[k] = v, for every    *)
(*         other key of the group the value still waiting in writeDict (configured, not yet      *)
(*         written) else the current parameter value; after the call the keys of the group hold   *)
(*         what fn assigned; the reply is the value of k then; nothing outside changes;           *)
(*   - an exception in fn: error reply, no parameter changes.                                     *)
(*  start-up and polling                                                                          *)
(*   - configured values are written once at start-up; one call of a CW function writes the      *)
(*     whole group (the other configured keys are taken from writeDict and not written again);   *)
(*   - poll flag: R -> every key, CR -> the first key only, @nopoll (on fn or on the handler)    *)
(*     -> no key, plain read_k -> unless @nopoll, no read method -> not polled;                  *)
(*   - the first round calls every polled read method once: one hardware call per CR group;       *)
(*     a slow round calls the polled read methods whose parameter was not refreshed earlier in   *)
(*     the same round; a communication failure ends the first round (not a slow round);          *)
(*   - a start-up write that fails is logged, nothing is retried, the poll round follows.        *)
(*  isolation: requests on one module instance never touch another instance (same class or the   *)
(*  base class).                                                                                  *)
(*                                                                                                *)
(* Deviations of the code are switches (Impl); with Impl = {} this module is the intended design. *)
(* MaskErr, WriteNone, ReadKeyNoParam describe the code BEFORE the repairs b52e15f, 0678858,      *)
(* 7127502 (an execution that needs one of them is a violation now); RegistryLeak is still true   *)
(* of the code (open finding).  They are used by Trace_RWHandler (named deviations recorded in `devs`) and by the     *)
(* MC_RWHandler_asimpl_*.cfg configurations, which must violate FreshRead / CleanWrite /          *)
(* AcceptedSound / VerdictStable; MC_RWHandler_broken_*.cfg switch on faults the code does not   *)
(* have (Breakers) and must violate PollOncePerGroup / FlagsOK (no vacuity).                     *)
EXTENDS Naturals, Sequences, FiniteSets, TLC

CONSTANTS Layouts,       \* the layouts a behaviour may start from (records with the fields of NoLay below)
          Impl           \* subset of AllDevs: deviations of the implementation that are switched on

AllDevs == {"MaskErr",        \* (repaired b52e15f) CR: a refused value of the requested key is answered with the stale value, readerror wiped
            "ReadKeyNoParam", \* (repaired 7127502) R / CR keys that are no parameter are accepted silently
            "WriteNone",      \* (repaired 0678858) W: fn returning None announces a WrongType error before the value
            "RegistryLeak"}   \* (open) a refused class definition leaves function names in the global registry
(* switches that BREAK the design (never true of the code): the properties must notice them *)
Breakers == {"X_PollAll",     \* every key of a CR group is polled
             "X_NoFreshSkip"} \* a slow round polls a parameter although it was refreshed earlier in the round

Params == <<"a", "b", "c">>
ParamSet == {"a", "b", "c"}
Mods == {"m", "n", "p"}          \* m, n: instances of the final class; p: instance of the base class
X == 99                          \* a hardware value the datatype can not convert
Cap == 2                         \* the hardware clamps written values
Clamp(v) == IF v > Cap THEN Cap ELSE v
BadReq == 9                      \* a requested value outside the datatype's range
CfgVal(k) == CASE k = "a" -> 1 [] k = "b" -> 2 [] k = "c" -> 1 [] OTHER -> 0
HwInit(k) == CASE k = "a" -> 2 [] k = "b" -> 1 [] k = "c" -> 2 [] OTHER -> 0

Range(s) == {s[i] : i \in DOMAIN s}
InSeq(x, s) == \E i \in DOMAIN s : s[i] = x

(* ------------------------------------------------------------------ declarations and layouts *)
NoDecl == [kind |-> "none", keys |-> <<>>, np |-> "no", fn |-> "", style |-> "assign", rb |-> ""]
IsHandler(d) == d.kind \in {"R", "CR", "W", "CW"}
Prefix(d) == IF d.kind \in {"R", "CR", "PR"} THEN "read" ELSE "write"
Names(d) == {<<Prefix(d), d.keys[i]>> : i \in DOMAIN d.keys}

VARIABLES lay,       \* the layout in force (NoLay before the first definition)
          phase,     \* "undef" | "refused" | "new" (classes exist, modules created) | "run" (poll threads started)
          pending,   \* function names left behind in Handler.method_names (code state; read only under RegistryLeak)
          st,        \* per module: cache, hardware, fault modes, writeDict, and the log of the last step
          last       \* input and result of the last step

vars == <<lay, phase, pending, st, last>>

NoLay == [name |-> "", cls |-> "", base |-> <<>>, sub |-> <<>>, hassub |-> FALSE, cfg |-> <<>>, im |-> <<>>, fix |-> ""]

(* ------------------------------------------------------------------ class creation *)
(* executing a class body: every handler decoration registers (cls, body, fn); a name already registered is
   refused.  Intended: only names of this very body count; code: the registry is global and entries of
   definitions that failed later on are never removed. *)
RECURSIVE Decorate(_, _, _, _, _, _)
Decorate(decls, i, tag, reg, mine, leak) ==
    IF i > Len(decls) THEN [v |-> "ok", reg |-> reg]
    ELSE IF ~IsHandler(decls[i]) THEN Decorate(decls, i + 1, tag, reg, mine, leak)
    ELSE LET key == <<tag[1], tag[2], decls[i].fn>> IN
         IF key \in mine \/ (leak /\ key \in reg) THEN [v |-> "duplicate", reg |-> reg]
         ELSE Decorate(decls, i + 1, tag, reg \cup {key}, mine \cup {key}, leak)

PlainNames(decls) == UNION {Names(decls[i]) : i \in {j \in DOMAIN decls : ~IsHandler(decls[j])}}

(* type.__new__ calls __set_name__ of every handler in definition order: the registry entry goes, the generated
   names are added unless one of them is already in the class body *)
RECURSIVE SetNames(_, _, _, _, _)
SetNames(decls, i, tag, reg, names) ==
    IF i > Len(decls) THEN [v |-> "ok", reg |-> reg, names |-> names]
    ELSE IF ~IsHandler(decls[i]) THEN SetNames(decls, i + 1, tag, reg, names)
    ELSE LET reg1 == reg \ {<<tag[1], tag[2], decls[i].fn>>} IN
         IF Names(decls[i]) \cap names # {} THEN [v |-> "superfluous", reg |-> reg1, names |-> names]
         ELSE SetNames(decls, i + 1, tag, reg1, names \cup Names(decls[i]))

(* __init_subclass__: a read_<x> / write_<x> in the class body for a name that is no parameter *)
NoParam(names, D) == \E nm \in names : /\ nm[2] \notin ParamSet
                                       /\ ("ReadKeyNoParam" \in D => nm[1] = "write")
HandlerNames(decls) == UNION {Names(decls[i]) : i \in {j \in DOMAIN decls : IsHandler(decls[j])}}

(* one class body.  reg: the registry before (ghost of the code's Handler.method_names); the result carries it on *)
Body(decls, tag, reg, D) ==
    LET d1 == Decorate(decls, 1, tag, reg, {}, "RegistryLeak" \in D) IN
    IF d1.v # "ok" THEN d1
    ELSE LET s1 == SetNames(decls, 1, tag, d1.reg, PlainNames(decls)) IN
         IF s1.v # "ok" THEN [v |-> s1.v, reg |-> s1.reg]
         \* plain methods are always examined; generated read methods only by the intended design
         ELSE IF NoParam(PlainNames(decls), {}) \/ NoParam(HandlerNames(decls), D) THEN [v |-> "noparam", reg |-> s1.reg]
         ELSE [v |-> "ok", reg |-> s1.reg]

Create(L, reg, D) ==
    LET b == Body(L.base, <<L.cls, "B">>, reg, D) IN
    IF b.v # "ok" \/ ~L.hassub THEN b
    ELSE Body(L.sub, <<L.cls, "S">>, b.reg, D)

(* ------------------------------------------------------------------ method resolution *)
Bodies(L, c) == IF c = "final" /\ L.hassub THEN <<L.sub, L.base>> ELSE <<L.base>>
ClassOf(m) == IF m = "p" THEN "base" ELSE "final"
Provides(d, pre, k) == Prefix(d) = pre /\ InSeq(k, d.keys)
FindIn(body, pre, k) ==
    IF \E i \in DOMAIN body : Provides(body[i], pre, k)
    THEN body[CHOOSE i \in DOMAIN body : Provides(body[i], pre, k)] ELSE NoDecl
Provider(L, c, pre, k) ==
    LET bs == Bodies(L, c)
        d1 == FindIn(bs[1], pre, k) IN
    IF d1.kind # "none" \/ Len(bs) = 1 THEN d1 ELSE FindIn(bs[2], pre, k)
DeclByFn(L, fn) ==
    LET all == L.base \o L.sub IN
    IF \E i \in DOMAIN all : all[i].fn = fn THEN all[CHOOSE i \in DOMAIN all : all[i].fn = fn] ELSE NoDecl
Fns(L) == {(L.base \o L.sub)[i].fn : i \in DOMAIN (L.base \o L.sub)}

PollFlag(L, c, k, D) ==
    LET d == Provider(L, c, "read", k) IN
    CASE d.kind = "none" -> FALSE
      [] d.kind \in {"PR", "R"} -> d.np = "no"
      [] d.kind = "CR" -> d.np = "no" /\ (d.keys[1] = k \/ "X_PollAll" \in D)
(* the handler objects are class attributes: Class.fn gives the handler with its keys *)
HandlerKeys(L) == [fn \in {f \in Fns(L) : IsHandler(DeclByFn(L, f))} |-> Range(DeclByFn(L, fn).keys)]
PollFlags(L) == [m \in Mods |-> [k \in ParamSet |-> PollFlag(L, ClassOf(m), k, {})]]

(* ------------------------------------------------------------------ the machine of one module *)
(* S = [cache, hw, mode, wd, calls, upd, touched]                                                 *)
NewS(L) == [cache |-> [k \in ParamSet |-> [v |-> IF InSeq(k, L.cfg) THEN CfgVal(k) ELSE 0, err |-> "none"]],
            hw |-> [k \in ParamSet |-> HwInit(k)],
            \* im: the fault modes the hardware functions are in when the modules start (pairs <<fn, mode>>)
            mode |-> [f \in Fns(L) |-> IF \E i \in DOMAIN L.im : L.im[i][1] = f
                                        THEN L.im[CHOOSE i \in DOMAIN L.im : L.im[i][1] = f][2] ELSE "ok"],
            wd |-> Range(L.cfg),
            calls |-> <<>>, upd |-> <<>>, touched |-> {}]
Clear(S) == [S EXCEPT !.calls = <<>>, !.upd = <<>>, !.touched = {}]

(* announceUpdate(k, err): a repeated error is not announced (and leaves the timestamp alone) *)
AnnErr(S, k, e) ==
    IF S.cache[k].err = e THEN S
    ELSE [S EXCEPT !.cache[k].err = e, !.upd = Append(@, [k |-> k, v |-> 0, e |-> e]), !.touched = @ \cup {k}]
(* self.k = v / announceUpdate(k, v): converted by the datatype; a refused value is a readerror, the old value stays *)
Ann(S, k, v) ==
    IF v = X THEN AnnErr(S, k, "type")
    ELSE [S EXCEPT !.cache[k] = [v |-> v, err |-> "none"],
                   !.upd = Append(@, [k |-> k, v |-> v, e |-> "none"]),
                   !.touched = @ \cup {k}]
CallRec(S, fn, k, args) == [S EXCEPT !.calls = Append(@, [fn |-> fn, k |-> k, args |-> args])]

Ok(S, v) == [s |-> S, r |-> [ok |-> TRUE, v |-> v, e |-> "none"]]
Fail(S, e) == [s |-> S, r |-> [ok |-> FALSE, v |-> 0, e |-> e]]
NoRes == [ok |-> TRUE, v |-> 0, e |-> "none"]

(* the hardware function of a CR group assigns every key of the group from the hardware, in key order *)
RECURSIVE AssignAll(_, _, _)
AssignAll(S, ks, i) ==
    IF i > Len(ks) THEN S
    ELSE AssignAll(IF ks[i] \in ParamSet THEN Ann(S, ks[i], S.hw[ks[i]]) ELSE S, ks, i + 1)

(* body of a CR function (called by a generated read method, by a CW function, or by the driver) *)
RunCR(S, d) ==
    LET S0 == CallRec(S, d.fn, "*", <<>>)
        md == S.mode[d.fn] IN
    CASE md = "secop" -> [s |-> S0, exc |-> "hw", ret |-> 0]
      [] md = "comm"  -> [s |-> S0, exc |-> "comm", ret |-> 0]
      [] md = "plain" -> [s |-> S0, exc |-> "int", ret |-> 0]
      [] md = "part"  -> [s |-> IF d.keys[1] \in ParamSet THEN Ann(S0, d.keys[1], S0.hw[d.keys[1]]) ELSE S0,
                          exc |-> "hw", ret |-> 0]
      [] md = "ret"   -> [s |-> AssignAll(S0, d.keys, 1), exc |-> "none", ret |-> 1]
      [] md = "ok"    -> [s |-> AssignAll(S0, d.keys, 1), exc |-> "none", ret |-> 0]

(* the wrapped read_k of class c (modulebase.py:126-145 around the method generated by the handler) *)
ReadR(S, d, k) ==
    LET S0 == CallRec(S, d.fn, k, <<>>)
        md == S.mode[d.fn]
        v == S.hw[k] IN
    CASE md = "secop" -> Fail(AnnErr(S0, k, "hw"), "hw")
      [] md = "comm" -> Fail(AnnErr(S0, k, "comm"), "comm")
      [] md = "plain" -> Fail(AnnErr(S0, k, "int"), "int")
      [] md = "ok" -> IF v = X THEN Fail(Ann(S0, k, v), "type") ELSE Ok(Ann(Ann(S0, k, v), k, v), v)
ReadPR(S, d, k) ==
    LET S0 == CallRec(S, d.fn, k, <<>>)
        md == S.mode[d.fn]
        v == S.hw[k]
        S1 == Ann(S0, k, v) IN
    CASE md = "secop" -> Fail(AnnErr(S0, k, "hw"), "hw")
      [] md = "comm" -> Fail(AnnErr(S0, k, "comm"), "comm")
      [] md = "ok" -> IF v = X THEN Fail(S1, "type") ELSE Ok(S1, v)
      \* "the setter is triggered already": the method assigns and returns Done
      [] md = "done" -> Ok(S1, S1.cache[k].v)
ReadCR(S, d, k, D) ==
    LET q == RunCR(S, d)
        v == q.s.cache[k].v IN
    IF q.exc # "none" THEN Fail(AnnErr(q.s, k, q.exc), q.exc)
    ELSE IF q.ret = 1 THEN Fail(AnnErr(q.s, k, "prog"), "prog")
    ELSE IF q.s.cache[k].err # "none" /\ "MaskErr" \notin D THEN Fail(q.s, q.s.cache[k].err)
    ELSE Ok(Ann(q.s, k, v), v)
ReadVia(L, c, S, k, D) ==
    LET d == Provider(L, c, "read", k) IN
    CASE d.kind = "none" -> Ok(S, S.cache[k].v)              \* no read method: the cached value
      [] d.kind = "R" -> ReadR(S, d, k)
      [] d.kind = "PR" -> ReadPR(S, d, k)
      [] d.kind = "CR" -> ReadCR(S, d, k, D)

RECURSIVE SetHw(_, _, _, _)
SetHw(S, ks, vals, i) ==
    IF i > Len(ks) THEN S
    ELSE SetHw(IF ks[i] \in ParamSet THEN [S EXCEPT !.hw[ks[i]] = Clamp(vals[i])] ELSE S, ks, vals, i + 1)

(* the wrapped write_k (modulebase.py:179-199 around the generated method); v is valid for the datatype *)
WriteW(S, d, k, v, D) ==
    LET S0 == CallRec(S, d.fn, k, <<v>>)
        md == S.mode[d.fn]
        S1 == [S0 EXCEPT !.hw[k] = Clamp(v)]
        r == Clamp(v) IN
    CASE md = "secop" -> Fail(S0, "hw")
      [] md = "comm" -> Fail(S0, "comm")
      [] md = "plain" -> Fail(S0, "int")
      [] md = "ok" -> Ok(Ann(Ann(S1, k, r), k, r), r)
      \* fn returns nothing: the value asked for is taken
      [] md = "none" -> IF "WriteNone" \in D THEN Ok(Ann(AnnErr(S1, k, "typeNone"), k, v), v)
                        ELSE Ok(Ann(S1, k, v), v)
WritePW(S, d, k, v) ==
    LET S0 == CallRec(S, d.fn, k, <<v>>)
        md == S.mode[d.fn]
        S1 == [S0 EXCEPT !.hw[k] = Clamp(v)]
        r == Clamp(v)
        S2 == Ann(S1, k, r) IN
    CASE md = "secop" -> Fail(S0, "hw")
      [] md = "ok" -> Ok(S2, r)
      [] md = "none" -> Ok(Ann(S1, k, v), v)
      [] md = "done" -> Ok(S2, S2.cache[k].v)
WriteCW(L, S, d, k, v) ==
    LET ks == d.keys
        \* WriteParameters: the new value, else the value waiting in writeDict (taken out), else the parameter
        vals == [i \in DOMAIN ks |-> IF ks[i] = k THEN v
                                     ELSE IF ks[i] \in S.wd THEN CfgVal(ks[i]) ELSE S.cache[ks[i]].v]
        S0 == CallRec([S EXCEPT !.wd = @ \ (Range(ks) \ {k})], d.fn, "*", vals)
        md == S.mode[d.fn]
        S1 == SetHw(S0, ks, vals, 1)
        q == IF d.style = "rb" THEN RunCR(S1, DeclByFn(L, d.rb))
             ELSE [s |-> AssignAll(S1, ks, 1), exc |-> "none", ret |-> 0]
        S3 == [q.s EXCEPT !.wd = @ \ {k}]
        v2 == S3.cache[k].v IN
    CASE md = "secop" -> Fail(S0, "hw")
      [] md = "comm" -> Fail(S0, "comm")
      [] md = "plain" -> Fail(S0, "int")
      [] md \in {"ok", "ret"} ->
           IF q.exc # "none" THEN Fail(q.s, q.exc)
           ELSE IF md = "ret" THEN Fail(q.s, "prog")
           ELSE Ok(Ann(S3, k, v2), v2)
WriteVia(L, c, S, k, v, D) ==
    LET d == Provider(L, c, "write", k) IN
    CASE d.kind = "none" -> Ok(Ann(S, k, v), v)               \* no write method: the value is stored
      [] d.kind = "W" -> WriteW(S, d, k, v, D)
      [] d.kind = "PW" -> WritePW(S, d, k, v)
      [] d.kind = "CW" -> WriteCW(L, S, d, k, v)

(* start-up writes (writeInitParams): every value still in writeDict, in parameter order; errors are logged *)
RECURSIVE InitWrites(_, _, _, _, _)
InitWrites(L, c, S, i, D) ==
    IF i > Len(Params) THEN S
    ELSE LET k == Params[i] IN
         InitWrites(L, c, IF k \in S.wd THEN WriteVia(L, c, [S EXCEPT !.wd = @ \ {k}], k, CfgVal(k), D).s ELSE S, i + 1, D)

(* one round over the polled read methods in parameter order.  fresh = TRUE (slow round): a parameter refreshed
   earlier in this round is skipped.  fresh = FALSE (first round after start-up): every polled method is called, but
   a communication failure that is reported for the first time ends the round (modulebase.py:766-781) *)
RECURSIVE PollFrom(_, _, _, _, _, _)
PollFrom(L, c, S, i, fresh, D) ==
    IF i > Len(Params) THEN S
    ELSE LET k == Params[i]
             due == PollFlag(L, c, k, D) /\ ~(fresh /\ k \in S.touched /\ "X_NoFreshSkip" \notin D)
             q == ReadVia(L, c, S, k, D) IN
         IF ~due THEN PollFrom(L, c, S, i + 1, fresh, D)
         ELSE IF ~fresh /\ ~q.r.ok /\ q.r.e = "comm" /\ S.cache[k].err # "comm" THEN q.s
         ELSE PollFrom(L, c, q.s, i + 1, fresh, D)

(* ------------------------------------------------------------------ actions *)
Init == /\ lay = NoLay /\ phase = "undef" /\ pending = {} /\ st = [m \in Mods |-> NewS(NoLay)]
        /\ last = [act |-> "none", mod |-> "", key |-> "", verdict |-> "", res |-> NoRes]

Others(m, S) == [x \in Mods |-> IF x = m THEN S ELSE Clear(st[x])]

(* class statement(s) of layout L, then three module instances *)
Define(L, D) ==
    /\ phase \in {"undef", "refused"}
    /\ LET cr == Create(L, pending, D) IN
       /\ pending' = cr.reg
       /\ lay' = L
       /\ phase' = IF cr.v = "ok" THEN "new" ELSE "refused"
       /\ st' = [m \in Mods |-> NewS(L)]
       /\ last' = [act |-> "define", mod |-> "", key |-> "", verdict |-> cr.v, res |-> NoRes]

(* startModule of every module: start-up writes, then every polled read method once *)
StartOne(L, m, D) == PollFrom(L, ClassOf(m), InitWrites(L, ClassOf(m), Clear(st[m]), 1, D), 1, FALSE, D)
Start(D) ==
    /\ phase = "new"
    /\ phase' = "run"
    /\ st' = [m \in Mods |-> StartOne(lay, m, D)]
    /\ last' = [act |-> "start", mod |-> "", key |-> "", verdict |-> "", res |-> NoRes]
    /\ UNCHANGED <<lay, pending>>

Step(m, act, key, q) ==
    /\ st' = Others(m, q.s)
    /\ last' = [act |-> act, mod |-> m, key |-> key, verdict |-> "", res |-> q.r]
    /\ UNCHANGED <<lay, phase, pending>>

ModesOf(kind) == CASE kind = "R" -> {"ok", "secop", "comm", "plain"}
                   [] kind = "CR" -> {"ok", "secop", "comm", "plain", "ret", "part"}
                   [] kind = "W" -> {"ok", "none", "secop", "comm", "plain"}
                   [] kind = "CW" -> {"ok", "secop", "comm", "plain", "ret"}
                   [] kind = "PR" -> {"ok", "secop", "comm", "done"}
                   [] kind = "PW" -> {"ok", "none", "secop", "done"}
                   [] OTHER -> {}

(* an input is a record [act, key, val, fn, mode]; what it does to module m (S = Clear(st[m])): *)
In(act, key, val, fn, mode) == [act |-> act, key |-> key, val |-> val, fn |-> fn, mode |-> mode]
Guard(m, a) ==
    CASE a.act \in {"read", "change", "assign", "hwset"} -> a.key \in ParamSet
      [] a.act = "poll" -> TRUE
      \* the driver calls the common read function itself: self.fn() (Handler.__get__)
      [] a.act = "callcommon" -> /\ DeclByFn(lay, a.fn).kind = "CR"
                                 /\ (ClassOf(m) = "base" => \E i \in DOMAIN lay.base : lay.base[i].fn = a.fn)
      [] a.act = "setmode" -> a.fn \in Fns(lay) /\ a.mode \in ModesOf(DeclByFn(lay, a.fn).kind) /\ st[m].mode[a.fn] # a.mode
Outcome(m, a, D) ==
    LET S == Clear(st[m])
        c == ClassOf(m) IN
    \* a read request (through the dispatcher or by calling m.read_k())
    CASE a.act = "read" -> ReadVia(lay, c, S, a.key, D)
      \* a change request: the dispatcher refuses a value outside the range before the driver sees it
      [] a.act = "change" -> IF a.val = BadReq THEN Fail(S, "range") ELSE WriteVia(lay, c, S, a.key, a.val, D)
      \* a slow poll round of the module's poll thread
      [] a.act = "poll" -> [s |-> PollFrom(lay, c, S, 1, TRUE, D), r |-> NoRes]
      \* the driver assigns self.k = v
      [] a.act = "assign" -> [s |-> Ann(S, a.key, a.val), r |-> NoRes]
      [] a.act = "callcommon" -> (LET q == RunCR(S, DeclByFn(lay, a.fn)) IN
                                  IF q.exc = "none" THEN [s |-> q.s, r |-> NoRes] ELSE Fail(q.s, q.exc))
      \* environment: the hardware value changes, a hardware function starts / stops failing
      [] a.act = "hwset" -> [s |-> [S EXCEPT !.hw[a.key] = a.val], r |-> NoRes]
      [] a.act = "setmode" -> [s |-> [S EXCEPT !.mode[a.fn] = a.mode], r |-> NoRes]
(* requests are served as soon as the modules exist (before the poll threads are started); poll rounds need the thread *)
Act(m, a, D) ==
    /\ phase = "run" \/ (phase = "new" /\ a.act # "poll")
    /\ Guard(m, a)
    /\ Step(m, a.act, IF a.act \in {"callcommon", "setmode"} THEN a.fn ELSE a.key, Outcome(m, a, D))

Read(m, k, D) == Act(m, In("read", k, 0, "", ""), D)
Change(m, k, v, D) == Act(m, In("change", k, v, "", ""), D)
Poll(m, D) == Act(m, In("poll", "", 0, "", ""), D)
Assign(m, k, v) == Act(m, In("assign", k, v, "", ""), {})
CallCommon(m, fn) == Act(m, In("callcommon", "", 0, fn, ""), {})
HwSet(m, k, v) == Act(m, In("hwset", k, v, "", ""), {})
SetMode(m, fn, md) == Act(m, In("setmode", "", 0, fn, md), {})

ReqVals == {1, 3, BadReq}
HwVals == {0, 1, X}
Next ==
    \/ \E L \in Layouts : Define(L, Impl)
    \/ Start(Impl)
    \/ \E m \in Mods :
         \/ \E k \in ParamSet : Read(m, k, Impl) \/ (\E v \in ReqVals : Change(m, k, v, Impl))
                                \/ (\E v \in {2, X} : Assign(m, k, v)) \/ (\E v \in HwVals : HwSet(m, k, v))
         \/ Poll(m, Impl)
         \/ \E fn \in Fns(lay) : CallCommon(m, fn) \/ \E md \in ModesOf(DeclByFn(lay, fn).kind) : SetMode(m, fn, md)
Spec == Init /\ [][Next]_vars

(* ------------------------------------------------------------------ properties of the design *)
CallsOf(S, fn) == Cardinality({i \in DOMAIN S.calls : S.calls[i].fn = fn})
Acting == last.mod
RdProv(m, k) == Provider(lay, ClassOf(m), "read", k)
WrProv(m, k) == Provider(lay, ClassOf(m), "write", k)
Running == phase \in {"new", "run"} /\ Acting \in Mods
NCalls(S) == Len(S.calls)

TypeOK == /\ phase \in {"undef", "refused", "new", "run"}
          /\ \A m \in Mods : \A k \in ParamSet : st[m].cache[k].v \in 0 .. 3

(* a read request is served by exactly one hardware call (none when the parameter has no read method) *)
OneCallPerRead ==
    (Running /\ last.act = "read") =>
        NCalls(st[Acting]) <= 1 /\ \A x \in Mods \ {Acting} : NCalls(st[x]) = 0
(* a successful read through a handler returns what the hardware holds, and the cache agrees: in particular a
   hardware value the datatype refuses is never answered with a (stale) value *)
FreshRead ==
    (Running /\ last.act = "read" /\ last.res.ok /\ RdProv(Acting, last.key).kind \in {"R", "CR"}) =>
        /\ st[Acting].hw[last.key] # X
        /\ last.res.v = st[Acting].hw[last.key]
        /\ st[Acting].cache[last.key] = [v |-> last.res.v, err |-> "none"]
(* a failed read leaves its error in the cache of the requested key *)
ReadErrorReported ==
    (Running /\ last.act = "read" /\ ~last.res.ok) => st[Acting].cache[last.key].err = last.res.e
(* after a successful read through a CR handler the whole group is fresh *)
GroupFresh ==
    (Running /\ last.act = "read" /\ last.res.ok /\ RdProv(Acting, last.key).kind = "CR") =>
        \A j \in Range(RdProv(Acting, last.key).keys) \cap ParamSet :
            st[Acting].cache[j] = IF st[Acting].hw[j] = X THEN [v |-> st[Acting].cache[j].v, err |-> "type"]
                                  ELSE [v |-> st[Acting].hw[j], err |-> "none"]
(* one round of the poller: at most one call per handler function of a CR group, one per polled key of an R group *)
PollOncePerGroup ==
    (Running /\ last.act = "poll") =>
        \A fn \in Fns(lay) : DeclByFn(lay, fn).kind = "CR" => CallsOf(st[Acting], fn) <= 1
PollCount ==
    (Running /\ last.act = "poll") =>
        NCalls(st[Acting]) <= Cardinality({k \in ParamSet : PollFlag(lay, ClassOf(Acting), k, Impl)})
(* a change is served by one call of the write function (plus the read-back the function itself makes) *)
OneCallPerChange ==
    (Running /\ last.act = "change") =>
        \A fn \in Fns(lay) : DeclByFn(lay, fn).kind \in {"W", "CW", "PW"} => CallsOf(st[Acting], fn) <= 1
(* a change never announces an error state of a parameter unless the read-back failed *)
CleanWrite ==
    (Running /\ last.act = "change" /\ last.res.ok) =>
        \A i \in DOMAIN st[Acting].upd : st[Acting].upd[i].e \in {"none", "type"}
(* frame: a change of k touches only keys of the group that serves k (and of the group read back) *)
WriteFrame ==
    (Running /\ last.act = "change") =>
        LET d == WrProv(Acting, last.key)
            grp == IF d.kind = "CW" THEN Range(d.keys) \cup (IF d.style = "rb" THEN Range(DeclByFn(lay, d.rb).keys) ELSE {})
                   ELSE {last.key} IN
        \A i \in DOMAIN st[Acting].upd : st[Acting].upd[i].k \in grp
(* isolation: only the module addressed has calls and updates *)
Isolation == Running => \A x \in Mods \ {Acting} : st[x].calls = <<>> /\ st[x].upd = <<>>
(* after start-up nothing waits in writeDict and every CW function was called at most once *)
InitOnce ==
    (phase = "run" /\ last.act = "start") =>
        \A m \in Mods : /\ st[m].wd = {}
                        /\ \A fn \in Fns(lay) : DeclByFn(lay, fn).kind = "CW" => CallsOf(st[m], fn) <= 1
(* poll flags: of a CR group at most one key is polled; nopoll means no key *)
FlagsOK ==
    phase \in {"new", "run"} =>
        \A m \in Mods : \A fn \in Fns(lay) :
            LET d == DeclByFn(lay, fn)
                mine == {k \in ParamSet : RdProv(m, k).fn = fn} IN
            /\ d.kind = "CR" => Cardinality({k \in mine : PollFlag(lay, ClassOf(m), k, Impl)}) <= 1
            /\ d.np # "no" => \A k \in mine : ~PollFlag(lay, ClassOf(m), k, Impl)
(* accepted classes claim every key at most once per body and only parameters *)
AcceptedSound ==
    phase \in {"new", "run"} =>
        \A body \in {lay.base, lay.sub} :
            /\ \A i, j \in DOMAIN body : (i # j /\ Prefix(body[i]) = Prefix(body[j])) => Range(body[i].keys) \cap Range(body[j].keys) = {}
            /\ \A i \in DOMAIN body : Range(body[i].keys) \subseteq ParamSet
=============================================================================
