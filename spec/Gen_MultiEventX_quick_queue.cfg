SPECIFICATION GSpec
CONSTANTS
  Threads = {"main", "w1", "w2"}
  Inf = 1000000
  Slack = 0
  Ids <- Ids2
  ActIds <- Acts3
  RaisingActs = {"a2"}
  NewTimeouts = {0}
  NewNames = {""}
  DefNames = {}
  WaitTimeouts = {1000000}
  Dto = 1000000
  Waiters = {"w1"}
  Depth = 6
  MaxTicks = 0
  MaxClears = 1
  MaxWaits = 1
  MaxDirect = 1
  MaxSetNames = 0
INVARIANT Emit
INVARIANT GenInv
CHECK_DEADLOCK FALSE
