--------------------------- MODULE Trace_Datatypes ---------------------------
(* code -> spec: records of executions of the real datatypes are judged against   *)
(* the oracle of Datatypes.  A trace is a sequence of records; record kinds:       *)
(*   case  [dt, c, p, path, out]      out must be in Val(dt, c, p, path)           *)
(* One JVM judges a whole batch; a rejection names the violated clause.            *)
EXTENDS Datatypes, Json, IOUtils, TLCExt, SequencesExt
Traces == JsonDeserialize(IOEnv.TRACE_FILE)
NT == Len(Traces)
VARIABLES t, l
ASSUME \A i \in 1 .. NT : TLCSet(i, 1)

(* the clause of the property a recorded outcome breaks ("ok" when it is allowed) *)
CaseClause(e) ==
    LET A == Val(e.dt, e.c, e.p, e.path)
        o == e.out IN
    IF o \in A THEN "ok"
    ELSE IF ~o.ok /\ o.e \notin {"WrongType", "RangeError"} THEN "total"         \* some other exception
    ELSE IF o.ok /\ OkVals(A) = {} THEN "accepts-invalid"                         \* out of set / reinterpreted
    ELSE IF o.ok THEN "wrong-result"                                              \* does not denote what was offered
    ELSE IF ErrsOf(A) = {} THEN "rejects-valid"
    ELSE "error-class"

Clause(e) == CASE e.kind = "case" -> CaseClause(e)
               [] OTHER -> "unknown record kind"

TInit == t \in 1 .. NT /\ l = 1 /\ dt = Traces[t][1].dt
TStep == /\ l <= Len(Traces[t])
         /\ Clause(Traces[t][l]) = "ok"
         /\ l' = l + 1 /\ t' = t
         /\ dt' = IF l < Len(Traces[t]) THEN Traces[t][l + 1].dt ELSE dt
TSpec == TInit /\ [][TStep]_<<dt, t, l>>

Track == TLCSet(t, IF l > TLCGet(t) THEN l ELSE TLCGet(t))
Verdicts == \A i \in 1 .. NT :
   IF TLCGet(i) = Len(Traces[i]) + 1 THEN PrintT(<<"ACCEPT", i>>)
   ELSE PrintT(<<"REJECT", i, TLCGet(i), Clause(Traces[i][TLCGet(i)])>>)
=============================================================================
