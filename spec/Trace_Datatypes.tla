--------------------------- MODULE Trace_Datatypes ---------------------------
(* code -> spec: records of executions of the real datatypes are judged against   *)
(* the oracle of Datatypes.  A trace is a sequence of records; record kinds:       *)
(*   case  [dt, c, p, path, out]      out must be in Val(dt, c, p, path)           *)
(*   rt.export / rt.wire / rt.text / rt.client  [dt, v, ...]  C02 laws on a value   *)
(*   rt.exec [dt (command), a, r, ga, gr]   C02 law on a command call                *)
(*   compat [a, b, passes]   equiv [dt, d1, d2, d2x, d3, probes]   alias [dt, before, after]   C03 *)
(* One JVM judges a whole batch; a rejection names the violated clause.            *)
EXTENDS Datatypes, Json, IOUtils, TLCExt, SequencesExt
Traces == JsonDeserialize(IOEnv.TRACE_FILE)
NT == Len(Traces)
VARIABLES t, l
ASSUME \A i \in 1 .. NT : TLCSet(i, 1)

(* the clause of the property a recorded outcome breaks ("ok" when it is allowed) *)
CaseClause(e) ==
    LET A == Val(e.dt, e.c, e.p, e.path)
        o == e.out IN
    IF o \in A THEN "ok"
    ELSE IF ~o.ok /\ o.e \notin {"WrongType", "RangeError"} THEN "total"         \* some other exception
    ELSE IF o.ok /\ OkVals(A) = {} THEN "accepts-invalid"                         \* out of set / reinterpreted
    ELSE IF o.ok THEN "wrong-result"                                              \* does not denote what was offered
    ELSE IF ErrsOf(A) = {} THEN "rejects-valid"
    ELSE "error-class"

(* C02 records: one value v of the value set of dt and what the real code made of it *)
ExportClause(e) ==           \* j = json.loads(json.dumps(export_value(v), allow_nan=False)) or "notstrict"
    IF e.j.j = "raised" THEN "export.raises"
    ELSE IF e.j.j = "notstrict" THEN "export.strict"
    ELSE IF ~KindOK(e.dt, e.j) THEN "export.kind"
    ELSE IF e.j # Export(e.dt, e.v) THEN "export.value"
    ELSE "ok"
WireClause(e) ==             \* v1 / v2 = import_value + validate of j on the server / the rebuilt type
    IF e.v1 # Ok(e.v) THEN "wire.roundtrip"
    ELSE IF e.v2 # Ok(e.v) THEN "wire.roundtrip.rebuilt"
    ELSE "ok"
TextClause(e) ==             \* t1 = to_string(v), v3 = from_string(t1), t2 = to_string(v3)
    IF ~e.ts THEN "text.to_string"
    ELSE IF ~e.v3.ok THEN "text.accepted"
    ELSE IF ~e.t2same THEN "text.stable"
    ELSE IF ~EqModFloat(e.dt, e.v, e.v3.v) THEN "text.value"
    ELSE "ok"
ClientClause(e) ==           \* str(CacheItem) -> client from_string -> sent data -> server import + validate
    IF e.cw # Ok(e.v) THEN "client.set-parameter"                  \* setParameter(value) -> sent data -> server import + validate
    ELSE IF ~e.cs.ok /\ e.cs.e = "RangeError" /\ HasFloat(e.dt) THEN "ok"    \* the rounded text of a float at its limit: not decided
    ELSE IF ~e.cs.ok \/ ~e.cssame THEN "text.client-set"
    ELSE IF ~EqModFloat(e.dt, e.v, e.cs.v) THEN "text.client-set.value"
    ELSE "ok"
ExecClause(e) ==             \* one real SecopClient.execCommand against a node stand-in: ga = what the driver received, gr = what the caller got
    IF e.dt.k # "command" THEN "machinery: not a command"
    ELSE IF e.dt.arg.k # "none" /\ ~InSet(e.dt.arg, e.a, TRUE) THEN "machinery: argument outside the value set"
    ELSE IF e.dt.res.k # "none" /\ ~InSet(e.dt.res, e.r, TRUE) THEN "machinery: result outside the value set"
    ELSE IF e.ga # Ok(e.a) THEN "client.exec-command.argument"
    ELSE IF e.gr # Ok(e.r) THEN "client.exec-command.result"
    ELSE "ok"
RtGuard(e, c) == IF InSet(e.dt, e.v, TRUE) THEN c ELSE "machinery: value outside the value set"

(* C03 records *)
CompatClause(e) ==           \* passes = a.compatible(b) returned without an exception
    IF e.passes \in AllowedPass(e.a, e.b) THEN "ok"
    ELSE IF e.passes THEN "compat.unsound"              \* some value valid for a is not valid for b
    ELSE "compat.refuses-supported"
EquivClause(e) ==            \* d1 / d2 / d2x / d3: datainfo of the type, of the rebuilt type (also with an unknown key), of the copy
    IF e.d1.j # "obj" THEN "describe.raises"
    ELSE IF Rebuild(e.d1) # Canon(e.dt) THEN "describe.denotes"      \* (TextType is described as string, LimitsType as tuple)
    ELSE IF e.d2 # e.d1 THEN "rebuild.datainfo"
    ELSE IF e.d2x # e.d1 THEN "rebuild.ignore-unknown"
    ELSE IF e.d3 # e.d1 THEN "copy.datainfo"
    ELSE IF e.probes # <<>> THEN "equiv.probe"           \* a candidate treated differently by original / rebuilt / copy
    ELSE "ok"
AliasClause(e) ==            \* datainfo of the original before / after every mutable part of its copy was changed
    IF e.after # e.before THEN "copy.shared-state" ELSE "ok"

Clause(e) == CASE e.kind = "case" -> CaseClause(e)
               [] e.kind = "compat" -> CompatClause(e)
               [] e.kind = "equiv" -> EquivClause(e)
               [] e.kind = "alias" -> AliasClause(e)
               [] e.kind = "rt.export" -> RtGuard(e, ExportClause(e))
               [] e.kind = "rt.wire" -> RtGuard(e, WireClause(e))
               [] e.kind = "rt.text" -> RtGuard(e, TextClause(e))
               [] e.kind = "rt.client" -> RtGuard(e, ClientClause(e))
               [] e.kind = "rt.exec" -> ExecClause(e)
               [] OTHER -> "unknown record kind"

RecDt(e) == IF "dt" \in DOMAIN e THEN e.dt ELSE e.a
TInit == t \in 1 .. NT /\ l = 1 /\ dt = RecDt(Traces[t][1])
TStep == /\ l <= Len(Traces[t])
         /\ Clause(Traces[t][l]) = "ok"
         /\ l' = l + 1 /\ t' = t
         /\ dt' = IF l < Len(Traces[t]) THEN RecDt(Traces[t][l + 1]) ELSE dt
TSpec == TInit /\ [][TStep]_<<dt, t, l>>

Track == TLCSet(t, IF l > TLCGet(t) THEN l ELSE TLCGet(t))
Verdicts == \A i \in 1 .. NT :
   IF TLCGet(i) = Len(Traces[i]) + 1 THEN PrintT(<<"ACCEPT", i>>)
   ELSE PrintT(<<"REJECT", i, TLCGet(i), Clause(Traces[i][TLCGet(i)])>>)
=============================================================================
