SPECIFICATION Spec
CONSTANTS
  Threads = {"t1", "t2"}
  Params = {"p1"}
  Vals = {"a", "b"}
  Errs = {"e1"}
  Conns = {"c1", "c2"}
  MaxOps = 3
  Omit = 2
  MaxNow = 2
  OpKinds = {"read", "write", "assign", "annerr"}
  UseLock = TRUE
INVARIANT StreamReconstructs
INVARIANT Ordered
INVARIANT Complete
INVARIANT NotifyUnderLock
INVARIANT RecoveryAnnounced
INVARIANT StampsOrdered
CHECK_DEADLOCK TRUE
