--------------------------- MODULE Gen_LinkedControl ---------------------------
(* spec -> code: operation sequences of LinkedControl for every layout:         *)
(* one output with 1..3 controllers to depth Depth, two outputs with 1..2       *)
(* controllers each to depth Depth2                                             *)
EXTENDS LinkedControl, Json, Sequences
CONSTANTS Depth, Depth2,
          Upd,     \* controllers whose driver calls update_target
          UpdAny,  \* FALSE: only the module in control calls update_target (the documented use)
          FC,      \* controllers whose take-over is also tried with a failing hook ("off" and "on")
          FO       \* outputs whose switch to manual mode is also tried with a failing hook ("off")
VARIABLE hist

Obs == [active |-> active', cby |-> cby', foreign |-> foreign']
Rec(a) == hist' = Append(hist, a @@ [exp |-> Obs])

GInit == /\ CInit
         /\ (FC = {} /\ FO = {}) => exc = "hardware"      \* without faults nothing is raised
         /\ hist = <<[act |-> "init", lay |-> lay, exc |-> exc, exp |-> [active |-> active, cby |-> cby, foreign |-> foreign]]>>
GNext == \/ \E c \in Ctls : TakeOver(c, "none") /\ Rec([act |-> "take", c |-> c, f |-> "none"])
         \/ \E c \in FC, f \in {"off", "on"} : TakeOver(c, f) /\ Rec([act |-> "take", c |-> c, f |-> f])
         \/ \E o \in FO : SelfControl(o, "off") /\ Rec([act |-> "self", o |-> o, f |-> "off"])
         \/ \E c \in Upd : (UpdAny \/ cby[OutOf(c)] = c) /\ UpdateTarget(c) /\ Rec([act |-> "upd", c |-> c])
         \/ \E o \in Outs : SelfControl(o, "none") /\ Rec([act |-> "self", o |-> o, f |-> "none"])
GSpec == GInit /\ [][GNext]_<<cvars, hist>>

D == IF lay % 10 = 0 THEN Depth ELSE Depth2
Bound == TLCGet("level") <= D
Emit1 == (TLCGet("level") = D + 1) => PrintT(<<"BEH", ToJson(hist)>>)
=============================================================================
