--------------------------- MODULE Gen_LinkedControl ---------------------------
(* spec -> code: operation sequences of LinkedControl for groups of 1..3 controllers *)
EXTENDS LinkedControl, Json, Sequences
CONSTANTS Depth,
          Upd,     \* controllers whose driver calls update_target
          UpdAny   \* FALSE: only the module in control calls update_target (the documented use)
VARIABLE hist

Obs == [active |-> active', cby |-> cby']
Rec(a) == hist' = Append(hist, a @@ [exp |-> Obs])

GInit == /\ CInit
         /\ hist = <<[act |-> "init", n |-> n, exp |-> [active |-> active, cby |-> cby]]>>
GNext == \/ \E c \in Ctls : TakeOver(c) /\ Rec([act |-> "take", c |-> c])
         \/ \E c \in Upd : (UpdAny \/ cby = c) /\ UpdateTarget(c) /\ Rec([act |-> "upd", c |-> c])
         \/ SelfControl /\ Rec([act |-> "self"])
GSpec == GInit /\ [][GNext]_<<cvars, hist>>

Bound == TLCGet("level") <= Depth
Emit1 == (TLCGet("level") = Depth + 1) => PrintT(<<"BEH", ToJson(hist)>>)
=============================================================================
