--------------------------- MODULE Gen_LinkedControl ---------------------------
(* spec -> code: operation sequences of LinkedControl for every layout:         *)
(* one output with 1..3 controllers to depth Depth, two outputs with 1..2       *)
(* controllers each to depth Depth2                                             *)
EXTENDS LinkedControl, Json, Sequences
CONSTANTS Depth, Depth2,
          Upd,     \* controllers whose driver calls update_target
          UpdAny   \* FALSE: only the module in control calls update_target (the documented use)
VARIABLE hist

Obs == [active |-> active', cby |-> cby', foreign |-> foreign']
Rec(a) == hist' = Append(hist, a @@ [exp |-> Obs])

GInit == /\ CInit
         /\ hist = <<[act |-> "init", lay |-> lay, exp |-> [active |-> active, cby |-> cby, foreign |-> foreign]]>>
GNext == \/ \E c \in Ctls : TakeOver(c) /\ Rec([act |-> "take", c |-> c])
         \/ \E c \in Upd : (UpdAny \/ cby[OutOf(c)] = c) /\ UpdateTarget(c) /\ Rec([act |-> "upd", c |-> c])
         \/ \E o \in Outs : SelfControl(o) /\ Rec([act |-> "self", o |-> o])
GSpec == GInit /\ [][GNext]_<<cvars, hist>>

D == IF lay % 10 = 0 THEN Depth ELSE Depth2
Bound == TLCGet("level") <= D
Emit1 == (TLCGet("level") = D + 1) => PrintT(<<"BEH", ToJson(hist)>>)
=============================================================================
