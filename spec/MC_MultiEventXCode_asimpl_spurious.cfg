SPECIFICATION Spec
CONSTANTS
  Threads = {"a", "b", "w"}
  Script <- Scen_server
  InitEv <- Init_server
  MaxTime = 3
  Inf = 99
  RaisingActs = {}
  FixLock = FALSE
  FixInit = TRUE
  FixIsSet = TRUE
  DetTime = FALSE
  Locked = TRUE
PROPERTY WaitFalseNotEarly
CHECK_DEADLOCK FALSE
