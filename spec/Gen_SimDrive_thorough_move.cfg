SPECIFICATION GSpec
CONSTANTS
  Vals = {0, 16, 48}
  Ramps = {0, 16, 24}
  Jitters = {0}
  Shapes = {"ramp", "none"}
  StartHv = {16}
  StartTarget = {16, 48}
  Depth = 7
  MaxTargets = 2
  MaxStops = 1
  MaxRamps = 0
  MaxReads = 0
  MaxX = 0
CONSTRAINT Bound
ACTION_CONSTRAINT Canon
INVARIANT Emit1
CHECK_DEADLOCK FALSE
