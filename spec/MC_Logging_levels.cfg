SPECIFICATION RSpec
CONSTANTS
  Conns = {"c1", "c2"}
  Mods = {"m1", "m2"}
  Used = {"debug", "comlog", "info", "warning", "error", "off"}
INVARIANT TypeOK
INVARIANT DeadSilent
INVARIANT ExactRouting
PROPERTY Isolation
PROPERTY ResetClears
CHECK_DEADLOCK FALSE
