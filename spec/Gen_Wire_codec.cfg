SPECIFICATION GKSpec
CONSTANTS
  MaxLen = 0
  ReadSize = 1
  Classes = {"idn"}
  MaxPend = 1
  Threads = {"req"}
  UseLock = TRUE
  CheckRunning = TRUE
  Depth = 0
  FullDepth = 0
  WideDepth = 0
  Wide = {}
  Pauses = FALSE
  Core = {}
INVARIANT EmitK
CHECK_DEADLOCK FALSE
