SPECIFICATION GKSpec
CONSTANTS
  MaxLen = 0
  Classes = {"idn"}
  MaxPend = 1
  Threads = {"req"}
  UseLock = TRUE
  CheckRunning = TRUE
  Depth = 0
  FullDepth = 0
  WideDepth = 0
  Wide = {}
  Core = {}
INVARIANT EmitK
CHECK_DEADLOCK FALSE
