SPECIFICATION GSpecBoot
CONSTANTS
  Conns = {"c1", "c2"}
  Mods = {"m1", "m2"}
  Used = {"comlog", "info", "off"}
  ComMods = {"m1"}
  Configs <- CfgDaysFull
  MaxDay = 4
  Acts = {"logging", "emit", "mainemit", "comlog", "nextday", "reinit", "ident", "disconnect"}
  InitLevels = {99}
  Depth = 8
INVARIANT Emit1
CHECK_DEADLOCK FALSE
