SPECIFICATION CSpec
CONSTANTS
  Ctls = {"c1", "c2", "c3"}
INVARIANT TypeOK
INVARIANT AtMostOne
INVARIANT NamesTheActive
INVARIANT OutsideGroupInactive
PROPERTY HandOver
CHECK_DEADLOCK FALSE
