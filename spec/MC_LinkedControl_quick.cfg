SPECIFICATION CSpec
CONSTANTS
  Layouts = {10, 20, 30, 11, 21, 22}
  Excs = {"hardware", "other"}
INVARIANT TypeOK
INVARIANT AtMostOne
INVARIANT NamesTheActive
INVARIANT NotBuiltInactive
INVARIANT ForeignIntact
PROPERTY HandOver
PROPERTY Frame
PROPERTY FailedOffKeeps
CHECK_DEADLOCK FALSE
