--------------------------- MODULE Gen_RWHandler ---------------------------
(* spec -> code.  VIEW hides the history and the per-step logs, so TLC visits every abstract state   *)
(* once (to Depth) and the ACTION_CONSTRAINT prints one behaviour per TRANSITION of the abstract     *)
(* state graph: the inputs of every step plus the projected state the real classes must show.       *)
EXTENDS RWHandlerCat, Json
CONSTANTS Depth,
          GenModes,     \* fault modes the generator switches to
          GenBy         \* TRUE: requests on the bystander modules n (same class) and p (base class) as well
VARIABLE hist

RECURSIVE CollapseSeq(_)
CollapseSeq(s) == IF Len(s) <= 1 THEN s
                  ELSE IF s[1] = s[2] THEN CollapseSeq(Tail(s)) ELSE <<s[1]>> \o CollapseSeq(Tail(s))
UpdOf(S) == [k \in ParamSet |-> CollapseSeq(SelectSeq(S.upd, LAMBDA u : u.k = k))]
Core(S) == <<S.cache, S.hw, S.mode, S.wd>>
ObsMod(S) == [cache |-> S.cache, hw |-> S.hw, wd |-> S.wd, calls |-> S.calls, upd |-> UpdOf(S)]

Exp(detail) == [mods |-> [x \in detail |-> ObsMod(st'[x])],
                same |-> \A x \in Mods \ detail : Core(st'[x]) = Core(st[x]) /\ st'[x].calls = <<>> /\ st'[x].upd = <<>>,
                res |-> last'.res, verdict |-> last'.verdict,
                polls |-> IF last'.act = "define" /\ last'.verdict = "ok" THEN PollFlags(lay') ELSE <<>>,
                hkeys |-> IF last'.act = "define" /\ last'.verdict = "ok" THEN HandlerKeys(lay') ELSE <<>>]
Rec(inp, detail) == hist' = Append(hist, inp @@ [exp |-> Exp(detail)])
One(m, inp) == Rec(inp @@ [mod |-> m], {m})

GInit == Init /\ hist = <<>>
GNext ==
    \/ \E L \in Layouts : /\ (phase = "undef" \/ L.name = lay.fix)
                          /\ Define(L, {}) /\ Rec([act |-> "define", lay |-> L], {})
    \/ Start({}) /\ Rec([act |-> "start"], Mods)
    \* before the poll threads are started: a driver (or an early client) writes and reads
    \/ /\ phase = "new"
       /\ \E k \in ParamSet : \/ (Change("m", k, 3, {}) /\ One("m", [act |-> "change", key |-> k, val |-> 3]))
                                \/ (Read("m", k, {}) /\ One("m", [act |-> "read", key |-> k]))
    \/ phase = "run" /\ \E k \in ParamSet :
         \/ Read("m", k, {}) /\ One("m", [act |-> "read", key |-> k])
         \/ \E v \in ReqVals : (v = BadReq => k = "a") /\ Change("m", k, v, {}) /\ One("m", [act |-> "change", key |-> k, val |-> v])
         \/ \E v \in {2, X} : (v = X => k = "a") /\ Assign("m", k, v) /\ One("m", [act |-> "assign", key |-> k, val |-> v])
         \/ \E v \in {0, X} : HwSet("m", k, v) /\ One("m", [act |-> "hwset", key |-> k, val |-> v])
    \/ Poll("m", {}) /\ One("m", [act |-> "poll"])
    \/ phase = "run" /\ \E fn \in Fns(lay) :
         \/ CallCommon("m", fn) /\ One("m", [act |-> "callcommon", fn |-> fn])
         \/ \E md \in GenModes : SetMode("m", fn, md) /\ One("m", [act |-> "setmode", fn |-> fn, mode |-> md])
    \/ /\ GenBy /\ phase = "run"
       /\ \E x \in {"n", "p"} :
            \/ Read(x, "a", {}) /\ One(x, [act |-> "read", key |-> "a"])
            \/ Change(x, "b", 3, {}) /\ One(x, [act |-> "change", key |-> "b", val |-> 3])
            \/ Poll(x, {}) /\ One(x, [act |-> "poll"])
            \/ HwSet(x, "a", 0) /\ One(x, [act |-> "hwset", key |-> "a", val |-> 0])
GSpec == GInit /\ [][GNext]_<<vars, hist>>

Bound == TLCGet("level") <= Depth
\* a behaviour that ends with a move of the environment only (hardware value, fault mode) shows nothing new
EmitStep == IF last'.act \in {"hwset", "setmode"} THEN TRUE ELSE PrintT(<<"BEH", ToJson(hist')>>)
AbstractView == <<lay, phase, pending, [m \in Mods |-> Core(st[m])]>>
=============================================================================
