SPECIFICATION TSpec
CONSTANTS
  Kinds = {"d", "d2", "ad", "aad", "r", "ar", "dc", "adc", "adx"}
  MaxLen = 4
  Hooks = {"none", "hw", "ext"}
  FaultModes = {"ee", "ew", "we", "ww"}
CONSTRAINT Track
INVARIANT Done
POSTCONDITION Verdicts
CHECK_DEADLOCK FALSE
