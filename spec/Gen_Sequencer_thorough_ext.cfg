SPECIFICATION GSpec
CONSTANTS
  Kinds = {"d", "ad", "r"}
  MaxLen = 1
  Hooks = {"ext"}
  FaultModes = {"ew"}
  Depth = 10
  MaxStarts = 2
  MaxRefused = 0
  MaxStops = 1
CONSTRAINT Bound
INVARIANT Emit1
CHECK_DEADLOCK FALSE
