----------------------------- MODULE ConfigRules -----------------------------
(* C10.  Configuration is applied faithfully; erroneous configuration is         *)
(* rejected whole (frappy/config.py, modulebase.py Module.__init__ /             *)
(* _add_accessible / _handle_writes / writeInitParams / __pollThread,            *)
(* secnode.py get_module_instance / create_modules, server.py _processCfg).      *)
(*                                                                               *)
(* This module = Part 1 (pure); Config.tla = Part 2.                             *)
(* Part 1 (pure): classification of the entries of one module configuration      *)
(* against the shape of the configured class, the set of allowed outcomes and    *)
(* the state an accepted module must show.                                       *)
(* Part 2 (state machine): node start-up - create all modules, then EITHER       *)
(* refuse (all failing modules reported together, none of them registered,       *)
(* nothing started, nothing written to hardware) OR start: every configured      *)
(* write exactly once and before the module's first poll.                        *)
(*                                                                               *)
(* Numbers are integers in HALF UNITS (n = 2 * value) so that x.5 exists.        *)
EXTENDS Integers, Sequences, FiniteSets, TLC

(* ---- shape of the configured class (harness/props/c10.py : CfgMod) ---- *)
(* s / l / k : string / array / blob, their limits are LENGTHS (minchars/maxchars, minlen/maxlen,  *)
(* minbytes/maxbytes, written "min"/"max" here); for these datatypes already the conversion       *)
(* looks at the limits, so the ORDER in which a Param's entries are applied matters: the value    *)
(* is judged against the datatype with the configured overrides applied.                          *)
(* z : declared with constant=3 in the class.  A constant (class level or configured) IS the value  *)
(* of the parameter: the cache holds it from the start, it is never written to the hardware.         *)
(* oi / oc : parameter / command declared optional=True in the base class and IMPLEMENTED by the       *)
(* configured class: configured like any other.  ou / od : declared optional in the base class and NOT  *)
(* implemented: they do not exist on the module, an entry naming them is an unknown name.               *)
(* "needscfg" (a value is REQUIRED in the configuration) is independent of defaults: n has no default,  *)
(* r1 inherits default=0 from the base class and is redeclared Parameter(needscfg=True) by the         *)
(* configured class, r2 is declared with its own default=1 and needscfg=True.  Required and no value   *)
(* configured => missing, whatever default exists in the class chain or is given in the configuration; *)
(* the requirement is satisfied by a configured value (and by a constant).                             *)
(* g1, g2 : written by ONE common hardware function (frappy.rwhandler.CommonWriteHandler): the call    *)
(* triggered for one of them takes the configured value of the other along (out of the values waiting  *)
(* to be written).  h1, h2 : plain write methods, write_h1 itself takes the value waiting for h2 along. *)
(* Every configured value reaches the hardware exactly once - in a common call or in its own.          *)
Params == {"a", "b", "n", "s", "l", "k", "z", "oi", "r1", "r2", "g1", "g2", "h1", "h2"}
Consumes(p) == CASE p \in {"g1", "g2"} -> {"g1", "g2"}       \* what a hardware call triggered for p takes along
                 [] p = "h1" -> {"h1", "h2"}
                 [] OTHER -> {p}
OptUnimplemented == {"ou", "od"}
ClassConst == [z |-> [ty |-> "float", n |-> 6]]
PInfo == [a |-> [ty |-> "float", lo |-> 0, hi |-> 200, write |-> TRUE,  needscfg |-> FALSE],
          b |-> [ty |-> "int",   lo |-> 0, hi |-> 20,  write |-> FALSE, needscfg |-> FALSE],
          n |-> [ty |-> "float", lo |-> 0, hi |-> 200, write |-> TRUE,  needscfg |-> TRUE],
          s |-> [ty |-> "str",   lo |-> 0, hi |-> 16,  write |-> TRUE,  needscfg |-> FALSE],
          l |-> [ty |-> "tuple", lo |-> 0, hi |-> 6,   write |-> FALSE, needscfg |-> FALSE],
          k |-> [ty |-> "bytes", lo |-> 0, hi |-> 8,   write |-> FALSE, needscfg |-> FALSE],
          z |-> [ty |-> "float", lo |-> 0, hi |-> 200, write |-> FALSE, needscfg |-> FALSE],
          oi |-> [ty |-> "float", lo |-> 0, hi |-> 200, write |-> TRUE, needscfg |-> FALSE],
          r1 |-> [ty |-> "float", lo |-> 0, hi |-> 200, write |-> FALSE, needscfg |-> TRUE],
          r2 |-> [ty |-> "float", lo |-> 0, hi |-> 200, write |-> FALSE, needscfg |-> TRUE],
          g1 |-> [ty |-> "float", lo |-> 0, hi |-> 200, write |-> TRUE, needscfg |-> FALSE],
          g2 |-> [ty |-> "float", lo |-> 0, hi |-> 200, write |-> TRUE, needscfg |-> FALSE],
          h1 |-> [ty |-> "float", lo |-> 0, hi |-> 200, write |-> TRUE, needscfg |-> FALSE],
          h2 |-> [ty |-> "float", lo |-> 0, hi |-> 200, write |-> TRUE, needscfg |-> FALSE]]
LimTy(p) == IF PInfo[p].ty \in {"float", "int"} THEN PInfo[p].ty ELSE "int"     \* type of the limits of p
ModProps == {"mp", "op", "export", "omit_unchanged_within"}    \* export = FALSE: the module and its parameters are hidden
(* omit_unchanged_within: minimum time between updates of an unchanged value, for every parameter without an  *)
(* own setting; 0 is a legal value ("never drop an update") and must be APPLIED like any other; when it is   *)
(* not configured the general default of the server applies (0.1 s).  Windows are counted in 1/10 s.         *)
GeneralWindow == 1
MInfo == [mp |-> [ty |-> "int",   lo |-> 0, hi |-> 10, mandatory |-> TRUE],
          op |-> [ty |-> "float", lo |-> 0, hi |-> 20, mandatory |-> FALSE],
          export |-> [ty |-> "bool", lo |-> 0, hi |-> 1, mandatory |-> FALSE],
          omit_unchanged_within |-> [ty |-> "float", lo |-> 0, hi |-> 100000, mandatory |-> FALSE]]
MainPar == "value"                         \* the main value: its (configurable) unit is the module's main unit,
ClassMainUnit == 2                         \* ('K')  which replaces '$' in the units of the other parameters
DollarParams == {"n"}                      \* parameters declared with unit '$'
Commands == {"c", "oc"}
LimitPairs == {"a_limits"}                 \* a Limit() parameter: value is a pair (low, high)
LimBase == [a_limits |-> "a"]              \* ... limiting this parameter
DtProps(ty) == IF ty = "float" THEN {"min", "max", "unit"} ELSE {"min", "max"}   \* datatype properties
ParProps == {"value", "default", "constant", "visibility", "readonly", "export", "group"}     \* parameter properties

(* an entry : [par, prop, form, v]  with v = [ty \in {"int","float","str","bool","pair"}, n, m]      *)
(* form "B" = bare value (Mod(..., a=5)), "P" = Param(...).  A configuration is a set of entries     *)
(* with pairwise different (par, prop).                                                              *)
IsNum(v) == v.ty \in {"int", "float"}
ConvOK(ty, v) == CASE ty = "float" -> IsNum(v)
                   [] ty = "int" -> IsNum(v) /\ v.n % 2 = 0
                   [] ty = "str" -> v.ty = "str"
                   [] ty = "tuple" -> v.ty = "list"          \* an array is stored as a tuple
                   [] ty = "bytes" -> v.ty = "bytes"
                   [] ty = "bool" -> v.ty = "bool"
Conv(ty, v) == [ty |-> ty, n |-> v.n]            \* the configured value converted to the datatype

Has(cfg, par, prop) == \E e \in cfg : e.par = par /\ e.prop = prop
Get(cfg, par, prop) == (CHOOSE e \in cfg : e.par = par /\ e.prop = prop).v

EffLo(cfg, p) == IF Has(cfg, p, "min") /\ ConvOK(LimTy(p), Get(cfg, p, "min")) THEN Get(cfg, p, "min").n ELSE PInfo[p].lo
EffHi(cfg, p) == IF Has(cfg, p, "max") /\ ConvOK(LimTy(p), Get(cfg, p, "max")) THEN Get(cfg, p, "max").n ELSE PInfo[p].hi

(* a configured <p>_limits pair narrows what the start-up write of p accepts *)
HasPair(cfg, p) == \E e \in cfg : e.par = p \o "_limits" /\ e.prop = "value" /\ e.v.ty = "pair"
PairOf(cfg, p) == (CHOOSE e \in cfg : e.par = p \o "_limits" /\ e.prop = "value").v
MaxOf(x, y) == IF x > y THEN x ELSE y
MinOf(x, y) == IF x < y THEN x ELSE y
ValLo(cfg, p) == IF HasPair(cfg, p) THEN MaxOf(EffLo(cfg, p), PairOf(cfg, p).n) ELSE EffLo(cfg, p)
ValHi(cfg, p) == IF HasPair(cfg, p) THEN MinOf(EffHi(cfg, p), PairOf(cfg, p).m) ELSE EffHi(cfg, p)

RangeClass(lo, hi, n) == IF n < lo \/ n > hi THEN "outside" ELSE IF n = lo \/ n = hi THEN "atlimit" ELSE "inside"

EntryClass(cfg, e) ==
  IF e.par \in OptUnimplemented THEN "unknownname"       \* whatever the entry contains
  ELSE IF e.par \in Params THEN
     LET info == PInfo[e.par] IN
     CASE e.prop = "value" -> IF ~ConvOK(info.ty, e.v) THEN "wrongtype"
                              ELSE RangeClass(ValLo(cfg, e.par), ValHi(cfg, e.par), e.v.n)
       \* default: start value that is not written to the hardware; constant: fixed value, makes the parameter readonly
       [] e.prop \in {"default", "constant"} -> IF ~ConvOK(info.ty, e.v) THEN "wrongtype"
                                                ELSE RangeClass(EffLo(cfg, e.par), EffHi(cfg, e.par), e.v.n)
       [] e.prop = "group" -> IF e.v.ty = "str" THEN "inside" ELSE "wrongtype"
       [] e.prop \in {"min", "max"} -> IF ~ConvOK(LimTy(e.par), e.v) THEN "wrongtype"
                                       ELSE IF EffLo(cfg, e.par) > EffHi(cfg, e.par) THEN "inverted" ELSE "inside"
       [] e.prop = "unit" /\ "unit" \in DtProps(info.ty) -> IF e.v.ty = "str" THEN "inside" ELSE "wrongtype"
       [] e.prop = "visibility" -> IF e.v.ty = "str" /\ e.v.n \in 1 .. 3 THEN "inside" ELSE "wrongtype"
       [] e.prop \in {"readonly", "export"} -> IF e.v.ty = "bool" THEN "inside" ELSE "wrongtype"
       [] OTHER -> "unknownprop"
  ELSE IF e.par = MainPar THEN      \* (only the unit of the main value is in the alphabet)
     IF e.prop = "unit" THEN (IF e.v.ty = "str" THEN "inside" ELSE "wrongtype") ELSE "unknownprop"
  ELSE IF e.par \in ModProps THEN
     IF e.prop # "value" THEN "unknownprop"
     ELSE IF ~ConvOK(MInfo[e.par].ty, e.v) THEN "wrongtype"
     ELSE RangeClass(MInfo[e.par].lo, MInfo[e.par].hi, e.v.n)
  ELSE IF e.par \in Commands THEN
     IF e.prop = "visibility" THEN (IF e.v.ty = "int" /\ e.v.n \in {2, 4, 6} THEN "inside" ELSE "wrongtype")
     ELSE "unknownprop"
  ELSE IF e.par \in LimitPairs THEN
     IF e.prop # "value" THEN "unknownprop"
     ELSE IF e.v.ty # "pair" THEN "wrongtype"
     ELSE IF e.v.n > e.v.m THEN "inverted"
     ELSE IF e.v.n < EffLo(cfg, LimBase[e.par]) \/ e.v.m > EffHi(cfg, LimBase[e.par]) THEN "outside"   \* loose
     ELSE "inside"
  ELSE "unknownname"

BadClasses == {"wrongtype", "unknownname", "unknownprop", "inverted"}
Failing(cfg) == {e \in cfg : EntryClass(cfg, e) \in BadClasses}
Missing(cfg) == {q \in ModProps : MInfo[q].mandatory /\ ~Has(cfg, q, "value")}
                \cup {p \in Params : PInfo[p].needscfg /\ ~Has(cfg, p, "value") /\ ~Has(cfg, p, "constant")}
Outside(cfg) == {e \in cfg : EntryClass(cfg, e) = "outside"}

(* the rule: any bad entry or missing item => rejected as a whole; a value of the right type   *)
(* outside the limits is not in the property's list: either outcome is allowed (loose)         *)
Allowed(cfg) == IF Failing(cfg) # {} \/ Missing(cfg) # {} THEN {"rejected"}
                ELSE IF Outside(cfg) # {} THEN {"accepted", "rejected"}
                ELSE {"accepted"}

Valued(cfg) == {p \in Params : Has(cfg, p, "value")}
Defaulted(cfg) == {p \in Params : Has(cfg, p, "default") /\ ~Has(cfg, p, "value")}
MainUnit(cfg) == IF Has(cfg, MainPar, "unit") THEN Get(cfg, MainPar, "unit").n ELSE ClassMainUnit
Window(cfg) == IF Has(cfg, "omit_unchanged_within", "value")
               THEN Get(cfg, "omit_unchanged_within", "value").n * 5 ELSE GeneralWindow      \* (half units -> 1/10 s)
ModExported(cfg) == IF Has(cfg, "export", "value") THEN Get(cfg, "export", "value").n = 1 ELSE TRUE
Constd(cfg) == {p \in Params : Has(cfg, p, "constant")} \cup DOMAIN ClassConst
ConstOf(cfg, p) == IF Has(cfg, p, "constant") THEN Conv(PInfo[p].ty, Get(cfg, p, "constant")) ELSE ClassConst[p]
WriteSet(cfg) == {p \in Valued(cfg) \ Constd(cfg) : PInfo[p].write}       \* (a constant is never written)
Flag(cfg, p, prop, dflt) == IF Has(cfg, p, prop) THEN Get(cfg, p, prop).n = 1 ELSE dflt
ProbePoints(lo, hi) == <<[n |-> lo - 2, ok |-> FALSE], [n |-> lo, ok |-> TRUE],
                         [n |-> hi, ok |-> TRUE], [n |-> hi + 2, ok |-> FALSE]>>

(* names the reason why a configuration must be rejected (for reports) *)
WhyRejected(cfg) ==
  IF Cardinality(Failing(cfg)) = 1 /\ Missing(cfg) = {}
  THEN LET e == CHOOSE e \in Failing(cfg) : TRUE IN e.par \o "." \o e.prop \o ":" \o EntryClass(cfg, e)
  ELSE IF Failing(cfg) = {} /\ Cardinality(Missing(cfg)) = 1
  THEN "missing " \o (CHOOSE q \in Missing(cfg) : TRUE)
  ELSE "several errors"

(* what an ACCEPTED module must show (only what the property demands) *)
Exp(cfg) ==
  [start    |-> [p \in Valued(cfg) \cup Defaulted(cfg) \cup Constd(cfg) |->
                   IF p \in Constd(cfg) THEN ConstOf(cfg, p)      \* (also when a value or default is given as well)
                   ELSE Conv(PInfo[p].ty, Get(cfg, p, IF p \in Valued(cfg) THEN "value" ELSE "default"))],
   lo       |-> [p \in Params |-> EffLo(cfg, p)],
   hi       |-> [p \in Params |-> EffHi(cfg, p)],
   unit     |-> [p \in {q \in Params : Has(cfg, q, "unit")} \cup DollarParams |->
                   IF Has(cfg, p, "unit") THEN Get(cfg, p, "unit").n ELSE MainUnit(cfg)],
   group    |-> [p \in {q \in Params : Has(cfg, q, "group")} |-> Get(cfg, p, "group").n],
   constant |-> [p \in Constd(cfg) |-> ConstOf(cfg, p)],
   vis      |-> [p \in {q \in Params : Has(cfg, q, "visibility")} |-> Get(cfg, p, "visibility").n],
   readonly |-> [p \in Params |-> Flag(cfg, p, "readonly", FALSE) \/ p \in Constd(cfg)],
   exported |-> [p \in Params |-> Flag(cfg, p, "export", TRUE) /\ ModExported(cfg)],
   probes   |-> [p \in Params |-> ProbePoints(EffLo(cfg, p), EffHi(cfg, p))],
   writes   |-> [p \in WriteSet(cfg) |-> Conv(PInfo[p].ty, Get(cfg, p, "value"))],
   mprops   |-> [q \in {r \in ModProps : Has(cfg, r, "value")} |-> Conv(MInfo[q].ty, Get(cfg, q, "value"))],
   \* Applied(omit_unchanged_within): the window every parameter gets, and its effect: an unchanged value announced
   \* again after 0.01 s and once more 0.3 s after the first reaches the dispatcher iff the window has passed
   window   |-> [p \in Params |-> Window(cfg)],
   repeat   |-> <<Window(cfg) = 0, Window(cfg) <= 3>>]

(* first demand an observed accepted state st breaks, "" if none.  st has the fields of Exp   *)
(* over all parameters; probes are any points with the observed verdict.                       *)
StateViol(cfg, st) ==
  LET x == Exp(cfg) IN
  IF \E p \in DOMAIN x.constant : st.start[p] # x.constant[p] THEN "cache of a constant parameter = described constant"
  ELSE IF \E p \in DOMAIN x.start : st.start[p] # x.start[p] THEN "start value = configured value converted"
  ELSE IF \E p \in Params : st.lo[p] # x.lo[p] \/ st.hi[p] # x.hi[p] THEN "described limits"
  ELSE IF \E p \in DOMAIN x.unit : st.unit[p] # x.unit[p] THEN "described unit"
  ELSE IF \E p \in DOMAIN x.vis : st.vis[p] # x.vis[p] THEN "visibility"
  ELSE IF \E p \in DOMAIN x.group : st.group[p] # x.group[p] THEN "parameter group"
  ELSE IF \E p \in DOMAIN x.constant : st.constant[p] # x.constant[p] THEN "described constant"
  ELSE IF \E p \in Params : st.readonly[p] # x.readonly[p] \/ st.exported[p] # x.exported[p] THEN "readonly/export"
  ELSE IF \E p \in Params : \E j \in DOMAIN st.probes[p] :
            st.probes[p][j].ok # (x.lo[p] <= st.probes[p][j].n /\ st.probes[p][j].n <= x.hi[p]) THEN "range check uses the configured limits"
  ELSE IF "writes" \in DOMAIN st /\ (\E p \in DOMAIN x.writes : p \notin DOMAIN st.writes) THEN "configured value registered for writing"
  ELSE IF \E q \in DOMAIN x.mprops : st.mprops[q] # x.mprops[q] THEN "module property"
  ELSE IF \E p \in Params : st.window[p] # x.window[p] THEN "Applied(omit_unchanged_within): parameter window"
  ELSE IF st.repeat # x.repeat THEN "Applied(omit_unchanged_within): repeated update"
  ELSE ""

(* several configuration files: the first definition of a module name wins, modules taken  *)
(* from a later file remember where they came from (original_id)                           *)
NamesIn(f) == {f[j].m : j \in 1 .. Len(f)}
AllNames(files) == UNION {NamesIn(files[k]) : k \in 1 .. Len(files)}
FirstFile(files, m) == CHOOSE k \in 1 .. Len(files) : m \in NamesIn(files[k]) /\ \A k2 \in 1 .. k - 1 : m \notin NamesIn(files[k2])
CfgIn(f, m) == LET j == CHOOSE j \in 1 .. Len(f) : f[j].m = m /\ \A j2 \in 1 .. j - 1 : f[j2].m # m IN f[j].cfg
Merge(files) == [m \in AllNames(files) |-> CfgIn(files[FirstFile(files, m)], m)]
(* how a module gets its hardware served: "polled" (own poll thread), "unpolled" (enablePoll = False:  *)
(* a thread only for the configured writes), "onio" (unpolled, served by the poll thread of its io     *)
(* module), "pio" (polled by the thread of its io module)                                             *)
(* "noclass": the configuration names a class that does not exist - such a module can only be rejected *)
Kinds == {"polled", "unpolled", "onio", "pio", "noclass"}
PolledKinds == {"polled", "pio"}
KindIn(f, m) == LET j == CHOOSE j \in 1 .. Len(f) : f[j].m = m /\ \A j2 \in 1 .. j - 1 : f[j2].m # m IN f[j].kind
KindMerge(files) == [m \in AllNames(files) |-> KindIn(files[FirstFile(files, m)], m)]
=============================================================================
