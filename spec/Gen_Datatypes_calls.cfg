SPECIFICATION Spec
CONSTANTS
  Tier <- GTier
  Shard <- GShard
  NShards <- GNShards
INVARIANT EmitCalls
CHECK_DEADLOCK FALSE
