--------------------------- MODULE Trace_ServerRun ---------------------------
(* code -> spec: executions of the real frappy.server.Server (all threads under the deterministic          *)
(* scheduler) must be accepted by ServerRunObs.  Where the pinned code is known to do something else,     *)
(* a NAMED deviation says what it does instead, so that the rest of the execution is still judged; the    *)
(* deviation records itself in st.devs, printed at the end (DEVS).  A trace that needs one is a           *)
(* violation unless an open finding carries it as signature.                                              *)
(*  Dev_ModulesLeftRunning    'no interface started': run() returns without shutdown_modules              *)
(*  Dev_ServesAfterStop       an interface thread that registers after restart() / shutdown() returned    *)
(*                            enters its serving loop                                                     *)
(*  Dev_StaleAnnounce         an interface already shut down is still named in _interfaces / log line /   *)
(*                            discovery answers (self.interfaces keeps it)                                *)
(*  Dev_ShutdownLost          a shutdown request was made and returned, the node goes on serving          *)
(*  Dev_RestartLost           an accepted restart request never leads to a new generation (flag latched)  *)
(*                            (both only where a request met a node that was starting, where a restart    *)
(*                            and a shutdown request overlap, or after another deviation - a request made  *)
(*                            while the node simply serves is never excused)                                *)
(*  Dev_RequestRaises_<Exc>   restart() / shutdown() raise (AttributeError before self.interfaces exists, *)
(*                            RuntimeError when an interface registers while the dictionary is iterated)   *)
(*  Dev_Revived               restart() after shutdown() returned starts a new generation                  *)
(*  Dev_ResponderLeak         the responder created after a stop request passed is never shut down        *)
(*  Dev_NoHook                a restart accepted during the wind-down skips restart_hook                   *)
(*  Dev_InterruptedStartup    a signal during start-up ends run() with KeyboardInterrupt (or with the      *)
(*                            RuntimeError / AttributeError of shutdown() called by the handler), nothing  *)
(*                            is cleaned up                                                                 *)
(*  Dev_SignalHandlerBlocks   the handler calls shutdown() in the interrupted thread: when that thread holds *)
(*                            the lock of the start MultiEvent, the interface it waits for can never answer  *)
(*                            - the node hangs for ever                                                      *)
EXTENDS ServerRunObs, Json, IOUtils, TLCExt

Traces == JsonDeserialize(IOEnv.TRACE_FILE)
NT == Len(Traces)
VARIABLES t, l, st
ASSUME \A j \in 1 .. NT : TLCSet(j, 1) /\ TLCSet(NT + j, "event not allowed")
Ev == Traces[t][l]

Dev(s, d) == [s EXCEPT !.devs = @ \cup {d}]

Dev_ModulesLeftRunning(s, e) == {Dev([s EXCEPT !.run = "ret", !.modsLeft = @ \cup {s.gen}], "Dev_ModulesLeftRunning")}
Dev_ServesAfterStop(s, e) == {Dev([s EXCEPT !.ifs[e.i] = "serving"], "Dev_ServesAfterStop")}
Dev_StaleAnnounce(s, e) ==
  IF e.ev = "up" THEN {Dev([s EXCEPT !.ph = "up", !.ann = ToSet(e.ann)], "Dev_StaleAnnounce")}
  ELSE {Dev(s, "Dev_StaleAnnounce")}
Dev_ShutdownLost(s, e) == {Dev(s, "Dev_ShutdownLost")}
Dev_RestartLost(s, e) == {Dev(s, "Dev_RestartLost")}
Dev_RequestRaises(s, e) ==
  {Dev(n, "Dev_RequestRaises_" \o e.exc) : n \in H_req_e(s, [e EXCEPT !.exc = ""])}
Dev_Revived(s, e) ==
  IF e.ev = "hook" THEN {Dev([s EXCEPT !.ph = "hooked", !.hooks = 1], "Dev_Revived")}
  ELSE {Dev([NewGen(s, e.g) EXCEPT !.shutDone = FALSE, !.shutAny = FALSE], "Dev_Revived")}
Dev_ResponderLeak(s, e) ==
  IF e.ev = "boot" THEN {Dev([NewGen(s, e.g) EXCEPT !.oldDisc = @ \cup {s.gen}], "Dev_ResponderLeak")}
  ELSE {Dev(s, "Dev_ResponderLeak")}
Dev_NoHook(s, e) == {Dev(NewGen(s, e.g), "Dev_NoHook")}
Dev_SignalHandlerBlocks(s, e) == {Dev(s, "Dev_SignalHandlerBlocks")}
Dev_InterruptedStartup(s, e) == {Dev([s EXCEPT !.run = "exc", !.aborted = TRUE], "Dev_InterruptedStartup")}

(* which deviation explains a rejected event - none: the rejection stands *)
DevFor(s, e, why) ==
  CASE why = "G4.returns leaving modules running" /\ s.ph = "noif" -> Dev_ModulesLeftRunning(s, e)
    [] why = "S1.serves after a stop returned" -> Dev_ServesAfterStop(s, e)
    [] why = "G2._interfaces is not what listens" /\ Listening(s) \subseteq ToSet(e.ann)
              /\ (s.stopDone \/ s.ishReq # {}) -> Dev_StaleAnnounce(s, e)
    [] why = "G2.announced a dead port" /\ (s.stopDone \/ s.ishReq # {}) -> Dev_StaleAnnounce(s, e)
    [] why = "S2.shutdown lost, run() goes on" /\ (s.early \/ s.raced \/ s.devs # {}) -> Dev_ShutdownLost(s, e)
    [] why = "R2.accepted restart never happened" /\ (s.early \/ s.devs # {}) -> Dev_RestartLost(s, e)
    [] why = "E1.request raises" -> Dev_RequestRaises(s, e)
    [] why = "S1.generation after shutdown()" /\ (s.gen = 0 \/ s.ph = "hooked") /\ s.disc # "open"
         -> Dev_Revived(s, e)
    [] why = "S1.hook after shutdown() returned" -> Dev_Revived(s, e)
    [] why = "G5.old responder still open" -> Dev_ResponderLeak(s, e)
    [] why = "S2.responder left after the end" -> Dev_ResponderLeak(s, e)
    [] why = "G5.boot before previous is down" /\ s.ph = "stopped" /\ AllMods(s, "down")
              /\ s.hooks = 0 /\ (RestartWanted(s) \/ s.shutDone)
         -> IF s.shutDone THEN Dev_Revived(s, e) ELSE Dev_NoHook(s, e)
    [] why = "exc.run() raises" /\ e.exc \in {"KeyboardInterrupt", "RuntimeError", "AttributeError"}
              /\ (\E x \in s.reqGen : x[1] = "sig") /\ s.ph \in {"init", "boot", "ready"}
              -> Dev_InterruptedStartup(s, e)
    [] why = "E1.a request never returns" /\ e.ev = "quiet" /\ "sig" \in s.shutOpen /\ s.ph \in {"boot", "ready"}
         -> Dev_SignalHandlerBlocks(s, e)
    [] OTHER -> {Fail(s, why)}

TStep(s, e) == UNION {IF n.rej = "" THEN {n} ELSE DevFor(s, e, n.rej) : n \in Step(s, e)}

TInit == t \in 1 .. NT /\ l = 1 /\ st = S0
TNext == /\ l >= 1 /\ l <= Len(Traces[t])
         /\ \E n \in TStep(st, Ev) :
              /\ st' = n
              /\ l' = IF n.rej = "" THEN l + 1 ELSE 0 - l
         /\ t' = t
TSpec == TInit /\ [][TNext]_<<t, l, st>>

Track == IF l > 0 THEN TLCSet(t, IF l > TLCGet(t) THEN l ELSE TLCGet(t))
         ELSE (IF 0 - l >= TLCGet(t) THEN TLCSet(NT + t, st.rej) ELSE TRUE)
(* the deviations an accepted trace needed, as a bit mask over DevNames (a long line would be wrapped by TLC) *)
DevNames == <<"Dev_ModulesLeftRunning", "Dev_ServesAfterStop", "Dev_StaleAnnounce", "Dev_ShutdownLost", "Dev_RestartLost",
              "Dev_RequestRaises_AttributeError", "Dev_RequestRaises_RuntimeError", "Dev_Revived", "Dev_ResponderLeak",
              "Dev_NoHook", "Dev_InterruptedStartup", "Dev_SignalHandlerBlocks", "Dev_RequestRaises_other">>
RECURSIVE Pow2(_)
Pow2(n) == IF n = 0 THEN 1 ELSE 2 * Pow2(n - 1)
Known(d) == \E k \in 1 .. Len(DevNames) - 1 : DevNames[k] = d
Mask(ds) == LET has(k) == IF k < Len(DevNames) THEN DevNames[k] \in ds ELSE \E d \in ds : ~Known(d)
                sum[k \in 0 .. Len(DevNames)] == IF k = 0 THEN 0 ELSE sum[k - 1] + (IF has(k) THEN Pow2(k - 1) ELSE 0)
            IN sum[Len(DevNames)]
Done == (l = Len(Traces[t]) + 1) => PrintT(<<"DEVS", t, Mask(st.devs)>>)
Verdicts == \A j \in 1 .. NT :
   IF TLCGet(j) = Len(Traces[j]) + 1 THEN PrintT(<<"ACCEPT", j>>)
   ELSE PrintT(<<"REJECT", j, TLCGet(j), TLCGet(NT + j)>>)
=============================================================================
