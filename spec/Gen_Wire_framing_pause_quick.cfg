SPECIFICATION GFSpec
CONSTANTS
  MaxLen = 3
  ReadSize = 2
  Classes = {"idn"}
  MaxPend = 1
  Threads = {"req"}
  UseLock = TRUE
  CheckRunning = TRUE
  Depth = 0
  FullDepth = 0
  WideDepth = 0
  Wide = {}
  Pauses = TRUE
  Core = {}
INVARIANT EmitF
INVARIANT FramingOK
CHECK_DEADLOCK FALSE
