------------------------- MODULE Gen_DiscoveryServer -------------------------
(* spec -> code: every interface list x every maximal sequence boot, restart*, shutdown, *)
(* with a fresh choice at every (re)start of which interfaces come up                    *)
EXTENDS DiscoveryServer, Json
VARIABLE hist
Step(k) == [act |-> k, up |-> up',
            exp |-> [listening |-> IF phase' = "up" THEN Tcp(cfg) \cap up' ELSE {},
                     answers |-> last'.answers, serving |-> phase' = "up"]]
GInit == WInit /\ hist = <<>>
GNext == \/ Boot /\ hist' = <<[act |-> "boot", cfg |-> cfg, up |-> up', exp |-> Step("boot").exp]>>
         \/ Restart /\ hist' = Append(hist, Step("restart"))
         \/ Shutdown /\ hist' = Append(hist, Step("shutdown"))
GSpec == GInit /\ [][GNext]_<<wvars, hist>>
Emit1 == (hist # <<>> /\ ~ ENABLED WNext) => PrintT(<<"BEH", ToJson(hist)>>)
=============================================================================
