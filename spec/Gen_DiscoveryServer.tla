------------------------- MODULE Gen_DiscoveryServer -------------------------
(* spec -> code: every interface list x every maximal sequence boot, restart*, shutdown *)
EXTENDS DiscoveryServer, Json
VARIABLE hist
Step(k) == [act |-> k, exp |-> [listening |-> last'.listening, answers |-> last'.answers, up |-> phase' = "up"]]
GInit == WInit /\ hist = <<>>
GNext == \/ Boot /\ hist' = <<[act |-> "boot", cfg |-> cfg, exp |-> Step("boot").exp]>>
         \/ Restart /\ hist' = Append(hist, Step("restart"))
         \/ Shutdown /\ hist' = Append(hist, Step("shutdown"))
GSpec == GInit /\ [][GNext]_<<wvars, hist>>
Emit1 == (hist # <<>> /\ ~ ENABLED WNext) => PrintT(<<"BEH", ToJson(hist)>>)
=============================================================================
