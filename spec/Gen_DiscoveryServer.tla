------------------------- MODULE Gen_DiscoveryServer -------------------------
(* spec -> code: every interface list x every maximal sequence of boot, restart*,        *)
(* shutdown, with a fresh choice at every (re)start of which interfaces come up and of   *)
(* whether the new responder thread is held back (then "run" releases the pending        *)
(* threads at every later point).  Restart / shutdown appear as their tear-down steps    *)
(* (stop_responder, close_iface i in index order - the driver makes the interfaces       *)
(* register in that order) followed by the restart / shutdown proper; a probe request    *)
(* follows every step whenever no thread is pending.                                     *)
EXTENDS DiscoveryServer, Json, FiniteSetsExt
VARIABLE hist
ProbeDue == created = {} /\ last.kind \notin {"probe", "none"}
Lis == [listening |-> IF phase' \in {"up", "closing"} THEN Tcp(cfg) \cap up' ELSE {}]
Start(k) == [act |-> k, up |-> up', held |-> created' # created, exp |-> Lis]
GInit == WInit /\ hist = <<>>
GNext == IF ProbeDue
         THEN Probe /\ hist' = Append(hist, [act |-> "probe", exp |-> [answers |-> last'.answers]])
         ELSE \/ Boot /\ hist' = <<[act |-> "boot", cfg |-> cfg] @@ Start("boot")>>
              \/ StopResponder /\ hist' = Append(hist, [act |-> "stop_responder", exp |-> Lis])
              \/ up # {} /\ CloseInterface(Min(up)) /\ hist' = Append(hist, [act |-> "close_iface", i |-> Min(up), exp |-> Lis])
              \/ Restart /\ hist' = Append(hist, Start("restart"))
              \/ Shutdown /\ hist' = Append(hist, [act |-> "shutdown", exp |-> Lis])
              \/ phase # "closing" /\ RunAll /\ hist' = Append(hist, [act |-> "run", exp |-> Lis])
GSpec == GInit /\ [][GNext]_<<wvars, hist>>
Emit1 == (hist # <<>> /\ ~ ENABLED GNext) => PrintT(<<"BEH", ToJson(hist)>>)
=============================================================================
