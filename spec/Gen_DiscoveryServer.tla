------------------------- MODULE Gen_DiscoveryServer -------------------------
(* spec -> code: every interface list x every maximal sequence of boot, restart*,        *)
(* shutdown, with a fresh choice at every (re)start of which interfaces come up and of   *)
(* whether the new responder thread is held back (then "run" releases the pending        *)
(* threads at every later point); a probe request follows whenever no thread is pending. *)
EXTENDS DiscoveryServer, Json
VARIABLE hist
ProbeDue == created = {} /\ last.kind \notin {"probe", "none"}
Start(k) == [act |-> k, up |-> up', held |-> created' # created,
             exp |-> [listening |-> IF phase' = "up" THEN Tcp(cfg) \cap up' ELSE {}]]
GInit == WInit /\ hist = <<>>
GNext == IF ProbeDue
         THEN Probe /\ hist' = Append(hist, [act |-> "probe", exp |-> [answers |-> last'.answers]])
         ELSE \/ Boot /\ hist' = <<[act |-> "boot", cfg |-> cfg] @@ Start("boot")>>
              \/ Restart /\ hist' = Append(hist, Start("restart"))
              \/ Shutdown /\ hist' = Append(hist, [act |-> "shutdown", exp |-> [listening |-> {}]])
              \/ RunAll /\ hist' = Append(hist, [act |-> "run", exp |-> [listening |-> IF phase = "up" THEN Tcp(cfg) \cap up ELSE {}]])
GSpec == GInit /\ [][GNext]_<<wvars, hist>>
Emit1 == (hist # <<>> /\ ~ ENABLED GNext) => PrintT(<<"BEH", ToJson(hist)>>)
=============================================================================
