SPECIFICATION TSpec
CONSTANTS
  Names = {"a", "b", "c", "d"}
  Missing = "zz"
CONSTRAINT Track
INVARIANT ReadyMeansStartedT
INVARIANT Done
POSTCONDITION Verdicts
CHECK_DEADLOCK FALSE
