-------------------------- MODULE Trace_DispSerial --------------------------
EXTENDS DispSerial, Json, IOUtils, TLCExt
Traces == JsonDeserialize(IOEnv.TRACE_FILE)
NT == Len(Traces)
VARIABLES t, l
ASSUME \A i \in 1 .. NT : TLCSet(i, 1)
Ev == Traces[t][l]
TInit == t \in 1 .. NT /\ l = 2 /\ SInit(Traces[t][1].cur)
TStep ==
  /\ l <= Len(Traces[t])
  /\ l' = l + 1 /\ t' = t
  /\ \/ Ev.ev = "req" /\ Req(Ev.c, Ev.n, Ev.kind, Ev.p, Ev.payload)
     \/ Ev.ev = "drv" /\ Drv(Ev.c, Ev.n, Ev.p, Ev.v)
     \/ Ev.ev = "rep" /\ Rep(Ev.c, Ev.n, Ev.v)
     \/ Ev.ev = "end" /\ End(Ev.cur)
TSpec == TInit /\ [][TStep]_<<svars, t, l>>
Track == TLCSet(t, IF l > TLCGet(t) THEN l ELSE TLCGet(t))
Verdicts == \A i \in 1 .. NT :
   IF TLCGet(i) = Len(Traces[i]) + 1 THEN PrintT(<<"ACCEPT", i>>)
   ELSE PrintT(<<"REJECT", i, TLCGet(i), "event not allowed by DispSerial">>)
=============================================================================
