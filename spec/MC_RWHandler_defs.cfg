SPECIFICATION DefSpec
CONSTANTS
  Layouts <- AllLayouts
  Impl <- NoDevs
INVARIANT TypeOK
INVARIANT FlagsOK
INVARIANT AcceptedSound
INVARIANT CatalogueVerdicts
PROPERTY VerdictStable
CHECK_DEADLOCK FALSE
