------------------------------- MODULE Client -------------------------------
(* C11.  The request/reply protocol of frappy.client.SecopClient, written at the      *)
(* granularity of the code: one label per statement (or group of statements) between  *)
(* two synchronisation points of frappy/client/__init__.py                            *)
(*   Caller   = queue_request + get_reply            (lines 668-698)                  *)
(*   Tx       = __txthread                           (lines 410-430)                  *)
(*   Rx       = __rxthread                           (lines 432-527)                  *)
(*   disconnect(sh) entered concurrently by Tx, Rx and User   (lines 561-602)         *)
(*   Peer     = the SEC node at the other end (answers FIFO, may push updates,        *)
(*              may ignore a request, may drop the connection)                        *)
(*   Clock    = virtual time: passes only when nothing else can happen                *)
(*                                                                                    *)
(* Three switches select between the design the property demands and what the pinned  *)
(* code does (deviations, see DESIGN.md C11):                                         *)
(*   UseLock   TRUE: Tx's check-and-park/register and Rx's pop-set-drain are mutually  *)
(*             exclusive (as-implemented: FALSE, no lock)                             *)
(*   SafeJoin  TRUE: disconnect joins the thread handle it tested (as-implemented:    *)
(*             FALSE, the attribute is read again and may have become None)           *)
(*   Recheck   TRUE: a caller that queued its request looks at the running flag again *)
(*             (as-implemented: FALSE; a request queued after the tear-down is lost)  *)
(*   Release   TRUE: entries thrown away from txq by disconnect are released          *)
(*             (as-implemented: FALSE, their callers wait for the time-out)           *)
EXTENDS Naturals, Sequences, FiniteSets, TLC

CONSTANTS Callers,      \* set of caller ids (strings "c1", ...)
          KeyOf,        \* [Callers -> key id] : (reply action, specifier) of the request
          MayIgnore,    \* subset of Callers whose request the peer may never answer
          MaxUpd,       \* number of updates the peer may push at arbitrary points
          Streaming,    \* BOOLEAN: the peer pushes an update whenever the line is quiet
          CanDrop,      \* BOOLEAN: the peer may close the connection
          WithUser,     \* BOOLEAN: a user thread calls disconnect(True)
          T,            \* caller time-out in ticks
          H,            \* silent ticks before Rx sends a heartbeat
          UseLock, SafeJoin, Release, Recheck

Stop == "STOP"                  \* the None marker in txq
NoE == "none"                   \* no entry
Ping == "PING"                   \* entry id of the heartbeat request (nobody waits for it)
PingKey == "pong"
Entries == Callers \cup {Ping}
Key(e) == IF e = Ping THEN PingKey ELSE KeyOf[e]
Keys == {Key(e) : e \in Entries}
Threads == {"tx", "rx", "user"}

(* --algorithm Client {
variables
  txq = <<>>, pending = <<>>,
  active = [k \in Keys |-> NoE],        \* key -> entry id, NoE = no entry
  cleanup = {},
  running = TRUE, shut = FALSE,
  ioObj = TRUE,                         \* self.io is not None
  connOpen = TRUE,                      \* the connection can still deliver
  txh = TRUE, rxh = TRUE,               \* self._txthread / self._rxthread is not None
  txdone = FALSE, rxdone = FALSE,       \* the thread has ended
  evset = [e \in Entries |-> FALSE],    \* entry[1].is_set()
  reply = [e \in Entries |-> NoE],      \* entry[2]: NoE = None, else ghost id of the request it answers
  c2p = <<>>, p2c = <<>>,               \* the wire
  res = [i \in Callers |-> "none"],     \* outcome of request(): reply / timeout / connerr
  got = [i \in Callers |-> NoE],
  age = [i \in Callers |-> 0],          \* ticks spent waiting
  passed = {},                          \* callers that went through queue_request's connect()
  rxTO = FALSE, noact = 0, pinged = FALSE,
  nupd = 0, lock = "free",
  \* ghost variables (never read by the protocol)
  sent = {}, answered = {}, ignored = {}, lost = FALSE,
  stalePark = {},                       \* entries parked although their key was no longer active
  discarded = {},                       \* entries thrown away unreleased
  raisedBy = {};                        \* threads whose disconnect() raised

define {
  AllPassed == passed = Callers
  Waiting(i) == pc[i] = "c_wait" /\ ~evset[i]
}

macro Acquire(me) { if (UseLock) { await lock = "free"; lock := me } }
macro ReleaseLock(me) { if (UseLock) { lock := "free" } }

procedure disconnect(sh)
{
d_run:   running := FALSE;
         if (sh) { shut := TRUE };
d_drain: if (Release) { evset := [e \in Entries |-> evset[e] \/ (\E n \in 1 .. Len(txq) : txq[n] = e)] }
         else { discarded := discarded \cup {txq[n] : n \in {m \in 1 .. Len(txq) : txq[m] # Stop}} };
         txq := <<>>;
d_iosh:  if (ioObj) { if (connOpen) { lost := TRUE }; connOpen := FALSE };
d_txchk: if (txh) {
d_txput:    txq := Append(txq, Stop);
d_txjoin:   if (~SafeJoin /\ ~txh) { raisedBy := raisedBy \cup {self}; goto d_raise };
d_txwait:   await txdone;
d_txclr:    txh := FALSE
         };
d_rxchk: if (rxh) {
d_rxjoin:   if (~SafeJoin /\ ~rxh) { raisedBy := raisedBy \cup {self}; goto d_raise };
d_rxwait:   await rxdone;
d_rxclr:    rxh := FALSE
         };
d_io:    ioObj := FALSE;
d_act:   evset := [e \in Entries |-> evset[e] \/ (\E k \in Keys : active[k] = e)];
         active := [k \in Keys |-> NoE];
d_pend:  evset := [e \in Entries |-> evset[e] \/ (\E n \in 1 .. Len(pending) : pending[n] = e)];
         pending := <<>>;
d_ret:   return;
d_raise: return;
}

fair process (caller \in Callers)
{
c_conn: passed := passed \cup {self};            \* queue_request: self.connect() finds io up
c_put:  txq := Append(txq, self);
c_chk:  if (Recheck /\ ~running) { evset[self] := TRUE };   \* repaired design only
c_wait: await evset[self] \/ age[self] >= T;
        if (evset[self]) {
           if (reply[self] = NoE) { res[self] := "connerr" }
           else { res[self] := "reply"; got[self] := reply[self] }
        } else { cleanup := cleanup \cup {self}; res[self] := "timeout" };
}

fair process (tx = "tx")
variable te = NoE;
{
t_loop: while (running) {
t_get:     await txq # <<>>;
           te := Head(txq); txq := Tail(txq);
           if (te = Stop) { goto t_end };
t_lock:    Acquire("tx");
t_chk:     if (active[Key(te)] # NoE) {
t_park:       pending := Append(pending, te);
              if (active[Key(te)] = NoE) { stalePark := stalePark \cup {te} };
              ReleaseLock("tx");
           } else {
t_reg:        active[Key(te)] := te;
              ReleaseLock("tx");
t_send:       if (connOpen) { c2p := Append(c2p, te) };
              sent := sent \cup {te};
           }
        };
t_end:  txh := FALSE;
        call disconnect(FALSE);
t_fin:  txdone := TRUE;
}

fair process (rx = "rx")
variables rmsg = [kind |-> "none"], re = NoE, px = NoE, rbuf = <<>>;
{
r_loop: while (running) {
r_clean:   active := [k \in Keys |-> IF active[k] \in cleanup THEN NoE ELSE active[k]];
           cleanup := {};
r_read:    await p2c # <<>> \/ ~connOpen \/ rxTO;
           if (p2c # <<>>) { rmsg := Head(p2c); p2c := Tail(p2c); noact := 0; rxTO := FALSE }
           else if (~connOpen) { goto r_exit }
           else {
              rxTO := FALSE; noact := noact + 1;
              if (noact = H /\ ~pinged) {
r_ping:          pinged := TRUE; txq := Append(txq, Ping)
              };
r_cont:       goto r_loop
           };
r_upd:     if (rmsg.kind = "update") { goto r_loop };
r_lock:    Acquire("rx");
r_match:   re := active[rmsg.key];
           active[rmsg.key] := NoE;
           if (re = NoE) { ReleaseLock("rx"); goto r_loop };
r_set:     reply[re] := rmsg.gid; evset[re] := TRUE;
r_drain:   if (UseLock) {
              \* repaired design: take the parked requests under the lock, re-queue them after releasing it
              rbuf := pending; pending := <<>>;
              ReleaseLock("rx");
r_requeue:    while (rbuf # <<>>) {
                 px := Head(rbuf); rbuf := Tail(rbuf);
                 txq := Append(txq, px)
              }
           } else {
r_drain2:     while (pending # <<>>) {
                 px := Head(pending); pending := Tail(pending);
r_dput:          txq := Append(txq, px)
              }
           };
r_next:    skip;
        };
r_exit: rxh := FALSE;
        call disconnect(FALSE);
r_fin:  rxdone := TRUE;
}

fair process (peer = "peer")
variable pr = NoE;
{
p_loop: while (TRUE) {
          either { await c2p # <<>> /\ connOpen;
                   pr := Head(c2p); c2p := Tail(c2p);
p_ans:             either { if (connOpen) { p2c := Append(p2c, [kind |-> "reply", key |-> Key(pr), gid |-> pr]);
                                             answered := answered \cup {pr} } }
                   or     { await pr \in MayIgnore; ignored := ignored \cup {pr} } }
          or     { await nupd < MaxUpd /\ connOpen; nupd := nupd + 1;
                   p2c := Append(p2c, [kind |-> "update", key |-> "upd", gid |-> NoE]) }
          or     { await CanDrop /\ connOpen /\ AllPassed; connOpen := FALSE; lost := TRUE }
        }
}

process (user = "user")
{
u_wait: await WithUser /\ AllPassed;
        call disconnect(TRUE);
u_ret:  skip;
}

process (clock = "clock")
{
k_tick: while (TRUE) {
          \* time passes only when no thread of the client and no pending peer answer can move
          await /\ \A i \in Callers : (pc[i] = "Done" \/ (pc[i] = "c_wait" /\ ~evset[i] /\ age[i] < T))
                /\ ((pc["tx"] = "t_get" /\ txq = <<>>) \/ (pc["tx"] = "Done")
                      \/ (pc["tx"] = "d_rxwait" /\ ~rxdone))
                /\ ((pc["rx"] = "r_read" /\ p2c = <<>> /\ connOpen /\ ~rxTO) \/ (pc["rx"] = "Done")
                      \/ (pc["rx"] = "d_txwait" /\ ~txdone))
                /\ pc["peer"] = "p_loop" /\ (c2p = <<>> \/ ~connOpen)
                /\ (pc["user"] \in {"u_wait", "Done"} \/ (pc["user"] = "d_txwait" /\ ~txdone)
                      \/ (pc["user"] = "d_rxwait" /\ ~rxdone))
                /\ \E i \in Callers : pc[i] = "c_wait";
          age := [i \in Callers |-> IF Waiting(i) THEN age[i] + 1 ELSE age[i]];
          if (pc["rx"] = "r_read") {
             if (Streaming /\ connOpen) { p2c := Append(p2c, [kind |-> "update", key |-> "upd", gid |-> NoE]) }
             else { rxTO := TRUE }
          }
        }
}
} *)
\* BEGIN TRANSLATION
CONSTANT defaultInitValue
VARIABLES pc, txq, pending, active, cleanup, running, shut, ioObj, connOpen, 
          txh, rxh, txdone, rxdone, evset, reply, c2p, p2c, res, got, age, 
          passed, rxTO, noact, pinged, nupd, lock, sent, answered, ignored, 
          lost, stalePark, discarded, raisedBy, stack

(* define statement *)
AllPassed == passed = Callers
Waiting(i) == pc[i] = "c_wait" /\ ~evset[i]

VARIABLES sh, te, rmsg, re, px, rbuf, pr

vars == << pc, txq, pending, active, cleanup, running, shut, ioObj, connOpen, 
           txh, rxh, txdone, rxdone, evset, reply, c2p, p2c, res, got, age, 
           passed, rxTO, noact, pinged, nupd, lock, sent, answered, ignored, 
           lost, stalePark, discarded, raisedBy, stack, sh, te, rmsg, re, px, 
           rbuf, pr >>

ProcSet == (Callers) \cup {"tx"} \cup {"rx"} \cup {"peer"} \cup {"user"} \cup {"clock"}

Init == (* Global variables *)
        /\ txq = <<>>
        /\ pending = <<>>
        /\ active = [k \in Keys |-> NoE]
        /\ cleanup = {}
        /\ running = TRUE
        /\ shut = FALSE
        /\ ioObj = TRUE
        /\ connOpen = TRUE
        /\ txh = TRUE
        /\ rxh = TRUE
        /\ txdone = FALSE
        /\ rxdone = FALSE
        /\ evset = [e \in Entries |-> FALSE]
        /\ reply = [e \in Entries |-> NoE]
        /\ c2p = <<>>
        /\ p2c = <<>>
        /\ res = [i \in Callers |-> "none"]
        /\ got = [i \in Callers |-> NoE]
        /\ age = [i \in Callers |-> 0]
        /\ passed = {}
        /\ rxTO = FALSE
        /\ noact = 0
        /\ pinged = FALSE
        /\ nupd = 0
        /\ lock = "free"
        /\ sent = {}
        /\ answered = {}
        /\ ignored = {}
        /\ lost = FALSE
        /\ stalePark = {}
        /\ discarded = {}
        /\ raisedBy = {}
        (* Procedure disconnect *)
        /\ sh = [ self \in ProcSet |-> defaultInitValue]
        (* Process tx *)
        /\ te = NoE
        (* Process rx *)
        /\ rmsg = [kind |-> "none"]
        /\ re = NoE
        /\ px = NoE
        /\ rbuf = <<>>
        (* Process peer *)
        /\ pr = NoE
        /\ stack = [self \in ProcSet |-> << >>]
        /\ pc = [self \in ProcSet |-> CASE self \in Callers -> "c_conn"
                                        [] self = "tx" -> "t_loop"
                                        [] self = "rx" -> "r_loop"
                                        [] self = "peer" -> "p_loop"
                                        [] self = "user" -> "u_wait"
                                        [] self = "clock" -> "k_tick"]

d_run(self) == /\ pc[self] = "d_run"
               /\ running' = FALSE
               /\ IF sh[self]
                     THEN /\ shut' = TRUE
                     ELSE /\ TRUE
                          /\ shut' = shut
               /\ pc' = [pc EXCEPT ![self] = "d_drain"]
               /\ UNCHANGED << txq, pending, active, cleanup, ioObj, connOpen, 
                               txh, rxh, txdone, rxdone, evset, reply, c2p, 
                               p2c, res, got, age, passed, rxTO, noact, pinged, 
                               nupd, lock, sent, answered, ignored, lost, 
                               stalePark, discarded, raisedBy, stack, sh, te, 
                               rmsg, re, px, rbuf, pr >>

d_drain(self) == /\ pc[self] = "d_drain"
                 /\ IF Release
                       THEN /\ evset' = [e \in Entries |-> evset[e] \/ (\E n \in 1 .. Len(txq) : txq[n] = e)]
                            /\ UNCHANGED discarded
                       ELSE /\ discarded' = (discarded \cup {txq[n] : n \in {m \in 1 .. Len(txq) : txq[m] # Stop}})
                            /\ evset' = evset
                 /\ txq' = <<>>
                 /\ pc' = [pc EXCEPT ![self] = "d_iosh"]
                 /\ UNCHANGED << pending, active, cleanup, running, shut, 
                                 ioObj, connOpen, txh, rxh, txdone, rxdone, 
                                 reply, c2p, p2c, res, got, age, passed, rxTO, 
                                 noact, pinged, nupd, lock, sent, answered, 
                                 ignored, lost, stalePark, raisedBy, stack, sh, 
                                 te, rmsg, re, px, rbuf, pr >>

d_iosh(self) == /\ pc[self] = "d_iosh"
                /\ IF ioObj
                      THEN /\ IF connOpen
                                 THEN /\ lost' = TRUE
                                 ELSE /\ TRUE
                                      /\ lost' = lost
                           /\ connOpen' = FALSE
                      ELSE /\ TRUE
                           /\ UNCHANGED << connOpen, lost >>
                /\ pc' = [pc EXCEPT ![self] = "d_txchk"]
                /\ UNCHANGED << txq, pending, active, cleanup, running, shut, 
                                ioObj, txh, rxh, txdone, rxdone, evset, reply, 
                                c2p, p2c, res, got, age, passed, rxTO, noact, 
                                pinged, nupd, lock, sent, answered, ignored, 
                                stalePark, discarded, raisedBy, stack, sh, te, 
                                rmsg, re, px, rbuf, pr >>

d_txchk(self) == /\ pc[self] = "d_txchk"
                 /\ IF txh
                       THEN /\ pc' = [pc EXCEPT ![self] = "d_txput"]
                       ELSE /\ pc' = [pc EXCEPT ![self] = "d_rxchk"]
                 /\ UNCHANGED << txq, pending, active, cleanup, running, shut, 
                                 ioObj, connOpen, txh, rxh, txdone, rxdone, 
                                 evset, reply, c2p, p2c, res, got, age, passed, 
                                 rxTO, noact, pinged, nupd, lock, sent, 
                                 answered, ignored, lost, stalePark, discarded, 
                                 raisedBy, stack, sh, te, rmsg, re, px, rbuf, 
                                 pr >>

d_txput(self) == /\ pc[self] = "d_txput"
                 /\ txq' = Append(txq, Stop)
                 /\ pc' = [pc EXCEPT ![self] = "d_txjoin"]
                 /\ UNCHANGED << pending, active, cleanup, running, shut, 
                                 ioObj, connOpen, txh, rxh, txdone, rxdone, 
                                 evset, reply, c2p, p2c, res, got, age, passed, 
                                 rxTO, noact, pinged, nupd, lock, sent, 
                                 answered, ignored, lost, stalePark, discarded, 
                                 raisedBy, stack, sh, te, rmsg, re, px, rbuf, 
                                 pr >>

d_txjoin(self) == /\ pc[self] = "d_txjoin"
                  /\ IF ~SafeJoin /\ ~txh
                        THEN /\ raisedBy' = (raisedBy \cup {self})
                             /\ pc' = [pc EXCEPT ![self] = "d_raise"]
                        ELSE /\ pc' = [pc EXCEPT ![self] = "d_txwait"]
                             /\ UNCHANGED raisedBy
                  /\ UNCHANGED << txq, pending, active, cleanup, running, shut, 
                                  ioObj, connOpen, txh, rxh, txdone, rxdone, 
                                  evset, reply, c2p, p2c, res, got, age, 
                                  passed, rxTO, noact, pinged, nupd, lock, 
                                  sent, answered, ignored, lost, stalePark, 
                                  discarded, stack, sh, te, rmsg, re, px, rbuf, 
                                  pr >>

d_txwait(self) == /\ pc[self] = "d_txwait"
                  /\ txdone
                  /\ pc' = [pc EXCEPT ![self] = "d_txclr"]
                  /\ UNCHANGED << txq, pending, active, cleanup, running, shut, 
                                  ioObj, connOpen, txh, rxh, txdone, rxdone, 
                                  evset, reply, c2p, p2c, res, got, age, 
                                  passed, rxTO, noact, pinged, nupd, lock, 
                                  sent, answered, ignored, lost, stalePark, 
                                  discarded, raisedBy, stack, sh, te, rmsg, re, 
                                  px, rbuf, pr >>

d_txclr(self) == /\ pc[self] = "d_txclr"
                 /\ txh' = FALSE
                 /\ pc' = [pc EXCEPT ![self] = "d_rxchk"]
                 /\ UNCHANGED << txq, pending, active, cleanup, running, shut, 
                                 ioObj, connOpen, rxh, txdone, rxdone, evset, 
                                 reply, c2p, p2c, res, got, age, passed, rxTO, 
                                 noact, pinged, nupd, lock, sent, answered, 
                                 ignored, lost, stalePark, discarded, raisedBy, 
                                 stack, sh, te, rmsg, re, px, rbuf, pr >>

d_rxchk(self) == /\ pc[self] = "d_rxchk"
                 /\ IF rxh
                       THEN /\ pc' = [pc EXCEPT ![self] = "d_rxjoin"]
                       ELSE /\ pc' = [pc EXCEPT ![self] = "d_io"]
                 /\ UNCHANGED << txq, pending, active, cleanup, running, shut, 
                                 ioObj, connOpen, txh, rxh, txdone, rxdone, 
                                 evset, reply, c2p, p2c, res, got, age, passed, 
                                 rxTO, noact, pinged, nupd, lock, sent, 
                                 answered, ignored, lost, stalePark, discarded, 
                                 raisedBy, stack, sh, te, rmsg, re, px, rbuf, 
                                 pr >>

d_rxjoin(self) == /\ pc[self] = "d_rxjoin"
                  /\ IF ~SafeJoin /\ ~rxh
                        THEN /\ raisedBy' = (raisedBy \cup {self})
                             /\ pc' = [pc EXCEPT ![self] = "d_raise"]
                        ELSE /\ pc' = [pc EXCEPT ![self] = "d_rxwait"]
                             /\ UNCHANGED raisedBy
                  /\ UNCHANGED << txq, pending, active, cleanup, running, shut, 
                                  ioObj, connOpen, txh, rxh, txdone, rxdone, 
                                  evset, reply, c2p, p2c, res, got, age, 
                                  passed, rxTO, noact, pinged, nupd, lock, 
                                  sent, answered, ignored, lost, stalePark, 
                                  discarded, stack, sh, te, rmsg, re, px, rbuf, 
                                  pr >>

d_rxwait(self) == /\ pc[self] = "d_rxwait"
                  /\ rxdone
                  /\ pc' = [pc EXCEPT ![self] = "d_rxclr"]
                  /\ UNCHANGED << txq, pending, active, cleanup, running, shut, 
                                  ioObj, connOpen, txh, rxh, txdone, rxdone, 
                                  evset, reply, c2p, p2c, res, got, age, 
                                  passed, rxTO, noact, pinged, nupd, lock, 
                                  sent, answered, ignored, lost, stalePark, 
                                  discarded, raisedBy, stack, sh, te, rmsg, re, 
                                  px, rbuf, pr >>

d_rxclr(self) == /\ pc[self] = "d_rxclr"
                 /\ rxh' = FALSE
                 /\ pc' = [pc EXCEPT ![self] = "d_io"]
                 /\ UNCHANGED << txq, pending, active, cleanup, running, shut, 
                                 ioObj, connOpen, txh, txdone, rxdone, evset, 
                                 reply, c2p, p2c, res, got, age, passed, rxTO, 
                                 noact, pinged, nupd, lock, sent, answered, 
                                 ignored, lost, stalePark, discarded, raisedBy, 
                                 stack, sh, te, rmsg, re, px, rbuf, pr >>

d_io(self) == /\ pc[self] = "d_io"
              /\ ioObj' = FALSE
              /\ pc' = [pc EXCEPT ![self] = "d_act"]
              /\ UNCHANGED << txq, pending, active, cleanup, running, shut, 
                              connOpen, txh, rxh, txdone, rxdone, evset, reply, 
                              c2p, p2c, res, got, age, passed, rxTO, noact, 
                              pinged, nupd, lock, sent, answered, ignored, 
                              lost, stalePark, discarded, raisedBy, stack, sh, 
                              te, rmsg, re, px, rbuf, pr >>

d_act(self) == /\ pc[self] = "d_act"
               /\ evset' = [e \in Entries |-> evset[e] \/ (\E k \in Keys : active[k] = e)]
               /\ active' = [k \in Keys |-> NoE]
               /\ pc' = [pc EXCEPT ![self] = "d_pend"]
               /\ UNCHANGED << txq, pending, cleanup, running, shut, ioObj, 
                               connOpen, txh, rxh, txdone, rxdone, reply, c2p, 
                               p2c, res, got, age, passed, rxTO, noact, pinged, 
                               nupd, lock, sent, answered, ignored, lost, 
                               stalePark, discarded, raisedBy, stack, sh, te, 
                               rmsg, re, px, rbuf, pr >>

d_pend(self) == /\ pc[self] = "d_pend"
                /\ evset' = [e \in Entries |-> evset[e] \/ (\E n \in 1 .. Len(pending) : pending[n] = e)]
                /\ pending' = <<>>
                /\ pc' = [pc EXCEPT ![self] = "d_ret"]
                /\ UNCHANGED << txq, active, cleanup, running, shut, ioObj, 
                                connOpen, txh, rxh, txdone, rxdone, reply, c2p, 
                                p2c, res, got, age, passed, rxTO, noact, 
                                pinged, nupd, lock, sent, answered, ignored, 
                                lost, stalePark, discarded, raisedBy, stack, 
                                sh, te, rmsg, re, px, rbuf, pr >>

d_ret(self) == /\ pc[self] = "d_ret"
               /\ pc' = [pc EXCEPT ![self] = Head(stack[self]).pc]
               /\ sh' = [sh EXCEPT ![self] = Head(stack[self]).sh]
               /\ stack' = [stack EXCEPT ![self] = Tail(stack[self])]
               /\ UNCHANGED << txq, pending, active, cleanup, running, shut, 
                               ioObj, connOpen, txh, rxh, txdone, rxdone, 
                               evset, reply, c2p, p2c, res, got, age, passed, 
                               rxTO, noact, pinged, nupd, lock, sent, answered, 
                               ignored, lost, stalePark, discarded, raisedBy, 
                               te, rmsg, re, px, rbuf, pr >>

d_raise(self) == /\ pc[self] = "d_raise"
                 /\ pc' = [pc EXCEPT ![self] = Head(stack[self]).pc]
                 /\ sh' = [sh EXCEPT ![self] = Head(stack[self]).sh]
                 /\ stack' = [stack EXCEPT ![self] = Tail(stack[self])]
                 /\ UNCHANGED << txq, pending, active, cleanup, running, shut, 
                                 ioObj, connOpen, txh, rxh, txdone, rxdone, 
                                 evset, reply, c2p, p2c, res, got, age, passed, 
                                 rxTO, noact, pinged, nupd, lock, sent, 
                                 answered, ignored, lost, stalePark, discarded, 
                                 raisedBy, te, rmsg, re, px, rbuf, pr >>

disconnect(self) == d_run(self) \/ d_drain(self) \/ d_iosh(self)
                       \/ d_txchk(self) \/ d_txput(self) \/ d_txjoin(self)
                       \/ d_txwait(self) \/ d_txclr(self) \/ d_rxchk(self)
                       \/ d_rxjoin(self) \/ d_rxwait(self) \/ d_rxclr(self)
                       \/ d_io(self) \/ d_act(self) \/ d_pend(self)
                       \/ d_ret(self) \/ d_raise(self)

c_conn(self) == /\ pc[self] = "c_conn"
                /\ passed' = (passed \cup {self})
                /\ pc' = [pc EXCEPT ![self] = "c_put"]
                /\ UNCHANGED << txq, pending, active, cleanup, running, shut, 
                                ioObj, connOpen, txh, rxh, txdone, rxdone, 
                                evset, reply, c2p, p2c, res, got, age, rxTO, 
                                noact, pinged, nupd, lock, sent, answered, 
                                ignored, lost, stalePark, discarded, raisedBy, 
                                stack, sh, te, rmsg, re, px, rbuf, pr >>

c_put(self) == /\ pc[self] = "c_put"
               /\ txq' = Append(txq, self)
               /\ pc' = [pc EXCEPT ![self] = "c_chk"]
               /\ UNCHANGED << pending, active, cleanup, running, shut, ioObj, 
                               connOpen, txh, rxh, txdone, rxdone, evset, 
                               reply, c2p, p2c, res, got, age, passed, rxTO, 
                               noact, pinged, nupd, lock, sent, answered, 
                               ignored, lost, stalePark, discarded, raisedBy, 
                               stack, sh, te, rmsg, re, px, rbuf, pr >>

c_chk(self) == /\ pc[self] = "c_chk"
               /\ IF Recheck /\ ~running
                     THEN /\ evset' = [evset EXCEPT ![self] = TRUE]
                     ELSE /\ TRUE
                          /\ evset' = evset
               /\ pc' = [pc EXCEPT ![self] = "c_wait"]
               /\ UNCHANGED << txq, pending, active, cleanup, running, shut, 
                               ioObj, connOpen, txh, rxh, txdone, rxdone, 
                               reply, c2p, p2c, res, got, age, passed, rxTO, 
                               noact, pinged, nupd, lock, sent, answered, 
                               ignored, lost, stalePark, discarded, raisedBy, 
                               stack, sh, te, rmsg, re, px, rbuf, pr >>

c_wait(self) == /\ pc[self] = "c_wait"
                /\ evset[self] \/ age[self] >= T
                /\ IF evset[self]
                      THEN /\ IF reply[self] = NoE
                                 THEN /\ res' = [res EXCEPT ![self] = "connerr"]
                                      /\ got' = got
                                 ELSE /\ res' = [res EXCEPT ![self] = "reply"]
                                      /\ got' = [got EXCEPT ![self] = reply[self]]
                           /\ UNCHANGED cleanup
                      ELSE /\ cleanup' = (cleanup \cup {self})
                           /\ res' = [res EXCEPT ![self] = "timeout"]
                           /\ got' = got
                /\ pc' = [pc EXCEPT ![self] = "Done"]
                /\ UNCHANGED << txq, pending, active, running, shut, ioObj, 
                                connOpen, txh, rxh, txdone, rxdone, evset, 
                                reply, c2p, p2c, age, passed, rxTO, noact, 
                                pinged, nupd, lock, sent, answered, ignored, 
                                lost, stalePark, discarded, raisedBy, stack, 
                                sh, te, rmsg, re, px, rbuf, pr >>

caller(self) == c_conn(self) \/ c_put(self) \/ c_chk(self) \/ c_wait(self)

t_loop == /\ pc["tx"] = "t_loop"
          /\ IF running
                THEN /\ pc' = [pc EXCEPT !["tx"] = "t_get"]
                ELSE /\ pc' = [pc EXCEPT !["tx"] = "t_end"]
          /\ UNCHANGED << txq, pending, active, cleanup, running, shut, ioObj, 
                          connOpen, txh, rxh, txdone, rxdone, evset, reply, 
                          c2p, p2c, res, got, age, passed, rxTO, noact, pinged, 
                          nupd, lock, sent, answered, ignored, lost, stalePark, 
                          discarded, raisedBy, stack, sh, te, rmsg, re, px, 
                          rbuf, pr >>

t_get == /\ pc["tx"] = "t_get"
         /\ txq # <<>>
         /\ te' = Head(txq)
         /\ txq' = Tail(txq)
         /\ IF te' = Stop
               THEN /\ pc' = [pc EXCEPT !["tx"] = "t_end"]
               ELSE /\ pc' = [pc EXCEPT !["tx"] = "t_lock"]
         /\ UNCHANGED << pending, active, cleanup, running, shut, ioObj, 
                         connOpen, txh, rxh, txdone, rxdone, evset, reply, c2p, 
                         p2c, res, got, age, passed, rxTO, noact, pinged, nupd, 
                         lock, sent, answered, ignored, lost, stalePark, 
                         discarded, raisedBy, stack, sh, rmsg, re, px, rbuf, 
                         pr >>

t_lock == /\ pc["tx"] = "t_lock"
          /\ IF UseLock
                THEN /\ lock = "free"
                     /\ lock' = "tx"
                ELSE /\ TRUE
                     /\ lock' = lock
          /\ pc' = [pc EXCEPT !["tx"] = "t_chk"]
          /\ UNCHANGED << txq, pending, active, cleanup, running, shut, ioObj, 
                          connOpen, txh, rxh, txdone, rxdone, evset, reply, 
                          c2p, p2c, res, got, age, passed, rxTO, noact, pinged, 
                          nupd, sent, answered, ignored, lost, stalePark, 
                          discarded, raisedBy, stack, sh, te, rmsg, re, px, 
                          rbuf, pr >>

t_chk == /\ pc["tx"] = "t_chk"
         /\ IF active[Key(te)] # NoE
               THEN /\ pc' = [pc EXCEPT !["tx"] = "t_park"]
               ELSE /\ pc' = [pc EXCEPT !["tx"] = "t_reg"]
         /\ UNCHANGED << txq, pending, active, cleanup, running, shut, ioObj, 
                         connOpen, txh, rxh, txdone, rxdone, evset, reply, c2p, 
                         p2c, res, got, age, passed, rxTO, noact, pinged, nupd, 
                         lock, sent, answered, ignored, lost, stalePark, 
                         discarded, raisedBy, stack, sh, te, rmsg, re, px, 
                         rbuf, pr >>

t_park == /\ pc["tx"] = "t_park"
          /\ pending' = Append(pending, te)
          /\ IF active[Key(te)] = NoE
                THEN /\ stalePark' = (stalePark \cup {te})
                ELSE /\ TRUE
                     /\ UNCHANGED stalePark
          /\ IF UseLock
                THEN /\ lock' = "free"
                ELSE /\ TRUE
                     /\ lock' = lock
          /\ pc' = [pc EXCEPT !["tx"] = "t_loop"]
          /\ UNCHANGED << txq, active, cleanup, running, shut, ioObj, connOpen, 
                          txh, rxh, txdone, rxdone, evset, reply, c2p, p2c, 
                          res, got, age, passed, rxTO, noact, pinged, nupd, 
                          sent, answered, ignored, lost, discarded, raisedBy, 
                          stack, sh, te, rmsg, re, px, rbuf, pr >>

t_reg == /\ pc["tx"] = "t_reg"
         /\ active' = [active EXCEPT ![Key(te)] = te]
         /\ IF UseLock
               THEN /\ lock' = "free"
               ELSE /\ TRUE
                    /\ lock' = lock
         /\ pc' = [pc EXCEPT !["tx"] = "t_send"]
         /\ UNCHANGED << txq, pending, cleanup, running, shut, ioObj, connOpen, 
                         txh, rxh, txdone, rxdone, evset, reply, c2p, p2c, res, 
                         got, age, passed, rxTO, noact, pinged, nupd, sent, 
                         answered, ignored, lost, stalePark, discarded, 
                         raisedBy, stack, sh, te, rmsg, re, px, rbuf, pr >>

t_send == /\ pc["tx"] = "t_send"
          /\ IF connOpen
                THEN /\ c2p' = Append(c2p, te)
                ELSE /\ TRUE
                     /\ c2p' = c2p
          /\ sent' = (sent \cup {te})
          /\ pc' = [pc EXCEPT !["tx"] = "t_loop"]
          /\ UNCHANGED << txq, pending, active, cleanup, running, shut, ioObj, 
                          connOpen, txh, rxh, txdone, rxdone, evset, reply, 
                          p2c, res, got, age, passed, rxTO, noact, pinged, 
                          nupd, lock, answered, ignored, lost, stalePark, 
                          discarded, raisedBy, stack, sh, te, rmsg, re, px, 
                          rbuf, pr >>

t_end == /\ pc["tx"] = "t_end"
         /\ txh' = FALSE
         /\ /\ sh' = [sh EXCEPT !["tx"] = FALSE]
            /\ stack' = [stack EXCEPT !["tx"] = << [ procedure |->  "disconnect",
                                                     pc        |->  "t_fin",
                                                     sh        |->  sh["tx"] ] >>
                                                 \o stack["tx"]]
         /\ pc' = [pc EXCEPT !["tx"] = "d_run"]
         /\ UNCHANGED << txq, pending, active, cleanup, running, shut, ioObj, 
                         connOpen, rxh, txdone, rxdone, evset, reply, c2p, p2c, 
                         res, got, age, passed, rxTO, noact, pinged, nupd, 
                         lock, sent, answered, ignored, lost, stalePark, 
                         discarded, raisedBy, te, rmsg, re, px, rbuf, pr >>

t_fin == /\ pc["tx"] = "t_fin"
         /\ txdone' = TRUE
         /\ pc' = [pc EXCEPT !["tx"] = "Done"]
         /\ UNCHANGED << txq, pending, active, cleanup, running, shut, ioObj, 
                         connOpen, txh, rxh, rxdone, evset, reply, c2p, p2c, 
                         res, got, age, passed, rxTO, noact, pinged, nupd, 
                         lock, sent, answered, ignored, lost, stalePark, 
                         discarded, raisedBy, stack, sh, te, rmsg, re, px, 
                         rbuf, pr >>

tx == t_loop \/ t_get \/ t_lock \/ t_chk \/ t_park \/ t_reg \/ t_send
         \/ t_end \/ t_fin

r_loop == /\ pc["rx"] = "r_loop"
          /\ IF running
                THEN /\ pc' = [pc EXCEPT !["rx"] = "r_clean"]
                ELSE /\ pc' = [pc EXCEPT !["rx"] = "r_exit"]
          /\ UNCHANGED << txq, pending, active, cleanup, running, shut, ioObj, 
                          connOpen, txh, rxh, txdone, rxdone, evset, reply, 
                          c2p, p2c, res, got, age, passed, rxTO, noact, pinged, 
                          nupd, lock, sent, answered, ignored, lost, stalePark, 
                          discarded, raisedBy, stack, sh, te, rmsg, re, px, 
                          rbuf, pr >>

r_clean == /\ pc["rx"] = "r_clean"
           /\ active' = [k \in Keys |-> IF active[k] \in cleanup THEN NoE ELSE active[k]]
           /\ cleanup' = {}
           /\ pc' = [pc EXCEPT !["rx"] = "r_read"]
           /\ UNCHANGED << txq, pending, running, shut, ioObj, connOpen, txh, 
                           rxh, txdone, rxdone, evset, reply, c2p, p2c, res, 
                           got, age, passed, rxTO, noact, pinged, nupd, lock, 
                           sent, answered, ignored, lost, stalePark, discarded, 
                           raisedBy, stack, sh, te, rmsg, re, px, rbuf, pr >>

r_read == /\ pc["rx"] = "r_read"
          /\ p2c # <<>> \/ ~connOpen \/ rxTO
          /\ IF p2c # <<>>
                THEN /\ rmsg' = Head(p2c)
                     /\ p2c' = Tail(p2c)
                     /\ noact' = 0
                     /\ rxTO' = FALSE
                     /\ pc' = [pc EXCEPT !["rx"] = "r_upd"]
                ELSE /\ IF ~connOpen
                           THEN /\ pc' = [pc EXCEPT !["rx"] = "r_exit"]
                                /\ UNCHANGED << rxTO, noact >>
                           ELSE /\ rxTO' = FALSE
                                /\ noact' = noact + 1
                                /\ IF noact' = H /\ ~pinged
                                      THEN /\ pc' = [pc EXCEPT !["rx"] = "r_ping"]
                                      ELSE /\ pc' = [pc EXCEPT !["rx"] = "r_cont"]
                     /\ UNCHANGED << p2c, rmsg >>
          /\ UNCHANGED << txq, pending, active, cleanup, running, shut, ioObj, 
                          connOpen, txh, rxh, txdone, rxdone, evset, reply, 
                          c2p, res, got, age, passed, pinged, nupd, lock, sent, 
                          answered, ignored, lost, stalePark, discarded, 
                          raisedBy, stack, sh, te, re, px, rbuf, pr >>

r_cont == /\ pc["rx"] = "r_cont"
          /\ pc' = [pc EXCEPT !["rx"] = "r_loop"]
          /\ UNCHANGED << txq, pending, active, cleanup, running, shut, ioObj, 
                          connOpen, txh, rxh, txdone, rxdone, evset, reply, 
                          c2p, p2c, res, got, age, passed, rxTO, noact, pinged, 
                          nupd, lock, sent, answered, ignored, lost, stalePark, 
                          discarded, raisedBy, stack, sh, te, rmsg, re, px, 
                          rbuf, pr >>

r_ping == /\ pc["rx"] = "r_ping"
          /\ pinged' = TRUE
          /\ txq' = Append(txq, Ping)
          /\ pc' = [pc EXCEPT !["rx"] = "r_cont"]
          /\ UNCHANGED << pending, active, cleanup, running, shut, ioObj, 
                          connOpen, txh, rxh, txdone, rxdone, evset, reply, 
                          c2p, p2c, res, got, age, passed, rxTO, noact, nupd, 
                          lock, sent, answered, ignored, lost, stalePark, 
                          discarded, raisedBy, stack, sh, te, rmsg, re, px, 
                          rbuf, pr >>

r_upd == /\ pc["rx"] = "r_upd"
         /\ IF rmsg.kind = "update"
               THEN /\ pc' = [pc EXCEPT !["rx"] = "r_loop"]
               ELSE /\ pc' = [pc EXCEPT !["rx"] = "r_lock"]
         /\ UNCHANGED << txq, pending, active, cleanup, running, shut, ioObj, 
                         connOpen, txh, rxh, txdone, rxdone, evset, reply, c2p, 
                         p2c, res, got, age, passed, rxTO, noact, pinged, nupd, 
                         lock, sent, answered, ignored, lost, stalePark, 
                         discarded, raisedBy, stack, sh, te, rmsg, re, px, 
                         rbuf, pr >>

r_lock == /\ pc["rx"] = "r_lock"
          /\ IF UseLock
                THEN /\ lock = "free"
                     /\ lock' = "rx"
                ELSE /\ TRUE
                     /\ lock' = lock
          /\ pc' = [pc EXCEPT !["rx"] = "r_match"]
          /\ UNCHANGED << txq, pending, active, cleanup, running, shut, ioObj, 
                          connOpen, txh, rxh, txdone, rxdone, evset, reply, 
                          c2p, p2c, res, got, age, passed, rxTO, noact, pinged, 
                          nupd, sent, answered, ignored, lost, stalePark, 
                          discarded, raisedBy, stack, sh, te, rmsg, re, px, 
                          rbuf, pr >>

r_match == /\ pc["rx"] = "r_match"
           /\ re' = active[rmsg.key]
           /\ active' = [active EXCEPT ![rmsg.key] = NoE]
           /\ IF re' = NoE
                 THEN /\ IF UseLock
                            THEN /\ lock' = "free"
                            ELSE /\ TRUE
                                 /\ lock' = lock
                      /\ pc' = [pc EXCEPT !["rx"] = "r_loop"]
                 ELSE /\ pc' = [pc EXCEPT !["rx"] = "r_set"]
                      /\ lock' = lock
           /\ UNCHANGED << txq, pending, cleanup, running, shut, ioObj, 
                           connOpen, txh, rxh, txdone, rxdone, evset, reply, 
                           c2p, p2c, res, got, age, passed, rxTO, noact, 
                           pinged, nupd, sent, answered, ignored, lost, 
                           stalePark, discarded, raisedBy, stack, sh, te, rmsg, 
                           px, rbuf, pr >>

r_set == /\ pc["rx"] = "r_set"
         /\ reply' = [reply EXCEPT ![re] = rmsg.gid]
         /\ evset' = [evset EXCEPT ![re] = TRUE]
         /\ pc' = [pc EXCEPT !["rx"] = "r_drain"]
         /\ UNCHANGED << txq, pending, active, cleanup, running, shut, ioObj, 
                         connOpen, txh, rxh, txdone, rxdone, c2p, p2c, res, 
                         got, age, passed, rxTO, noact, pinged, nupd, lock, 
                         sent, answered, ignored, lost, stalePark, discarded, 
                         raisedBy, stack, sh, te, rmsg, re, px, rbuf, pr >>

r_drain == /\ pc["rx"] = "r_drain"
           /\ IF UseLock
                 THEN /\ rbuf' = pending
                      /\ pending' = <<>>
                      /\ IF UseLock
                            THEN /\ lock' = "free"
                            ELSE /\ TRUE
                                 /\ lock' = lock
                      /\ pc' = [pc EXCEPT !["rx"] = "r_requeue"]
                 ELSE /\ pc' = [pc EXCEPT !["rx"] = "r_drain2"]
                      /\ UNCHANGED << pending, lock, rbuf >>
           /\ UNCHANGED << txq, active, cleanup, running, shut, ioObj, 
                           connOpen, txh, rxh, txdone, rxdone, evset, reply, 
                           c2p, p2c, res, got, age, passed, rxTO, noact, 
                           pinged, nupd, sent, answered, ignored, lost, 
                           stalePark, discarded, raisedBy, stack, sh, te, rmsg, 
                           re, px, pr >>

r_requeue == /\ pc["rx"] = "r_requeue"
             /\ IF rbuf # <<>>
                   THEN /\ px' = Head(rbuf)
                        /\ rbuf' = Tail(rbuf)
                        /\ txq' = Append(txq, px')
                        /\ pc' = [pc EXCEPT !["rx"] = "r_requeue"]
                   ELSE /\ pc' = [pc EXCEPT !["rx"] = "r_next"]
                        /\ UNCHANGED << txq, px, rbuf >>
             /\ UNCHANGED << pending, active, cleanup, running, shut, ioObj, 
                             connOpen, txh, rxh, txdone, rxdone, evset, reply, 
                             c2p, p2c, res, got, age, passed, rxTO, noact, 
                             pinged, nupd, lock, sent, answered, ignored, lost, 
                             stalePark, discarded, raisedBy, stack, sh, te, 
                             rmsg, re, pr >>

r_drain2 == /\ pc["rx"] = "r_drain2"
            /\ IF pending # <<>>
                  THEN /\ px' = Head(pending)
                       /\ pending' = Tail(pending)
                       /\ pc' = [pc EXCEPT !["rx"] = "r_dput"]
                  ELSE /\ pc' = [pc EXCEPT !["rx"] = "r_next"]
                       /\ UNCHANGED << pending, px >>
            /\ UNCHANGED << txq, active, cleanup, running, shut, ioObj, 
                            connOpen, txh, rxh, txdone, rxdone, evset, reply, 
                            c2p, p2c, res, got, age, passed, rxTO, noact, 
                            pinged, nupd, lock, sent, answered, ignored, lost, 
                            stalePark, discarded, raisedBy, stack, sh, te, 
                            rmsg, re, rbuf, pr >>

r_dput == /\ pc["rx"] = "r_dput"
          /\ txq' = Append(txq, px)
          /\ pc' = [pc EXCEPT !["rx"] = "r_drain2"]
          /\ UNCHANGED << pending, active, cleanup, running, shut, ioObj, 
                          connOpen, txh, rxh, txdone, rxdone, evset, reply, 
                          c2p, p2c, res, got, age, passed, rxTO, noact, pinged, 
                          nupd, lock, sent, answered, ignored, lost, stalePark, 
                          discarded, raisedBy, stack, sh, te, rmsg, re, px, 
                          rbuf, pr >>

r_next == /\ pc["rx"] = "r_next"
          /\ TRUE
          /\ pc' = [pc EXCEPT !["rx"] = "r_loop"]
          /\ UNCHANGED << txq, pending, active, cleanup, running, shut, ioObj, 
                          connOpen, txh, rxh, txdone, rxdone, evset, reply, 
                          c2p, p2c, res, got, age, passed, rxTO, noact, pinged, 
                          nupd, lock, sent, answered, ignored, lost, stalePark, 
                          discarded, raisedBy, stack, sh, te, rmsg, re, px, 
                          rbuf, pr >>

r_exit == /\ pc["rx"] = "r_exit"
          /\ rxh' = FALSE
          /\ /\ sh' = [sh EXCEPT !["rx"] = FALSE]
             /\ stack' = [stack EXCEPT !["rx"] = << [ procedure |->  "disconnect",
                                                      pc        |->  "r_fin",
                                                      sh        |->  sh["rx"] ] >>
                                                  \o stack["rx"]]
          /\ pc' = [pc EXCEPT !["rx"] = "d_run"]
          /\ UNCHANGED << txq, pending, active, cleanup, running, shut, ioObj, 
                          connOpen, txh, txdone, rxdone, evset, reply, c2p, 
                          p2c, res, got, age, passed, rxTO, noact, pinged, 
                          nupd, lock, sent, answered, ignored, lost, stalePark, 
                          discarded, raisedBy, te, rmsg, re, px, rbuf, pr >>

r_fin == /\ pc["rx"] = "r_fin"
         /\ rxdone' = TRUE
         /\ pc' = [pc EXCEPT !["rx"] = "Done"]
         /\ UNCHANGED << txq, pending, active, cleanup, running, shut, ioObj, 
                         connOpen, txh, rxh, txdone, evset, reply, c2p, p2c, 
                         res, got, age, passed, rxTO, noact, pinged, nupd, 
                         lock, sent, answered, ignored, lost, stalePark, 
                         discarded, raisedBy, stack, sh, te, rmsg, re, px, 
                         rbuf, pr >>

rx == r_loop \/ r_clean \/ r_read \/ r_cont \/ r_ping \/ r_upd \/ r_lock
         \/ r_match \/ r_set \/ r_drain \/ r_requeue \/ r_drain2 \/ r_dput
         \/ r_next \/ r_exit \/ r_fin

p_loop == /\ pc["peer"] = "p_loop"
          /\ \/ /\ c2p # <<>> /\ connOpen
                /\ pr' = Head(c2p)
                /\ c2p' = Tail(c2p)
                /\ pc' = [pc EXCEPT !["peer"] = "p_ans"]
                /\ UNCHANGED <<connOpen, p2c, nupd, lost>>
             \/ /\ nupd < MaxUpd /\ connOpen
                /\ nupd' = nupd + 1
                /\ p2c' = Append(p2c, [kind |-> "update", key |-> "upd", gid |-> NoE])
                /\ pc' = [pc EXCEPT !["peer"] = "p_loop"]
                /\ UNCHANGED <<connOpen, c2p, lost, pr>>
             \/ /\ CanDrop /\ connOpen /\ AllPassed
                /\ connOpen' = FALSE
                /\ lost' = TRUE
                /\ pc' = [pc EXCEPT !["peer"] = "p_loop"]
                /\ UNCHANGED <<c2p, p2c, nupd, pr>>
          /\ UNCHANGED << txq, pending, active, cleanup, running, shut, ioObj, 
                          txh, rxh, txdone, rxdone, evset, reply, res, got, 
                          age, passed, rxTO, noact, pinged, lock, sent, 
                          answered, ignored, stalePark, discarded, raisedBy, 
                          stack, sh, te, rmsg, re, px, rbuf >>

p_ans == /\ pc["peer"] = "p_ans"
         /\ \/ /\ IF connOpen
                     THEN /\ p2c' = Append(p2c, [kind |-> "reply", key |-> Key(pr), gid |-> pr])
                          /\ answered' = (answered \cup {pr})
                     ELSE /\ TRUE
                          /\ UNCHANGED << p2c, answered >>
               /\ UNCHANGED ignored
            \/ /\ pr \in MayIgnore
               /\ ignored' = (ignored \cup {pr})
               /\ UNCHANGED <<p2c, answered>>
         /\ pc' = [pc EXCEPT !["peer"] = "p_loop"]
         /\ UNCHANGED << txq, pending, active, cleanup, running, shut, ioObj, 
                         connOpen, txh, rxh, txdone, rxdone, evset, reply, c2p, 
                         res, got, age, passed, rxTO, noact, pinged, nupd, 
                         lock, sent, lost, stalePark, discarded, raisedBy, 
                         stack, sh, te, rmsg, re, px, rbuf, pr >>

peer == p_loop \/ p_ans

u_wait == /\ pc["user"] = "u_wait"
          /\ WithUser /\ AllPassed
          /\ /\ sh' = [sh EXCEPT !["user"] = TRUE]
             /\ stack' = [stack EXCEPT !["user"] = << [ procedure |->  "disconnect",
                                                        pc        |->  "u_ret",
                                                        sh        |->  sh["user"] ] >>
                                                    \o stack["user"]]
          /\ pc' = [pc EXCEPT !["user"] = "d_run"]
          /\ UNCHANGED << txq, pending, active, cleanup, running, shut, ioObj, 
                          connOpen, txh, rxh, txdone, rxdone, evset, reply, 
                          c2p, p2c, res, got, age, passed, rxTO, noact, pinged, 
                          nupd, lock, sent, answered, ignored, lost, stalePark, 
                          discarded, raisedBy, te, rmsg, re, px, rbuf, pr >>

u_ret == /\ pc["user"] = "u_ret"
         /\ TRUE
         /\ pc' = [pc EXCEPT !["user"] = "Done"]
         /\ UNCHANGED << txq, pending, active, cleanup, running, shut, ioObj, 
                         connOpen, txh, rxh, txdone, rxdone, evset, reply, c2p, 
                         p2c, res, got, age, passed, rxTO, noact, pinged, nupd, 
                         lock, sent, answered, ignored, lost, stalePark, 
                         discarded, raisedBy, stack, sh, te, rmsg, re, px, 
                         rbuf, pr >>

user == u_wait \/ u_ret

k_tick == /\ pc["clock"] = "k_tick"
          /\ /\ \A i \in Callers : (pc[i] = "Done" \/ (pc[i] = "c_wait" /\ ~evset[i] /\ age[i] < T))
             /\ ((pc["tx"] = "t_get" /\ txq = <<>>) \/ (pc["tx"] = "Done")
                   \/ (pc["tx"] = "d_rxwait" /\ ~rxdone))
             /\ ((pc["rx"] = "r_read" /\ p2c = <<>> /\ connOpen /\ ~rxTO) \/ (pc["rx"] = "Done")
                   \/ (pc["rx"] = "d_txwait" /\ ~txdone))
             /\ pc["peer"] = "p_loop" /\ (c2p = <<>> \/ ~connOpen)
             /\ (pc["user"] \in {"u_wait", "Done"} \/ (pc["user"] = "d_txwait" /\ ~txdone)
                   \/ (pc["user"] = "d_rxwait" /\ ~rxdone))
             /\ \E i \in Callers : pc[i] = "c_wait"
          /\ age' = [i \in Callers |-> IF Waiting(i) THEN age[i] + 1 ELSE age[i]]
          /\ IF pc["rx"] = "r_read"
                THEN /\ IF Streaming /\ connOpen
                           THEN /\ p2c' = Append(p2c, [kind |-> "update", key |-> "upd", gid |-> NoE])
                                /\ rxTO' = rxTO
                           ELSE /\ rxTO' = TRUE
                                /\ p2c' = p2c
                ELSE /\ TRUE
                     /\ UNCHANGED << p2c, rxTO >>
          /\ pc' = [pc EXCEPT !["clock"] = "k_tick"]
          /\ UNCHANGED << txq, pending, active, cleanup, running, shut, ioObj, 
                          connOpen, txh, rxh, txdone, rxdone, evset, reply, 
                          c2p, res, got, passed, noact, pinged, nupd, lock, 
                          sent, answered, ignored, lost, stalePark, discarded, 
                          raisedBy, stack, sh, te, rmsg, re, px, rbuf, pr >>

clock == k_tick

Next == tx \/ rx \/ peer \/ user \/ clock
           \/ (\E self \in ProcSet: disconnect(self))
           \/ (\E self \in Callers: caller(self))

Spec == /\ Init /\ [][Next]_vars
        /\ \A self \in Callers : WF_vars(caller(self))
        /\ WF_vars(tx) /\ WF_vars(disconnect("tx"))
        /\ WF_vars(rx) /\ WF_vars(disconnect("rx"))
        /\ WF_vars(peer)

\* END TRANSLATION

SameKey == [i \in Callers |-> "k1"]
DiffKey == [i \in Callers |-> i]
(* ---------------------------- properties ---------------------------------- *)
Returned(i) == res[i] # "none"

(* every caller that returns a reply returns the one answering its own request *)
OwnReply == \A i \in Callers : res[i] = "reply" => got[i] = i
(* no reply is handed to two callers *)
AtMostOnce == \A i, j \in Callers : (i # j /\ res[i] = "reply" /\ res[j] = "reply") => got[i] # got[j]
(* a time-out is only acceptable if the request (or a colliding one it had to queue behind) *)
(* reached the peer, the peer never answered,                                               *)
(* and the connection was not lost: a responsive peer never produces a time-out, and after *)
(* a loss callers are released with a connection error instead of waiting it out           *)
NoSpuriousTimeout == \A i \in Callers : res[i] = "timeout" =>
                        ((\E j \in ignored : Key(j) = Key(i)) /\ ~lost)
(* the shutdown completes without raising *)
ShutdownClean == raisedBy = {}
(* once the connection is gone and every thread has come to rest, nobody is still waiting,  *)
(* and no worker is left *)
TxRest == \/ pc["tx"] = "Done" \/ (pc["tx"] = "t_get" /\ txq = <<>>)
          \/ (pc["tx"] = "d_rxwait" /\ ~rxdone) \/ (pc["tx"] = "d_txwait" /\ ~txdone)
RxRest == \/ pc["rx"] = "Done" \/ (pc["rx"] = "r_read" /\ p2c = <<>> /\ connOpen /\ ~rxTO)
          \/ (pc["rx"] = "d_rxwait" /\ ~rxdone) \/ (pc["rx"] = "d_txwait" /\ ~txdone)
UserRest == \/ pc["user"] \in {"Done", "u_wait"}
            \/ (pc["user"] = "d_rxwait" /\ ~rxdone) \/ (pc["user"] = "d_txwait" /\ ~txdone)
AllAtRest == (\A i \in Callers : pc[i] = "Done") /\ TxRest /\ RxRest /\ UserRest
NoWorkerLeft == (lost /\ AllAtRest) => (pc["tx"] = "Done" /\ pc["rx"] = "Done" /\ pc["user"] \in {"Done", "u_wait"})
=============================================================================
