SPECIFICATION TSpec
CONSTANTS
  Names = {"a"}
  IntVals <- IV_small
  Specials = {}
  DispNames = {""}
  MaxPieces = 1
  MaxExt = 1
  MaxDepth = 1
  AsImpl = {}
CONSTRAINT Track
INVARIANT Done
INVARIANT Sound
POSTCONDITION Verdicts
CHECK_DEADLOCK FALSE
