SPECIFICATION GSpec
CONSTANTS
  Vals = {0, 16, 48}
  Ramps = {16}
  Jitters = {0}
  Shapes = {"ramp", "writable", "readable"}
  StartHv = {16}
  StartTarget = {16}
  Depth = 4
  MaxTargets = 1
  MaxStops = 0
  MaxRamps = 0
  MaxReads = 1
  MaxX = 1
CONSTRAINT Bound
ACTION_CONSTRAINT Canon
INVARIANT Emit1
CHECK_DEADLOCK FALSE
