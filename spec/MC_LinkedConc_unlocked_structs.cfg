SPECIFICATION Spec
CONSTANTS
  Writers = {"w1", "w2", "w3"}
  Locked = FALSE
  Modes = {"structs"}
INVARIANT ConsistentAtRest
PROPERTY AnnouncedConsistent
CHECK_DEADLOCK FALSE
