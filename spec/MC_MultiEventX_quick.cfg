SPECIFICATION MSpec
CONSTANTS
  Threads = {"a", "b"}
  Inf = 99
  Slack = 0
  Ids = {"e1"}
  ActIds = {"a1"}
  RaisingActs = {}
  NewTimeouts = {2}
  WaitTimeouts = {1}
  Dto = 99
  MaxCalls = 3
  MaxTime = 1
INVARIANT ActionsOnce
INVARIANT QueuedOnlyWhilePending
INVARIANT FlusherHasWork
INVARIANT PendingCreated
INVARIANT NoContractDeadlock
INVARIANT WaitLimitSane
PROPERTY ActionsOnlyWhenSet
CHECK_DEADLOCK FALSE
