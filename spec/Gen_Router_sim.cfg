SPECIFICATION GSpec
CONSTANTS
  Nodes = {"A", "B"}
  Order <- OrderAB
  ModsOf <- ModsAB
  Params = {"value", "sp"}
  Values = {1}
  UpErrs = {"hw"}
  Conns = {"c1", "c2"}
  StartDown = {}
  ReqArgs <- OneArg
  ReqConns <- OneConn
  ReqMods <- ModsB
  WaitSteps = {2, 12}
  ReadErrChoice = {TRUE, FALSE}
  GiveUpErrChoice = {TRUE, FALSE}
  Depth = 9
  Thin = 1
INVARIANT EmitEnd
CHECK_DEADLOCK FALSE
