\* simulated deep behaviours; the two Choice sets are narrowed to the alternatives the current implementation
\* takes, only to waste fewer behaviours (a mismatch at a loose step of a simulated behaviour is inconclusive anyway)
SPECIFICATION GSpec
CONSTANTS
  Nodes = {"A", "B"}
  Order <- OrderAB
  ModsOf <- ModsAB
  Params = {"value", "sp"}
  Values = {1}
  UpErrs = {"hw"}
  Conns = {"c1", "c2"}
  StartDown = {}
  ReqArgs <- OneArg
  ReqConns <- OneConn
  ReqMods <- ModsB
  WaitSteps = {2, 12}
  ReadErrChoice = {TRUE}
  GiveUpErrChoice = {FALSE}
  Depth = 9
  Thin = 1
INVARIANT EmitEnd
CHECK_DEADLOCK FALSE
