SPECIFICATION GSpec
CONSTANTS
  MaxExtra = 4
  MaxExtraWhenMissing = 1
INVARIANT Emit1
CHECK_DEADLOCK FALSE
