SPECIFICATION GSpec
CONSTANTS
  MaxExtra = 3
  MaxExtraWhenMissing = 1
INVARIANT Emit1
CHECK_DEADLOCK FALSE
