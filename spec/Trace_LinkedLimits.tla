-------------------------- MODULE Trace_LinkedLimits --------------------------
(* code -> spec: recorded executions of real modules with Limit parameters.    *)
(* Event 1: kind, hook values and the initial observation.  Observed per       *)
(* event: lo, hi (current limit parameters, datatype bound when there is no    *)
(* such parameter), val, drv (last value that reached the driver), last, and   *)
(* the client's view vlo, vhi, vval.                                           *)
EXTENDS LinkedLimits, Json, IOUtils, TLCExt, Sequences, SequencesExt
Traces == JsonDeserialize(IOEnv.TRACE_FILE)
NT == Len(Traces)
VARIABLES t, l
ASSUME \A i \in 1 .. NT : TLCSet(i, 1)
Ev == Traces[t][l]

Seen(e) == e.vlo = e.lo /\ e.vhi = e.hi /\ e.vval = e.val /\ e.drv = e.val

TInit == /\ t \in 1 .. NT /\ l = 2
         /\ LET e == Traces[t][1] IN
              /\ kind = e.kind /\ forb = ToSet(e.forbidden) /\ hexc = e.hexc
              /\ lo = e.lo /\ hi = e.hi /\ val = e.val /\ last = "ok"
              /\ Lo <= lo /\ lo <= Hi /\ Lo <= hi /\ hi <= Hi /\ (kind = "limits" => lo <= hi)
              /\ e.cfg = <<lo, hi>>      \* the limit parameters start with the configured values
              /\ val = Lo /\ Seen(e)

TStep ==
  /\ l <= Len(Traces[t])
  /\ l' = l + 1 /\ t' = t
  /\ lo' = Ev.lo /\ hi' = Ev.hi /\ val' = Ev.val /\ last' = Ev.last
  /\ \/ Ev.ev = "p" /\ WriteP(Ev.v)
     \/ Ev.ev = "min" /\ SetMin(Ev.v)
     \/ Ev.ev = "max" /\ SetMax(Ev.v)
     \/ Ev.ev = "limits" /\ SetLimits(Ev.a, Ev.b, Ev.via # "assign")
  /\ Seen(Ev)

TSpec == TInit /\ [][TStep]_<<lvars, t, l>>
Track == TLCSet(t, IF l > TLCGet(t) THEN l ELSE TLCGet(t))
Verdicts == \A i \in 1 .. NT :
   IF TLCGet(i) = Len(Traces[i]) + 1 THEN PrintT(<<"ACCEPT", i>>)
   ELSE PrintT(<<"REJECT", i, TLCGet(i), "event not explained by LinkedLimits">>)
=============================================================================
