\* documents X06-stale-interface-announced at design level: EXPECTED TO FAIL AnnounceExact
SPECIFICATION Spec
CONSTANTS
  NIf = 2
  Kinds = {"ok"}
  Req = {"res1"}
  Repaired = FALSE
  FixNoIf = FALSE
  Crashes = FALSE
INVARIANT AnnounceExact
CHECK_DEADLOCK FALSE
