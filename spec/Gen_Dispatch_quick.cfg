SPECIFICATION GSpec
CONSTANTS
  Families = {"A", "B", "C1", "E", "K", "R", "G"}
  Depth = 4
VIEW View
CONSTRAINT Bound
ACTION_CONSTRAINT EmitStep
INVARIANT EmitShape
CHECK_DEADLOCK FALSE
