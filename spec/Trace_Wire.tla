------------------------------ MODULE Trace_Wire ------------------------------
(* code -> spec: executions recorded from the real TCPRequestHandler on a fake     *)
(* socket are validated against Wire.  Every event is judged by a total step        *)
(* function: the first clause of the property that does not hold is reported         *)
(* (REJECT t l clause); named deviations (Dev_Name) describe what the current code is   *)
(* known to do wrong, so that the rest of such a trace is still validated - a trace  *)
(* that needed one is reported (DEV t name) and judged by the harness' findings list.*)
EXTENDS Wire, Json, IOUtils, TLCExt, SequencesExt
Traces == JsonDeserialize(IOEnv.TRACE_FILE)
NT == Len(Traces)
VARIABLES t, l, bad, devs, answers, ended,
          obroken      \* the second connection's socket has failed on sending
tvars == <<vars, t, l, bad, devs, answers, ended, obroken>>
ASSUME \A i \in 1 .. NT : TLCSet(i, 1) /\ TLCSet(NT + i, "") /\ TLCSet(2 * NT + i, {})
Ev == Traces[t][l]

(* ---- deviations of the current implementation (findings.d/C07.json) ---- *)
DevDecodeErrorEcho(r, o) == r.decfail /\ (r.padded \/ r.nonascii) /\ o.iserr /\ ErrOK(o)
DevIdentAlias(r, o) == r.act = "_ident" /\ ~o.iserr /\ o.action = "ident" /\ o.spec = ""
DevDeactivateSpec(r, o) == r.act = "deactivate" /\ r.spec # "" /\ o.action = "inactive" /\ o.spec = ""
DevNaN(o) == ~o.strict /\ o.nanonly

(* ---- judgement of one output line of the connection under test: <<clause, deviations>> ---- *)
OutVerdict(o) ==
    IF ~o.utf8 THEN <<"UTF8", {}>>
    ELSE IF ~(o.strict \/ DevNaN(o)) THEN <<"StrictJSON", {}>>
    ELSE LET dn == IF o.strict THEN {} ELSE {"Dev_NaN"} IN
    IF IsAsync(o, pend) THEN <<"", dn>>
    ELSE IF pend = <<>> THEN <<"OnePerLine.reply_without_request", {}>>
    ELSE LET r == Head(pend) IN
    IF ~ErrOK(o) THEN <<"ErrorClassIsSECoP", {}>>
    ELSE IF ~(ActionOK(r, o) \/ DevDecodeErrorEcho(r, o) \/ DevIdentAlias(r, o)) THEN <<"Belongs.action", {}>>
    ELSE IF ~(SpecOK(r, o) \/ DevDecodeErrorEcho(r, o) \/ DevDeactivateSpec(r, o) \/ DevIdentAlias(r, o)) THEN <<"Belongs.specifier", {}>>
    ELSE <<"", dn \cup (IF ActionOK(r, o) /\ SpecOK(r, o) THEN {}
                        ELSE IF DevDecodeErrorEcho(r, o) THEN {"Dev_DecodeErrorEcho"}
                        ELSE IF DevIdentAlias(r, o) THEN {"Dev_IdentAlias"} ELSE {"Dev_DeactivateSpec"})>>

OtherVerdict(e) ==       \* a line on the second connection of the same dispatcher
    LET o == e.o IN
    IF ~o.utf8 THEN <<"UTF8", {}>>
    ELSE IF ~(o.strict \/ DevNaN(o)) THEN <<"StrictJSON", {}>>
    ELSE IF ~(e.active /\ (o.action = "update" \/ (o.iserr /\ o.base = "update"))) THEN <<"Leak", {}>>
    ELSE <<"", IF o.strict THEN {} ELSE {"Dev_NaN"}>>

NonMalDigests == LET f == SelectSeq(answers, LAMBDA a : ~a.mal) IN [i \in 1 .. Len(f) |-> f[i].dig]

Verdict ==
    CASE Ev.ev = "chunk_in" -> <<IF ended \/ peer # "open" THEN "input after the end" ELSE "", {}>>
      [] Ev.ev = "line_out" -> IF peer = "deaf" THEN <<"NoWriteAfterFailure", {}>> ELSE OutVerdict(Ev.o)
      [] Ev.ev = "other_out" -> IF obroken THEN <<"NoWriteAfterFailure", {}>> ELSE OtherVerdict(Ev)
      [] Ev.ev = "other_fail" -> <<"", {}>>
      [] Ev.ev = "peer" -> <<IF peer = "open" /\ ~ended THEN "" ELSE "peer event out of place", {}>>
      [] Ev.ev = "handler_end" ->       \* Wire!HandlerEnd: only after the peer left, never by an exception
            <<IF Ev.reason # "returned" \/ peer = "open" THEN "HandlerSurvives"
              ELSE IF peer = "eof" /\ pend # <<>> THEN "OnePerLine.line_unanswered" ELSE "", {}>>
      [] Ev.ev = "ni" -> <<IF NonMalDigests = Ev.ref THEN "" ELSE "NonInterference", {}>>
      [] Ev.ev = "same" -> <<IF [i \in 1 .. Len(answers) |-> answers[i].dig] = Ev.ref THEN ""
                             ELSE "ChunkingIndependence", {}>>
      [] Ev.ev = "frag" -> <<IF Ev.half = 1
                             THEN (IF torn THEN "NoWriteAfterFailure"
                                   ELSE IF \E u \in Threads : pc[u] = "half" THEN "LinesWhole" ELSE "")
                             ELSE (IF pc[Ev.th] = "half" THEN "" ELSE "LinesWhole"), {}>>
      [] Ev.ev = "frag_fail" -> <<IF pc[Ev.th] = "half" THEN "" ELSE "LinesWhole", {}>>
      [] Ev.ev = "codec" -> IF ~(Ev.a2 = Ev.a /\ Ev.s2 = Ev.s /\ Ev.d2 = Ev.d) THEN <<"Codec.inverse", {}>>
                            ELSE IF Ev.utf8 /\ Ev.strict THEN <<"", {}>>
                            ELSE IF Ev.utf8 /\ Ev.nanonly THEN <<"", {"Dev_NaN"}>>
                            ELSE <<"Codec.wellformed", {}>>
      [] OTHER -> <<"unknown event", {}>>

IsReply == Ev.ev = "line_out" /\ ~IsAsync(Ev.o, pend)
Effect ==
    /\ pend' = IF Ev.ev = "chunk_in" THEN pend \o Ev.reqs ELSE IF IsReply THEN Tail(pend) ELSE pend
    /\ answers' = IF IsReply THEN Append(answers, [mal |-> Head(pend).mal, dig |-> Ev.o.dig]) ELSE answers
    /\ ended' = (ended \/ Ev.ev = "handler_end")
    /\ peer' = IF Ev.ev = "peer" THEN Ev.what ELSE peer
    /\ obroken' = (obroken \/ Ev.ev = "other_fail")
    /\ torn' = (torn \/ Ev.ev = "frag_fail")
    /\ pc' = IF Ev.ev = "frag" THEN [pc EXCEPT ![Ev.th] = IF Ev.half = 1 THEN "half" ELSE "idle"]
             ELSE IF Ev.ev = "frag_fail" THEN [pc EXCEPT ![Ev.th] = "idle"] ELSE pc

TInit == /\ FIdle /\ LInit /\ SInit
         /\ t \in 1 .. NT /\ l = 1 /\ bad = "" /\ devs = {} /\ answers = <<>> /\ ended = FALSE /\ obroken = FALSE

TStep == /\ bad = "" /\ l <= Len(Traces[t])
         /\ t' = t
         /\ LET v == Verdict IN
            IF v[1] = "" THEN /\ Effect /\ l' = l + 1 /\ bad' = "" /\ devs' = devs \cup v[2]
            ELSE /\ bad' = v[1] /\ UNCHANGED <<l, devs, pend, answers, ended, pc, peer, torn, obroken>>
         /\ UNCHANGED <<fvars, last, serving, lock>>

TSpec == TInit /\ [][TStep]_tvars

Track == /\ TLCSet(t, IF l > TLCGet(t) THEN l ELSE TLCGet(t))
         /\ (bad # "" => TLCSet(NT + t, bad))
         /\ TLCSet(2 * NT + t, TLCGet(2 * NT + t) \cup devs)
Verdicts == \A i \in 1 .. NT :
   /\ IF TLCGet(NT + i) = "" /\ TLCGet(i) = Len(Traces[i]) + 1 THEN PrintT(<<"ACCEPT", i>>)
      ELSE PrintT(<<"REJECT", i, TLCGet(i), IF TLCGet(NT + i) = "" THEN "stuck" ELSE TLCGet(NT + i)>>)
   /\ \A d \in TLCGet(2 * NT + i) : PrintT(<<"DEV", i, d>>)
=============================================================================
