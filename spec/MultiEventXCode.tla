--------------------------- MODULE MultiEventXCode ---------------------------
(* Growth module X04, design level: frappy/lib/multievent.py statement by statement.  Every label is a source *)
(* line of the file as it stood before the repairs b07a78a / 520ac94 / cc1957e (s81 = line 81 ...), one step   *)
(* per line, so that every place where CPython may switch threads is a place where this model may.  Threads    *)
(* run scripts of public calls (scenarios below).  Switches select between the code as it stood (FALSE) and    *)
(* the repaired design, which is what /repo contains now (TRUE; model-checked before the code was changed):    *)
(*   FixLock   wait() takes the emptiness test + deadline() under self._lock; deadline() and waiting_for()     *)
(*             iterate under the lock (b07a78a; before: no lock at all on the reading side)                    *)
(*   FixInit   _SingleEvent.__init__ sets name and deadline BEFORE it registers itself (520ac94; before: after) *)
(*   FixIsSet  _SingleEvent.is_set() == event not in multievent.events (cc1957e; before: the opposite)          *)
(*   Locked    set_/clear_/queue hold self._lock (TRUE in the code; FALSE is a "must fail" mutation)           *)
(* Iterating a Python set that changes size raises RuntimeError; reading an attribute that is not yet assigned *)
(* raises AttributeError; both are modelled (err).                                                             *)
(* threading.Event.wait(timeout): returns True iff the flag is set at entry or set() notifies while blocked.   *)
EXTENDS Integers, Sequences, FiniteSets, TLC

CONSTANTS Threads, Script, InitEv, MaxTime, Inf, RaisingActs,
          FixLock, FixInit, FixIsSet, Locked,
          DetTime      \* TRUE: the clock only goes on when no thread can run (as under harness/detsched.py); FALSE: any time

None == "none"
Unset == -1
Min(a, b) == IF a <= b THEN a ELSE b
Max(a, b) == IF a >= b THEN a ELSE b
Range(s) == {s[j] : j \in DOMAIN s}
Plus(a, b) == IF a = Inf \/ b = Inf THEN Inf ELSE a + b

Op(o, e, to, a) == [op |-> o, e |-> e, to |-> to, a |-> a]
NoOp == Op("none", "", 0, "")
AllOps == UNION {Range(Script[th]) : th \in Threads}
EvIds == DOMAIN InitEv \cup {o.e : o \in {x \in AllOps : x.op = "new"}}

VARIABLES events, flag, lockOwner, lockDepth, actions, evName, evDl,     \* the MultiEvent object
          now,
          pc, ip, loc,                                                    \* the threads
          wres, sres, ires, err,                                          \* result of the last call of each thread
          ran, gdrop, queuedEver, gDl, gQs, g                             \* ghosts (history for the properties)
obj == <<events, flag, lockOwner, lockDepth, actions, evName, evDl>>
vars == <<events, flag, lockOwner, lockDepth, actions, evName, evDl, now, pc, ip, loc, wres, sres, ires, err,
          ran, gdrop, queuedEver, gDl, gQs, g>>

Loc0 == [e |-> "", cont |-> "", isnew |-> FALSE, itSeen |-> {}, itSize |-> -1, cur |-> "", acc |-> 0, names |-> {},
         dres |-> 0, tmo |-> 0, until |-> 0, notified |-> FALSE, ai |-> 1, holds |-> FALSE]
G0 == [bvt |-> 0, sawEmpty |-> FALSE, sawQuiet |-> FALSE, los |-> {}, his |-> {}, nsets |-> {}, dcs |-> {}]

OpOf(th) == IF ip[th] <= Len(Script[th]) THEN Script[th][ip[th]] ELSE NoOp

Init ==
   /\ events = DOMAIN InitEv /\ flag = FALSE /\ lockOwner = None /\ lockDepth = 0 /\ actions = <<>>
   /\ evName = [e \in EvIds |-> IF e \in DOMAIN InitEv THEN e ELSE ""]
   /\ evDl = [e \in EvIds |-> IF e \in DOMAIN InitEv THEN InitEv[e] ELSE Unset]
   /\ gDl = [e \in EvIds |-> IF e \in DOMAIN InitEv THEN InitEv[e] ELSE Unset]
   /\ now = 0
   /\ pc = [th \in Threads |-> "next"] /\ ip = [th \in Threads |-> 1] /\ loc = [th \in Threads |-> Loc0]
   /\ wres = [th \in Threads |-> "none"] /\ sres = [th \in Threads |-> {}] /\ ires = [th \in Threads |-> 0]
   /\ err = [th \in Threads |-> <<>>]
   /\ ran = <<>> /\ gdrop = {} /\ queuedEver = {} /\ gQs = IF DOMAIN InitEv = {} THEN 0 ELSE -1
   /\ g = [th \in Threads |-> G0]

(* ------------------------------------------------------------------ helpers *)
Goto(th, l) == pc' = [pc EXCEPT ![th] = l]
SetLoc(th, r) == loc' = [loc EXCEPT ![th] = r]
(* the call is over: next script position *)
EndOp(th) == /\ pc' = [pc EXCEPT ![th] = "next"] /\ ip' = [ip EXCEPT ![th] = @ + 1] /\ loc' = [loc EXCEPT ![th] = Loc0]
Keep(vs) == UNCHANGED vs
CanLock(th) == ~Locked \/ lockOwner \in {None, th}
Acquire(th) == IF Locked THEN lockOwner' = th /\ lockDepth' = lockDepth + 1 ELSE UNCHANGED <<lockOwner, lockDepth>>
Release(th) == IF Locked THEN /\ lockDepth' = lockDepth - 1
                              /\ lockOwner' = IF lockDepth = 1 THEN None ELSE lockOwner
               ELSE UNCHANGED <<lockOwner, lockDepth>>
ResKeep == UNCHANGED <<wres, sres, ires, err>>
GhostKeep == UNCHANGED <<ran, gdrop, queuedEver, gDl>>

(* an exception leaves the call (the readers hold no lock as the code stands; with FixLock the `with` releases) *)
Raise(th, what) ==
   /\ err' = [err EXCEPT ![th] = Append(@, what)]
   /\ IF loc[th].holds THEN Release(th) ELSE UNCHANGED <<lockOwner, lockDepth>>
   /\ EndOp(th)
   /\ UNCHANGED <<events, flag, actions, evName, evDl, now, wres, sres, ires>> /\ GhostKeep

(* ------------------------------------------------------------------ dispatch *)
Next_(th) ==
   /\ pc[th] = "next"
   /\ LET o == OpOf(th) IN
      /\ o.op # "none"
      /\ CASE o.op = "new"      -> /\ Goto(th, IF FixInit THEN "n37" ELSE "c94")
                                   /\ SetLoc(th, [Loc0 EXCEPT !.e = o.e, !.isnew = TRUE, !.cont = IF FixInit THEN "end" ELSE "n37"])
           [] o.op = "clear"    -> Goto(th, "c94") /\ SetLoc(th, [Loc0 EXCEPT !.e = o.e, !.cont = "end"])
           [] o.op = "set"      -> Goto(th, "s80") /\ SetLoc(th, [Loc0 EXCEPT !.e = o.e, !.cont = "end"])
           [] o.op = "queue"    -> Goto(th, "q137") /\ SetLoc(th, Loc0)
           [] o.op = "wait"     -> Goto(th, IF FixLock THEN "w_acq" ELSE "w106") /\ SetLoc(th, [Loc0 EXCEPT !.cont = "w110"])
           [] o.op = "deadline" -> Goto(th, IF FixLock THEN "r_acq" ELSE "d99") /\ SetLoc(th, [Loc0 EXCEPT !.cont = "d_ret"])
           [] o.op = "wfor"     -> Goto(th, IF FixLock THEN "r_acq" ELSE "f117") /\ SetLoc(th, Loc0)
           [] o.op = "isset"    -> Goto(th, "i50") /\ SetLoc(th, [Loc0 EXCEPT !.e = o.e])
           [] o.op = "sleep"    -> Goto(th, "sleep") /\ SetLoc(th, [Loc0 EXCEPT !.until = Min(now + o.to, MaxTime)])
   /\ UNCHANGED <<ip, now>> /\ Keep(obj) /\ ResKeep /\ GhostKeep
Finish(th) == /\ pc[th] = "next" /\ OpOf(th).op = "none" /\ Goto(th, "done")
              /\ UNCHANGED <<ip, loc, now>> /\ Keep(obj) /\ ResKeep /\ GhostKeep
Sleep(th) == /\ pc[th] = "sleep" /\ now >= loc[th].until /\ EndOp(th)
             /\ UNCHANGED now /\ Keep(obj) /\ ResKeep /\ GhostKeep

(* ------------------------------------------------------------------ _SingleEvent.__init__ (lines 34-41) *)
N37(th) ==          \* self.name = name ; self.deadline = time.monotonic() + timeout
   /\ pc[th] = "n37"
   /\ evName' = [evName EXCEPT ![loc[th].e] = loc[th].e]
   /\ evDl' = [evDl EXCEPT ![loc[th].e] = Plus(now, OpOf(th).to)]
   /\ IF FixInit THEN Goto(th, "c94") /\ UNCHANGED <<ip, loc>> ELSE EndOp(th)
   /\ UNCHANGED <<events, flag, lockOwner, lockDepth, actions, now>> /\ ResKeep /\ GhostKeep

(* ------------------------------------------------------------------ clear_ (lines 92-96) *)
C94(th) == /\ pc[th] = "c94" /\ CanLock(th) /\ Acquire(th) /\ Goto(th, "c95")
           /\ UNCHANGED <<events, flag, actions, evName, evDl, now, ip, loc>> /\ ResKeep /\ GhostKeep
C95(th) == /\ pc[th] = "c95" /\ events' = events \cup {loc[th].e} /\ Goto(th, "c96")
           /\ gDl' = IF loc[th].isnew THEN [gDl EXCEPT ![loc[th].e] = Plus(g[th].bvt, OpOf(th).to)] ELSE gDl   \* deadline >= begin of new() + timeout
           /\ UNCHANGED <<flag, lockOwner, lockDepth, actions, evName, evDl, now, ip, loc, ran, gdrop, queuedEver>> /\ ResKeep
C96(th) == /\ pc[th] = "c96" /\ flag' = FALSE /\ Goto(th, "c97")
           /\ UNCHANGED <<events, lockOwner, lockDepth, actions, evName, evDl, now, ip, loc>> /\ ResKeep /\ GhostKeep
C97(th) == /\ pc[th] = "c97" /\ Release(th)
           /\ IF loc[th].cont = "end" THEN EndOp(th) ELSE Goto(th, loc[th].cont) /\ UNCHANGED <<ip, loc>>
           /\ UNCHANGED <<events, flag, actions, evName, evDl, now>> /\ ResKeep /\ GhostKeep

(* ------------------------------------------------------------------ set_ (lines 78-90) *)
S80(th) == /\ pc[th] = "s80" /\ CanLock(th) /\ Acquire(th) /\ Goto(th, "s81")
           /\ UNCHANGED <<events, flag, actions, evName, evDl, now, ip, loc>> /\ ResKeep /\ GhostKeep
S81(th) == /\ pc[th] = "s81" /\ events' = events \ {loc[th].e} /\ Goto(th, "s82")
           /\ UNCHANGED <<flag, lockOwner, lockDepth, actions, evName, evDl, now, ip, loc>> /\ ResKeep /\ GhostKeep
S82(th) == /\ pc[th] = "s82" /\ Goto(th, IF events # {} THEN "s_rel" ELSE "s85")
           /\ SetLoc(th, [loc[th] EXCEPT !.ai = 1])
           /\ UNCHANGED <<ip, now>> /\ Keep(obj) /\ ResKeep /\ GhostKeep
S85(th) ==          \* for action in self._actions: action()   (an exception ends the loop silently)
   /\ pc[th] = "s85"
   /\ IF loc[th].ai <= Len(actions)
      THEN LET a == actions[loc[th].ai] IN
           /\ ran' = Append(ran, a)
           /\ IF a \in RaisingActs
              THEN /\ Goto(th, "s89") /\ UNCHANGED loc
                   /\ gdrop' = gdrop \cup {actions[j] : j \in (loc[th].ai + 1) .. Len(actions)}
              ELSE /\ SetLoc(th, [loc[th] EXCEPT !.ai = @ + 1]) /\ UNCHANGED <<pc, gdrop>>
      ELSE Goto(th, "s89") /\ UNCHANGED <<loc, ran, gdrop>>
   /\ UNCHANGED <<ip, now, queuedEver, gDl>> /\ Keep(obj) /\ ResKeep
S89(th) == /\ pc[th] = "s89" /\ actions' = <<>> /\ Goto(th, "s90")
           /\ UNCHANGED <<events, flag, lockOwner, lockDepth, evName, evDl, now, ip, loc>> /\ ResKeep /\ GhostKeep
S90(th) ==          \* super().set(): the flag, and every blocked waiter is notified
   /\ pc[th] = "s90" /\ flag' = TRUE /\ pc' = [pc EXCEPT ![th] = "s_rel"]
   /\ loc' = [x \in Threads |-> IF pc[x] = "w_blk" THEN [loc[x] EXCEPT !.notified = TRUE] ELSE loc[x]]
   /\ UNCHANGED <<events, lockOwner, lockDepth, actions, evName, evDl, now, ip>> /\ ResKeep /\ GhostKeep
SRel(th) == /\ pc[th] = "s_rel" /\ Release(th)
            /\ IF loc[th].cont = "end" THEN EndOp(th) ELSE Goto(th, loc[th].cont) /\ UNCHANGED <<ip, loc>>
            /\ UNCHANGED <<events, flag, actions, evName, evDl, now>> /\ ResKeep /\ GhostKeep

(* ------------------------------------------------------------------ queue (lines 137-140) *)
Q137(th) == /\ pc[th] = "q137" /\ CanLock(th) /\ Acquire(th) /\ Goto(th, "q138")
            /\ UNCHANGED <<events, flag, actions, evName, evDl, now, ip, loc>> /\ ResKeep /\ GhostKeep
Q138(th) == /\ pc[th] = "q138" /\ actions' = Append(actions, OpOf(th).a) /\ Goto(th, "q139")
            /\ queuedEver' = queuedEver \cup {OpOf(th).a}
            /\ UNCHANGED <<events, flag, lockOwner, lockDepth, evName, evDl, now, ip, loc, ran, gdrop, gDl>> /\ ResKeep
Q139(th) == /\ pc[th] = "q139"          \* if self.is_set(): self.set_(None)
            /\ IF events = {} THEN Goto(th, "s80") /\ SetLoc(th, [loc[th] EXCEPT !.e = "None", !.cont = "q_rel"])
               ELSE Goto(th, "q_rel") /\ UNCHANGED loc
            /\ UNCHANGED <<ip, now>> /\ Keep(obj) /\ ResKeep /\ GhostKeep
QRel(th) == /\ pc[th] = "q_rel" /\ Release(th) /\ EndOp(th)
            /\ UNCHANGED <<events, flag, actions, evName, evDl, now>> /\ ResKeep /\ GhostKeep

(* ------------------------------------------------------------------ deadline (lines 98-102) *)
(* the repaired readers take the lock first *)
RAcq(th) == /\ pc[th] = "r_acq" /\ CanLock(th) /\ Acquire(th)
            /\ Goto(th, IF OpOf(th).op = "wfor" THEN "f117" ELSE "d99")
            /\ SetLoc(th, [loc[th] EXCEPT !.holds = TRUE])
            /\ UNCHANGED <<events, flag, actions, evName, evDl, now, ip>> /\ ResKeep /\ GhostKeep
D99(th) == /\ pc[th] = "d99" /\ Goto(th, "d100")
           /\ SetLoc(th, [loc[th] EXCEPT !.acc = 0, !.itSize = -1, !.itSeen = {}])
           /\ UNCHANGED <<ip, now>> /\ Keep(obj) /\ ResKeep /\ GhostKeep
(* one turn of `for event in self.events` *)
IterStep(th, here, body, after) ==
   LET size == IF loc[th].itSize = -1 THEN Cardinality(events) ELSE loc[th].itSize
       seen == IF loc[th].itSize = -1 THEN {} ELSE loc[th].itSeen IN
   /\ pc[th] = here
   /\ IF Cardinality(events) # size
      THEN Raise(th, "RuntimeError")
      ELSE /\ IF events \ seen = {}
              THEN Goto(th, after) /\ SetLoc(th, [loc[th] EXCEPT !.itSize = size, !.itSeen = seen])
              ELSE \E x \in events \ seen :
                      /\ Goto(th, body)
                      /\ SetLoc(th, [loc[th] EXCEPT !.itSize = size, !.itSeen = seen \cup {x}, !.cur = x])
           /\ UNCHANGED <<ip, now>> /\ Keep(obj) /\ ResKeep /\ GhostKeep
D100(th) == IterStep(th, "d100", "d101", "d102")
D101(th) == /\ pc[th] = "d101"
            /\ IF evDl[loc[th].cur] = Unset
               THEN Raise(th, "AttributeError")
               ELSE /\ Goto(th, "d100") /\ SetLoc(th, [loc[th] EXCEPT !.acc = Max(evDl[loc[th].cur], @)])
                    /\ UNCHANGED <<ip, now>> /\ Keep(obj) /\ ResKeep /\ GhostKeep
D102(th) == /\ pc[th] = "d102" /\ Goto(th, loc[th].cont)         \* None is represented by Inf
            /\ SetLoc(th, [loc[th] EXCEPT !.dres = loc[th].acc])
            /\ UNCHANGED <<ip, now>> /\ Keep(obj) /\ ResKeep /\ GhostKeep
DRet(th) == /\ pc[th] = "d_ret"                                 \* deadline() called as an operation of its own
            /\ ires' = [ires EXCEPT ![th] = loc[th].dres]
            /\ IF loc[th].holds THEN Release(th) ELSE UNCHANGED <<lockOwner, lockDepth>>
            /\ EndOp(th)
            /\ UNCHANGED <<events, flag, actions, evName, evDl, now, wres, sres, err>> /\ GhostKeep

(* ------------------------------------------------------------------ waiting_for (line 117) *)
F117(th) == IterStep(th, "f117", "f117b", "f_ret")
F117b(th) == /\ pc[th] = "f117b"
             /\ IF evName[loc[th].cur] = ""
                THEN Raise(th, "AttributeError")
                ELSE /\ Goto(th, "f117") /\ SetLoc(th, [loc[th] EXCEPT !.names = @ \cup {evName[loc[th].cur]}])
                     /\ UNCHANGED <<ip, now>> /\ Keep(obj) /\ ResKeep /\ GhostKeep
FRet(th) == /\ pc[th] = "f_ret"
            /\ sres' = [sres EXCEPT ![th] = loc[th].names]
            /\ IF loc[th].holds THEN Release(th) ELSE UNCHANGED <<lockOwner, lockDepth>>
            /\ EndOp(th)
            /\ UNCHANGED <<events, flag, actions, evName, evDl, now, wres, ires, err>> /\ GhostKeep

(* ------------------------------------------------------------------ wait (lines 104-114) *)
WAcq(th) == /\ pc[th] = "w_acq" /\ CanLock(th) /\ Acquire(th) /\ Goto(th, "w106")
            /\ SetLoc(th, [loc[th] EXCEPT !.holds = TRUE])
            /\ UNCHANGED <<events, flag, actions, evName, evDl, now, ip>> /\ ResKeep /\ GhostKeep
WDone(th, r) == /\ wres' = [wres EXCEPT ![th] = r] /\ EndOp(th)
                /\ IF loc[th].holds THEN Release(th) ELSE UNCHANGED <<lockOwner, lockDepth>>
                /\ UNCHANGED <<events, flag, actions, evName, evDl, now, sres, ires, err>> /\ GhostKeep
W106(th) == /\ pc[th] = "w106"                  \* if not self.events: return True
            /\ IF events = {} THEN WDone(th, "T")
               ELSE /\ Goto(th, "d99") /\ UNCHANGED <<ip, loc, now>> /\ Keep(obj) /\ ResKeep /\ GhostKeep
W110(th) ==         \* lines 109-113: deadline -= time.monotonic(); timeout = min(...); if timeout <= 0: return False
   LET d == loc[th].dres
       to == OpOf(th).to
       tmo == IF d = Inf THEN to ELSE IF to = Inf THEN d - now ELSE Min(d - now, to) IN
   /\ pc[th] = "w110"
   /\ IF d # Inf /\ tmo <= 0 THEN WDone(th, "F")
      ELSE /\ Goto(th, "w114") /\ SetLoc(th, [loc[th] EXCEPT !.tmo = tmo, !.holds = FALSE])
           /\ IF loc[th].holds THEN Release(th) ELSE UNCHANGED <<lockOwner, lockDepth>>
           /\ UNCHANGED <<events, flag, actions, evName, evDl, now, ip>> /\ ResKeep /\ GhostKeep
W114(th) ==         \* return super().wait(timeout)
   /\ pc[th] = "w114"
   /\ IF flag THEN WDone(th, "T")
      ELSE IF loc[th].tmo # Inf /\ loc[th].tmo <= 0 THEN WDone(th, "F")
      ELSE /\ Goto(th, "w_blk") /\ SetLoc(th, [loc[th] EXCEPT !.until = Plus(now, loc[th].tmo), !.notified = FALSE])
           /\ UNCHANGED <<ip, now>> /\ Keep(obj) /\ ResKeep /\ GhostKeep
Wakeable(th) == pc[th] = "w_blk" /\ (loc[th].notified \/ now >= loc[th].until)
WBlk(th) == /\ Wakeable(th) /\ WDone(th, IF loc[th].notified THEN "T" ELSE "F")

(* ------------------------------------------------------------------ _SingleEvent.is_set (line 50) *)
I50(th) == /\ pc[th] = "i50"
           /\ wres' = [wres EXCEPT ![th] = IF (loc[th].e \in events) = ~FixIsSet THEN "T" ELSE "F"]
           /\ EndOp(th)
           /\ UNCHANGED <<now, sres, ires, err>> /\ Keep(obj) /\ GhostKeep

(* ------------------------------------------------------------------ time *)
(* a blocked waiter whose time-out is due or that was notified runs before the clock goes on *)
Tick == /\ now < MaxTime /\ now' = now + 1
        /\ \A th \in Threads : ~Wakeable(th) /\ ~(pc[th] = "sleep" /\ now >= loc[th].until)
        /\ DetTime => \A th \in Threads : pc[th] \in {"done", "w_blk", "sleep"}
        /\ UNCHANGED <<pc, ip, loc>> /\ Keep(obj) /\ ResKeep /\ GhostKeep

(* ------------------------------------------------------------------ ghosts *)
(* g[th] follows the shared state for the duration of th's call: which moments did the call overlap? *)
QuietAt(ev, ac) == ev = {} /\ ac = <<>>
MaxOf(S, f) == IF S = {} THEN 0
               ELSE IF \E e \in S : f[e] \in {Inf, Unset} THEN Inf
               ELSE CHOOSE d \in {f[e] : e \in S} : \A e \in S : f[e] <= d
Ext(b, o) ==
   [b EXCEPT !.sawEmpty = @ \/ events' = {},
             !.sawQuiet = @ \/ QuietAt(events', actions'),
             !.los = IF o.op = "wait" /\ events' # {} THEN @ \cup {Min(MaxOf(events', gDl'), Plus(b.bvt, o.to))} ELSE @,
             !.his = IF o.op = "wait" /\ events' # {} THEN @ \cup {Min(MaxOf(events', evDl'), Plus(now', o.to))} ELSE @,
             !.nsets = IF o.op = "wfor" THEN @ \cup {{evName'[e] : e \in events'}} ELSE @,
             !.dcs = IF o.op = "deadline" THEN @ \cup {MaxOf(events', evDl')} ELSE @]
GhostUpd ==
   /\ g' = [th \in Threads |->
              LET base == IF pc[th] = "next" THEN [G0 EXCEPT !.bvt = now] ELSE g[th] IN
              IF pc'[th] \notin {"next", "done"} THEN Ext(base, OpOf(th)) ELSE G0]
   /\ gQs' = IF QuietAt(events', actions') THEN (IF QuietAt(events, actions) /\ gQs >= 0 THEN gQs ELSE now') ELSE -1

Acts(th) ==
   \/ Next_(th) /\ GhostUpd
   \/ Finish(th) /\ GhostUpd
   \/ Sleep(th) /\ GhostUpd
   \/ N37(th) /\ GhostUpd
   \/ C94(th) /\ GhostUpd
   \/ C95(th) /\ GhostUpd
   \/ C96(th) /\ GhostUpd
   \/ C97(th) /\ GhostUpd
   \/ S80(th) /\ GhostUpd
   \/ S81(th) /\ GhostUpd
   \/ S82(th) /\ GhostUpd
   \/ S85(th) /\ GhostUpd
   \/ S89(th) /\ GhostUpd
   \/ S90(th) /\ GhostUpd
   \/ SRel(th) /\ GhostUpd
   \/ Q137(th) /\ GhostUpd
   \/ Q138(th) /\ GhostUpd
   \/ Q139(th) /\ GhostUpd
   \/ QRel(th) /\ GhostUpd
   \/ RAcq(th) /\ GhostUpd
   \/ D99(th) /\ GhostUpd
   \/ D100(th) /\ GhostUpd
   \/ D101(th) /\ GhostUpd
   \/ D102(th) /\ GhostUpd
   \/ DRet(th) /\ GhostUpd
   \/ F117(th) /\ GhostUpd
   \/ F117b(th) /\ GhostUpd
   \/ FRet(th) /\ GhostUpd
   \/ WAcq(th) /\ GhostUpd
   \/ W106(th) /\ GhostUpd
   \/ W110(th) /\ GhostUpd
   \/ W114(th) /\ GhostUpd
   \/ WBlk(th) /\ GhostUpd
   \/ I50(th) /\ GhostUpd

Next == (Tick /\ GhostUpd) \/ \E th \in Threads : Acts(th)
Spec == Init /\ [][Next]_vars
FairSpec == Spec /\ WF_vars(Tick /\ GhostUpd) /\ \A th \in Threads : WF_vars(Acts(th))

(* ------------------------------------------------------------------ properties *)
LockFree == lockOwner = None
Completes(th, opname) == pc[th] \notin {"next", "done"} /\ pc'[th] = "next" /\ ip'[th] = ip[th] + 1 /\ OpOf(th).op = opname
                         /\ err'[th] = err[th]

(* no public call ever raises *)
NoError == \A th \in Threads : err[th] = <<>>
(* wait() == True: at some moment of the call nothing was outstanding ... *)
WaitTrueEmpty == [][\A th \in Threads : (Completes(th, "wait") /\ wres'[th] = "T") => g[th].sawEmpty]_vars
(* ... and the queued actions had been run ("executed after the last event is triggered, and before the *)
(* multievent is set")                                                                                    *)
WaitTrueQuiet == [][\A th \in Threads : (Completes(th, "wait") /\ wres'[th] = "T") => g[th].sawQuiet]_vars
(* wait() == False: not before the limit = min(time-out of the caller, largest deadline of the events *)
(* outstanding at some moment of the call)                                                              *)
WaitFalseNotEarly == [][\A th \in Threads : (Completes(th, "wait") /\ wres'[th] = "F") =>
                          \E lo \in g[th].los : lo # Inf /\ lo <= now]_vars
(* a wait that blocks will end at the limit at the latest (+ the time the thread itself took to get there) *)
WaitNotLate == [][\A th \in Threads : (pc[th] = "w114" /\ pc'[th] = "w_blk") =>
                    \E hi \in g[th].his : loc'[th].until <= Plus(hi, now - g[th].bvt)]_vars
(* no lost wake-up: whoever is blocked while nothing is outstanding has been notified *)
NoLostWakeup == \A th \in Threads : (pc[th] = "w_blk" /\ LockFree /\ events = {}) => loc[th].notified
FlagConsistent == LockFree => ((flag => events = {}) /\ ((events = {} /\ DOMAIN InitEv # {}) => flag))
(* waiting_for() / deadline(): one consistent view *)
WaitingForExact == [][\A th \in Threads : Completes(th, "wfor") => sres'[th] \in g[th].nsets]_vars
DeadlineExact == [][\A th \in Threads : Completes(th, "deadline") => ires'[th] \in g[th].dcs]_vars
(* is_set() of a sub-event *)
IsSetRight == [][\A th \in Threads : Completes(th, "isset") => (wres'[th] = "T") = (OpOf(th).e \notin events)]_vars
(* queued actions: at most once, only when nothing is outstanding, none left behind *)
Count(s, a) == Cardinality({j \in DOMAIN s : s[j] = a})
ActionsAtMostOnce == \A a \in queuedEver : Count(ran, a) <= 1
ActionsOnlyWhenSet == [][ran' # ran => events = {}]_vars
NoActionLeft == (LockFree /\ Locked /\ events = {}) => actions = <<>>
AllDone == \A th \in Threads : pc[th] = "done"
ActionsExactlyOnce ==
   AllDone => \A a \in queuedEver :
                 \/ (Count(ran, a) = 1 /\ a \notin Range(actions))
                 \/ (Count(ran, a) = 0 /\ a \in gdrop /\ a \notin Range(actions))
                 \/ (Count(ran, a) = 0 /\ a \in Range(actions) /\ events # {})
(* What frappy/server.py assumes of interfaces_started.wait() / start_events.wait() followed by waiting_for()    *)
(* (all triggers created beforehand by the main thread with the default time-out, fired by other threads):       *)
(*   S1  neither call raises                                             NoError                                   *)
(*   S2  the wait ends by itself, at the largest start deadline           ServerProceeds (a blocked wait has a      *)
(*       at the latest, whatever the other threads do                     limit), WaitNotLate, Termination in the   *)
(*                                                                        scenario `late` (a trigger fires too late)*)
(*   S3  True means every module has reported, False comes not before     WaitTrueEmpty, WaitFalseNotEarly,         *)
(*       the deadline (no warning although everything is fine)            NoLostWakeup                              *)
(*   S4  after False, waiting_for() names exactly the modules that have   WaitingForExact                           *)
(*       not reported at that moment                                                                                *)
(* The same statements are checked on the real class in the scenarios server, server3, server_late, iface, router  *)
(* of harness/props/x04.py (the real Server start is driven by C15).                                                *)
ServerProceeds == (DOMAIN InitEv # {} /\ \A e \in DOMAIN InitEv : InitEv[e] # Inf) =>
                     \A th \in Threads : (pc[th] = "w_blk" /\ events \subseteq DOMAIN InitEv) => loc[th].until # Inf
(* liveness (FairSpec): every thread gets through its script when all events end up set *)
Termination == <>AllDone

(* ------------------------------------------------------------------ scenarios *)
NoEv == <<>>
(* the server's start: triggers created beforehand with the default time-out, poll threads fire them, the main *)
(* thread waits without a time-out of its own and then asks who is missing                                     *)
Init_server == ("e1" :> 2) @@ ("e2" :> 2)
Scen_server == ("a" :> <<Op("set", "e1", 0, "")>>) @@ ("b" :> <<Op("sleep", "", 1, ""), Op("set", "e2", 0, "")>>)
               @@ ("w" :> <<Op("wait", "", Inf, ""), Op("wfor", "", 0, "")>>)
(* one trigger never fires: the wait must end at the deadline, waiting_for() names it *)
Scen_server_late == ("a" :> <<Op("set", "e1", 0, "")>>) @@ ("b" :> <<Op("sleep", "", 3, ""), Op("set", "e2", 0, "")>>)
                    @@ ("w" :> <<Op("wait", "", Inf, ""), Op("wfor", "", 0, ""), Op("deadline", "", 0, "")>>)
(* a sub-event is created while another thread waits / asks *)
Init_one == ("e1" :> Inf)
Scen_new == ("a" :> <<Op("new", "e2", 2, ""), Op("set", "e2", 0, "")>>) @@ ("b" :> <<Op("set", "e1", 0, "")>>)
            @@ ("w" :> <<Op("wait", "", 1, ""), Op("wfor", "", 0, "")>>)
(* queue() races with the last set, a waiter looks on *)
Scen_queue == ("a" :> <<Op("queue", "", 0, "a1"), Op("set", "e1", 0, "")>>) @@ ("b" :> <<Op("queue", "", 0, "a2"), Op("queue", "", 0, "a3")>>)
              @@ ("w" :> <<Op("wait", "", Inf, "")>>)
(* re-use: set, clear, set again, trigger twice; a waiter with a time-out, then one without *)
Scen_reuse == ("a" :> <<Op("set", "e1", 0, ""), Op("clear", "e1", 0, ""), Op("set", "e1", 0, ""), Op("set", "e1", 0, "")>>)
              @@ ("b" :> <<Op("queue", "", 0, "a1"), Op("isset", "e1", 0, "")>>)
              @@ ("w" :> <<Op("wait", "", 1, ""), Op("wait", "", Inf, "")>>)
=============================================================================
