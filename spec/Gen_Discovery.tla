---------------------------- MODULE Gen_Discovery ----------------------------
(* spec -> code.                                                                  *)
(* GBSpec: every glyph sequence up to MaxLen; each state prints the sequence and,  *)
(*   for every budget b = MAX - O in -BLow..BHigh, what the property allows:       *)
(*   <<b, dis, lo0, hi0, lo4, hi4>>: dis = the responder may be disabled, lo..hi =  *)
(*   allowed prefix lengths of the transmitted description when enabled (empty     *)
(*   interval lo > hi: must be disabled) for a widest port of 5 digits / 1 digit.  *)
(*   Sharded by the first glyph (environment DISCOVERY_FIRST) so that several TLC  *)
(*   processes can share the thorough enumeration.                                 *)
(* GLSpec: every datagram class sequence up to Depth with the expected answers.    *)
EXTENDS Discovery, Json
CONSTANT Depth
VARIABLES hist, jc

First == IF "DISCOVERY_FIRST" \in DOMAIN IOEnv
         THEN {g \in Glyphs : ToString(g) = IOEnv.DISCOVERY_FIRST} ELSE Glyphs

(* jc[k+1] = J(Prefix(desc, k)), maintained incrementally (checked against JCum by JcOK) *)
Exp == LET n == Len(desc)
           f == [k \in 0 .. n |-> jc[k + 1]]
       IN [i \in 1 .. (BLow + BHigh + 1) |->
            LET m == O - BLow + i - 1
                k0 == AllowedKFast(f, n, O, m, 0)
                k4 == AllowedKFast(f, n, O, m, 4)
            IN <<m - O, IF MayDisable(O, m) THEN 1 ELSE 0,
                 IF k0 = {} THEN 1 ELSE Min(k0), IF k0 = {} THEN 0 ELSE Max(k0),
                 IF k4 = {} THEN 1 ELSE Min(k4), IF k4 = {} THEN 0 ELSE Max(k4)>>]

GBInit == BInit /\ max = O /\ hist = <<>> /\ jc = <<0>>
GBNext == \E g \in (IF desc = <<>> THEN First ELSE Glyphs) :
             Extend(g) /\ jc' = Append(jc, jc[Len(jc)] + JsonW[g]) /\ UNCHANGED hist
GBSpec == GBInit /\ [][GBNext]_<<vars, hist, jc>>
EmitB == PrintT(<<"BEH", ToJson(<<desc, Exp>>)>>)      \* compact: [[glyphs], [[b, dis, lo0, hi0, lo4, hi4], ...]]
JcOK == Len(desc) <= 4 => jc = [k \in 1 .. Len(desc) + 1 |-> JCum(desc)[k - 1]]

GLInit == LInit /\ enabled = TRUE /\ hist = <<>> /\ jc = <<>>
GLNext ==
  \/ Start /\ hist' = Append(hist, [act |-> "start", nports |-> nports,
                                    exp |-> [announced |-> last'.announced, alive |-> alive']])
  \/ \E c \in Classes : Recv(c) /\ hist' = Append(hist, [act |-> "dgram", cls |-> c,
                                    exp |-> [answers |-> last'.answers, alive |-> alive']])
GLSpec == GLInit /\ [][GLNext /\ UNCHANGED jc]_<<vars, hist, jc>>
Bound == TLCGet("level") <= Depth + 1
EmitL == (TLCGet("level") = Depth + 2) => PrintT(<<"BEH", ToJson(hist)>>)
=============================================================================
