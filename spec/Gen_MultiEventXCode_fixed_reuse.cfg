SPECIFICATION GSpec
CONSTANTS
  Threads = {"a", "b", "w"}
  Script <- Scen_reuse
  InitEv <- Init_one
  MaxTime = 3
  Inf = 99
  RaisingActs = {}
  FixLock = TRUE
  FixInit = TRUE
  FixIsSet = TRUE
  Locked = TRUE
  DetTime = TRUE
VIEW View
INVARIANT Emit
CHECK_DEADLOCK FALSE
