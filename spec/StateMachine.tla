---------------------------- MODULE StateMachine ----------------------------
(* C14.  frappy/lib/statemachine.py: StateMachine.cycle / _cleanup / _new_state /   *)
(* start / stop at statement granularity.  One label per statement that reads or   *)
(* writes an attribute of the machine; purely local dispatch on a return value is   *)
(* folded into the label of the statement before it.  The two critical sections     *)
(* ("cl_take", "pop") and the bodies of start()/stop() are single statements under  *)
(* the machine's lock, hence single atomic actions.                                 *)
(*                                                                                  *)
(* A program is not a variable: every call of a state function / of the cleanup     *)
(* function chooses its behaviour nondeterministically.  As each (function, call    *)
(* index) pair occurs once in a history, the set of behaviours equals the union     *)
(* over ALL tables  function x call index -> behaviour.                             *)
EXTENDS Naturals, Sequences, FiniteSets, TLC

CONSTANTS States,          \* names of state functions (strings)
          StartStates,     \* states that start() may request
          CleanupTargets,  \* states a cleanup function may return
          Keys, Vals,      \* attribute names / values given to start(**kwds)
          MaxLoops,        \* StateMachine.maxloops
          Concurrent,      \* TRUE: start/stop of a 2nd thread between any two labels
          Construct        \* TRUE: the constructor may be given attributes and a first state

NoneS  == "none"          \* Python None (statefunc, ret, cleanup, cleanup_reason)
Absent == "-"             \* attribute not given / not set
NoKw   == [key \in Keys |-> Absent]
Kwds   == [Keys -> Vals \cup {Absent}]
Cleanups == {NoneS, "K"}  \* start(..., cleanup=None | a function)

NoTask   == [k |-> "none",  s |-> NoneS, kw |-> NoKw, c |-> NoneS]
StopTask == [k |-> "stop",  s |-> NoneS, kw |-> NoKw, c |-> NoneS]
StartTask(s, kw, c) == [k |-> "start", s |-> s, kw |-> kw, c |-> c]
Posts == {StopTask} \cup {StartTask(s, kw, c) : s \in StartStates, kw \in Kwds, c \in Cleanups}

(* what a state function may do when called / what the cleanup function may do *)
B(k, s) == [k |-> k, s |-> s]
StateBeh   == {B("retry", NoneS), B("finish", NoneS), B("noncallable", NoneS), B("raise", NoneS)}
              \cup {B("next", s) : s \in States}
CleanupBeh == {B("none", NoneS), B("noncallable", NoneS), B("raise", NoneS)}
              \cup {B("next", s) : s \in CleanupTargets}

Merge(a, kw) == [key \in Keys |-> IF kw[key] # Absent THEN kw[key] ELSE a[key]]

VARIABLES
  (* the object *)
  statefunc, init, next_task, cleanup, cleanup_reason, attrs,
  transition,   \* "given" | "none": is a transition callback installed (constructor argument)
  (* the thread executing cycle(): program counter and locals *)
  pc, outer, loops, ret, bret, rsn, site, cfn, nsarg, nssite, action,
  (* requirement ghosts (one bit each): *)
  fresh,   \* no call of statefunc has been made since it was entered
  seen     \* the pending task was already pending when a cycle began

obj    == <<statefunc, init, next_task, cleanup, cleanup_reason, attrs, transition>>
locals == <<pc, outer, loops, ret, bret, rsn, site, cfn, nsarg, nssite, action>>
vars   == <<obj, locals, fresh, seen>>

NoB == B("-", NoneS)
LocalsInit == /\ pc = "idle" /\ outer = 0 /\ loops = 0 /\ ret = NoneS /\ bret = NoB /\ rsn = NoneS
              /\ site = "-" /\ cfn = NoneS /\ nsarg = NoneS /\ nssite = "-" /\ action = NoTask

(* StateMachine(statefunc=None, **kwds): the attributes are set at once ("0" marks a value *)
(* given to the constructor), a first state is requested exactly like start(statefunc)     *)
InitVal == "0"
InitKws == IF Construct THEN {NoKw} \cup {[key \in Keys |-> IF key = k THEN InitVal ELSE Absent] : k \in Keys}
                        ELSE {NoKw}
InitTasks == IF Construct THEN {NoTask} \cup {StartTask(s, NoKw, NoneS) : s \in StartStates} ELSE {NoTask}

(* optional callbacks are arguments of the construction: transition=<hook> and (as a plain    *)
(* attribute, in force until the first start request is taken) cleanup=<function>             *)
InitCleanups == IF Construct THEN Cleanups ELSE {NoneS}
InitTransitions == IF Construct THEN {"given", "none"} ELSE {"given"}

InitWith(kw, task, c, tr) == /\ statefunc = NoneS /\ init = TRUE /\ next_task = task /\ cleanup = c
                             /\ cleanup_reason = NoneS /\ attrs = kw /\ transition = tr
                             /\ LocalsInit /\ fresh = TRUE /\ seen = FALSE
Init == \E kw \in InitKws, task \in InitTasks, c \in InitCleanups, tr \in InitTransitions : InitWith(kw, task, c, tr)

(* ---------------------------------------------------------------- start() / stop() *)
Post(task) ==
    /\ Concurrent \/ pc = "idle"
    /\ next_task' = task
    /\ seen' = FALSE
    /\ UNCHANGED <<transition, statefunc, init, cleanup, cleanup_reason, attrs, locals, fresh>>

(* start(statefunc, **kwds) with a keyword that is a class attribute of StateMachine (init, *)
(* statefunc, now, next_task, cleanup_reason, ...): "class attributes are not allowed to be   *)
(* overriden by kwds of __init__ or start".  As cycle() never raises, the refusal can only    *)
(* happen in the call itself: it raises and leaves the machine untouched.                     *)
RejectedStart == UNCHANGED vars

(* --------------------------------------------------------------------------- cycle() *)
Return ==  \* leave cycle(); dead locals are reset
    /\ pc' = "idle" /\ outer' = 0 /\ loops' = 0 /\ ret' = NoneS /\ bret' = NoB /\ rsn' = NoneS
    /\ site' = "-" /\ cfn' = NoneS /\ nsarg' = NoneS /\ nssite' = "-" /\ action' = NoTask

CycleBegin ==
    /\ pc = "idle"
    /\ pc' = "outer" /\ outer' = 0
    /\ seen' = (next_task.k # "none")
    /\ UNCHANGED <<obj, loops, ret, bret, rsn, site, cfn, nsarg, nssite, action, fresh>>

Outer ==   \* for _ in range(2): if self.statefunc:
    /\ pc = "outer"
    /\ IF outer = 2
       THEN Return
       ELSE /\ outer' = outer + 1
            /\ IF statefunc # NoneS THEN pc' = "loop" /\ loops' = 0
                                    ELSE pc' = "chk_task" /\ UNCHANGED loops
            /\ UNCHANGED <<ret, bret, rsn, site, cfn, nsarg, nssite, action>>
    /\ UNCHANGED <<obj, fresh, seen>>

Loop ==    \* for _ in range(self.maxloops):  ... else: _cleanup(RuntimeError(too many))
    /\ pc = "loop"
    /\ IF loops = MaxLoops
       THEN /\ rsn' = "error" /\ site' = "tm" /\ pc' = "cl_reason" /\ UNCHANGED loops
       ELSE /\ loops' = loops + 1 /\ pc' = "chk_intr" /\ UNCHANGED <<rsn, site>>
    /\ UNCHANGED <<obj, outer, ret, bret, cfn, nsarg, nssite, action, fresh, seen>>

ChkIntr == \* if self.next_task and not self.cleanup_reason:
    /\ pc = "chk_intr"
    /\ pc' = IF next_task.k # "none" /\ cleanup_reason = NoneS THEN "intr_arg" ELSE "call"
    /\ UNCHANGED <<obj, outer, loops, ret, bret, rsn, site, cfn, nsarg, nssite, action, fresh, seen>>

IntrArg == \* ret = self._cleanup(self.next_task)      (second read of next_task)
    /\ pc = "intr_arg"
    /\ rsn' = next_task.k /\ site' = "loop" /\ pc' = "cl_reason"
    /\ UNCHANGED <<obj, outer, loops, ret, bret, cfn, nsarg, nssite, action, fresh, seen>>

Call(b) == \* ret = self.statefunc(self)   /   except Exception as e: ret = self._cleanup(e)
    /\ pc = "call"
    /\ bret' = b
    /\ fresh' = FALSE
    /\ IF b.k = "raise" THEN rsn' = "error" /\ site' = "loop" /\ pc' = "cl_reason"
                        ELSE pc' = "after_call" /\ UNCHANGED <<rsn, site>>
    /\ UNCHANGED <<obj, outer, loops, ret, cfn, nsarg, nssite, action, seen>>

AfterCall == \* self.init = False; dispatch on Retry / Finish / non-callable / next state
    /\ pc = "after_call"
    /\ init' = FALSE
    /\ CASE bret.k = "retry"  -> Return
         [] bret.k = "finish" -> pc' = "fin" /\ UNCHANGED <<outer, loops, ret, bret, rsn, site, cfn, nsarg, nssite, action>>
         [] bret.k = "noncallable" -> /\ rsn' = "error" /\ site' = "loop" /\ pc' = "cl_reason"
                                      /\ UNCHANGED <<outer, loops, ret, bret, cfn, nsarg, nssite, action>>
         [] bret.k = "next"   -> /\ ret' = bret.s /\ pc' = "chk_ret"
                                 /\ UNCHANGED <<outer, loops, bret, rsn, site, cfn, nsarg, nssite, action>>
    /\ UNCHANGED <<transition, statefunc, next_task, cleanup, cleanup_reason, attrs, fresh, seen>>

(* _cleanup(reason) *)
ClReason == \* if self.cleanup_reason is None: self.cleanup_reason = reason
    /\ pc = "cl_reason"
    /\ cleanup_reason' = IF cleanup_reason = NoneS THEN rsn ELSE cleanup_reason
    /\ pc' = "cl_chk"
    /\ UNCHANGED <<transition, statefunc, init, next_task, cleanup, attrs, outer, loops, ret, bret, rsn, site, cfn,
                   nsarg, nssite, action, fresh, seen>>

AfterCleanup == IF site = "tm" THEN "tm_ret" ELSE "chk_ret"

ClChk ==   \* if not self.cleanup: return None
    /\ pc = "cl_chk"
    /\ IF cleanup = NoneS THEN ret' = NoneS /\ pc' = AfterCleanup
                          ELSE pc' = "cl_take" /\ UNCHANGED ret
    /\ UNCHANGED <<obj, outer, loops, bret, rsn, site, cfn, nsarg, nssite, action, fresh, seen>>

ClTake ==  \* with self._lock: cleanup, self.cleanup = self.cleanup, None
    /\ pc = "cl_take"
    /\ cfn' = cleanup /\ cleanup' = NoneS /\ pc' = "cl_call"
    /\ UNCHANGED <<transition, statefunc, init, next_task, cleanup_reason, attrs, outer, loops, ret, bret, rsn, site,
                   nsarg, nssite, action, fresh, seen>>

ClCall(b) == \* ret = cleanup(self); not callable -> None; raises -> None
    /\ pc = "cl_call"
    /\ ret' = IF b.k = "next" THEN b.s ELSE NoneS
    /\ cfn' = NoneS
    /\ pc' = AfterCleanup
    /\ UNCHANGED <<obj, outer, loops, bret, rsn, site, nsarg, nssite, action, fresh, seen>>

ChkRet ==  \* if ret is None: break  /  self._new_state(ret)
    /\ pc = "chk_ret"
    /\ IF ret = NoneS THEN pc' = "fin" /\ UNCHANGED <<nsarg, nssite>>
                      ELSE nsarg' = ret /\ nssite' = "loop" /\ pc' = "ns_hook"
    /\ UNCHANGED <<obj, outer, loops, ret, bret, rsn, site, cfn, action, fresh, seen>>

TmRet ==   \* (loop limit) if ret: self._new_state(ret); continue
    /\ pc = "tm_ret"
    /\ IF ret # NoneS THEN nsarg' = ret /\ nssite' = "tm" /\ pc' = "ns_hook"
                      ELSE pc' = "fin" /\ UNCHANGED <<nsarg, nssite>>
    /\ UNCHANGED <<obj, outer, loops, ret, bret, rsn, site, cfn, action, fresh, seen>>

Fin ==     \* self._new_state(None)
    /\ pc = "fin"
    /\ nsarg' = NoneS /\ nssite' = "fin" /\ pc' = "ns_hook"
    /\ UNCHANGED <<obj, outer, loops, ret, bret, rsn, site, cfn, action, fresh, seen>>

(* _new_state(statefunc) *)
NsHook ==  \* if self.transition: self.transition(self, statefunc)          (the callback is called)
    /\ pc = "ns_hook" /\ transition = "given"
    /\ pc' = "ns_init"
    /\ UNCHANGED <<obj, outer, loops, ret, bret, rsn, site, cfn, nsarg, nssite, action, fresh, seen>>

NsNoHook == \* ... no callback installed: nothing is called; init is re-armed all the same
    /\ pc = "ns_hook" /\ transition = "none"
    /\ pc' = "ns_init"
    /\ UNCHANGED <<obj, outer, loops, ret, bret, rsn, site, cfn, nsarg, nssite, action, fresh, seen>>

NsInit ==  \* self.init = True
    /\ pc = "ns_init"
    /\ init' = TRUE /\ pc' = "ns_sf"
    /\ UNCHANGED <<transition, statefunc, next_task, cleanup, cleanup_reason, attrs, outer, loops, ret, bret, rsn, site,
                   cfn, nsarg, nssite, action, fresh, seen>>

NsSf ==    \* self.statefunc = statefunc
    /\ pc = "ns_sf"
    /\ statefunc' = nsarg
    /\ fresh' = TRUE
    /\ pc' = CASE nssite = "loop" -> "loop"
               [] nssite = "tm"   -> "outer"       \* continue
               [] nssite = "fin"  -> "chk_task"
               [] nssite = "act"  -> "upd"
    /\ UNCHANGED <<transition, init, next_task, cleanup, cleanup_reason, attrs, outer, loops, ret, bret, rsn, site,
                   cfn, nsarg, nssite, action, seen>>

ChkTask == \* if self.next_task:
    /\ pc = "chk_task"
    /\ pc' = IF next_task.k # "none" THEN "pop" ELSE "outer"
    /\ UNCHANGED <<obj, outer, loops, ret, bret, rsn, site, cfn, nsarg, nssite, action, fresh, seen>>

Pop ==     \* with self._lock: action, self.next_task = self.next_task, None
    /\ pc = "pop"
    /\ action' = next_task /\ next_task' = NoTask /\ seen' = FALSE /\ pc' = "clr_reason"
    /\ UNCHANGED <<transition, statefunc, init, cleanup, cleanup_reason, attrs, outer, loops, ret, bret, rsn, site, cfn,
                   nsarg, nssite, fresh>>

ClrReason == \* self.cleanup_reason = None
    /\ pc = "clr_reason"
    /\ cleanup_reason' = NoneS /\ pc' = "act"
    /\ UNCHANGED <<transition, statefunc, init, next_task, cleanup, attrs, outer, loops, ret, bret, rsn, site, cfn,
                   nsarg, nssite, action, fresh, seen>>

Act ==     \* if isinstance(action, Start): self._new_state(action.newstate)
    /\ pc = "act"
    /\ IF action.k = "start"
       THEN nsarg' = action.s /\ nssite' = "act" /\ pc' = "ns_hook" /\ UNCHANGED action
       ELSE pc' = "outer" /\ action' = NoTask /\ UNCHANGED <<nsarg, nssite>>
    /\ UNCHANGED <<obj, outer, loops, ret, bret, rsn, site, cfn, fresh, seen>>

Upd ==     \* self._update_attributes(action.kwds)       (kwds always contain 'cleanup')
    /\ pc = "upd"
    /\ attrs' = Merge(attrs, action.kw)
    /\ cleanup' = action.c
    /\ action' = NoTask /\ pc' = "outer"
    /\ UNCHANGED <<transition, statefunc, init, next_task, cleanup_reason, outer, loops, ret, bret, rsn, site, cfn,
                   nsarg, nssite, fresh, seen>>

Silent == \/ Outer \/ Loop \/ ChkIntr \/ IntrArg \/ AfterCall \/ ClReason \/ ClChk \/ ClTake
          \/ ChkRet \/ TmRet \/ Fin \/ NsNoHook \/ NsInit \/ NsSf \/ ChkTask \/ Pop \/ ClrReason \/ Act \/ Upd

CycleStep == \/ CycleBegin \/ Silent \/ NsHook
             \/ \E b \in StateBeh : Call(b)
             \/ \E b \in CleanupBeh : ClCall(b)

Next == CycleStep \/ \E task \in Posts : Post(task)

Spec == Init /\ [][Next]_vars
FairSpec == Spec /\ WF_vars(CycleStep /\ pc # "idle")

(* ================================================================ properties ==== *)
PCs == {"idle", "outer", "loop", "chk_intr", "intr_arg", "call", "after_call", "cl_reason", "cl_chk",
        "cl_take", "cl_call", "chk_ret", "tm_ret", "fin", "ns_hook", "ns_init", "ns_sf", "chk_task",
        "pop", "clr_reason", "act", "upd"}
T1 == pc' # pc     \* a step of the cycle thread (every one of its steps moves pc)
InCleanupFn == pc \in {"cl_reason", "cl_chk", "cl_take", "cl_call"}

TypeOK == /\ statefunc \in States \cup {NoneS} /\ init \in BOOLEAN
          /\ next_task \in Posts \cup {NoTask}
          /\ cleanup \in Cleanups /\ cleanup_reason \in {NoneS, "start", "stop", "error"}
          /\ attrs \in [Keys -> Vals \cup {Absent, InitVal}] /\ pc \in PCs /\ transition \in {"given", "none"}

(* one cycle is bounded: both loops are bounded, cycle() has no exit by exception     *)
(* ("raised" is not a label); termination itself is the temporal property CycleEnds   *)
CycleBounded == loops \in 0 .. MaxLoops /\ outer \in 0 .. 2 /\ pc # "raised"
CycleEnds == (pc # "idle") ~> (pc = "idle")

(* the first call after a transition - and only that - sees init *)
InitFlag == pc = "call" => (init = fresh)

(* --- exactly-once cleanup, cleanup sequence not interrupted / restarted --- *)
Cleaning == cleanup_reason # NoneS
(* at most once: while a cleanup reason stands and _cleanup has returned, the function is consumed *)
CleanupAtMostOnce == (Cleaning /\ ~InCleanupFn) => cleanup = NoneS
(* the cleanup function is only ever called for an interruption *)
CleanupOnlyWhenInterrupted == pc \in {"cl_chk", "cl_take", "cl_call"} => Cleaning
(* at least once: a cleanup function disappears only by being taken for its call, or by a new start *)
CleanupConsumedByCall == [][(cleanup # NoneS /\ cleanup' = NoneS) => pc \in {"cl_take", "upd"}]_vars
TakenIsCalled == (cfn # NoneS) <=> (pc = "cl_call")
(* a run that ends while interrupted has consumed its cleanup *)
InterruptedRunCleaned == [][(statefunc # NoneS /\ statefunc' = NoneS /\ Cleaning) => cleanup = NoneS]_vars
(* the reason stands until the machine is inactive and the next task is taken *)
ReasonStable == [][(Cleaning /\ cleanup_reason' # cleanup_reason) =>
                      (cleanup_reason' = NoneS /\ statefunc = NoneS /\ pc = "clr_reason")]_vars
(* a task is picked up only by an inactive machine: a cleanup sequence is never cut short *)
PopOnlyInactive == pc \in {"pop", "clr_reason", "act"} => statefunc = NoneS
(* during the cleanup sequence the only way out of a state is its own return value or an error *)
NoInterruptWhileCleaning == pc = "intr_arg" => ~Cleaning

(* --- stop --- *)
(* a task that was pending when a cycle began is, when that cycle ends, either taken or *)
(* waiting for a cleanup sequence in progress                                          *)
TaskTakenOrCleaning == (pc = "idle" /\ next_task.k # "none" /\ seen) => (statefunc # NoneS /\ Cleaning)
StopInactive == [][(T1 /\ pc = "act" /\ action.k = "stop") => (statefunc = NoneS /\ statefunc' = NoneS)]_vars
OnlyStartActivates == [][(statefunc = NoneS /\ statefunc' # NoneS) =>
                            (pc = "ns_sf" /\ nssite = "act" /\ action.k = "start")]_vars

(* --- last start wins --- *)
(* a pending task is replaced only by a newer request or moved as a whole into `action` *)
NoLostTask == [][(next_task.k # "none" /\ next_task' # next_task) =>
                    (next_task'.k # "none" \/ (pc = "pop" /\ action' = next_task))]_vars
(* the state entered and the attributes applied are those of the task taken *)
EnterRequested == [][(T1 /\ pc = "ns_sf" /\ nssite = "act") => (statefunc' = action.s /\ action.k = "start")]_vars
AttrsOfRequested == [][(T1 /\ pc = "upd") => (/\ statefunc = action.s
                                        /\ \A key \in Keys : attrs'[key] = (IF action.kw[key] # Absent THEN action.kw[key]
                                                                              ELSE attrs[key])
                                        /\ cleanup' = action.c)]_vars
(* attributes of a request are never applied early (before the old run's cleanup finished) *)
AttrsOnlyAtEntry == [][(attrs' # attrs \/ (cleanup' # cleanup /\ cleanup' # NoneS)) => pc = "upd"]_vars
=============================================================================
