------------------------ MODULE Trace_LinkedFloatEnum ------------------------
(* code -> spec: recorded executions of real modules with a FloatEnumParam.   *)
(* Event 1 carries table name, shape and the initial observation - either     *)
(* after the start-up write/poll or of a freshly constructed module           *)
(* (before any update of the index).  Observed per event: idx, hw, val (the   *)
(* module attribute), vidx / vval (client's view of the update stream, -1 =   *)
(* nothing delivered yet), rep (value replied / returned, -1 = refused), req  *)
(* (index last requested from the driver's write method, -1 = none so far),   *)
(* and pval: what a client read of the float shows afterwards (-2 = the       *)
(* harness did not ask; asking is a ReadFloat, which changes nothing).        *)
EXTENDS LinkedFloatEnum, Json, IOUtils, TLCExt, Sequences
Traces == JsonDeserialize(IOEnv.TRACE_FILE)
NT == Len(Traces)
VARIABLES t, l
ASSUME \A i \in 1 .. NT : TLCSet(i, 1)
Ev == Traces[t][l]

(* everything a client or the driver can see shows the value of the current index *)
Shown(e, i, v) == /\ e.idx = i /\ e.val = v
                  /\ e.vidx \in {i, 0 - 1} /\ e.vval \in {v, 0 - 1}
                  /\ e.pval \in {v, 0 - 2}

TInit == /\ t \in 1 .. NT /\ l = 2
         /\ LET e == Traces[t][1] IN
              /\ tab = e.tab /\ shape = e.shape /\ mode = e.mode /\ req = 0 - 1
              /\ e.mode \in {"echo", "none", "clamp", "raise", "crash"} /\ e.cap = Cap
              /\ e.tab \in TableNames
              /\ idx = e.idx /\ hw = e.hw /\ val = Tab(e.tab)[e.idx] /\ last = "ok"
              /\ Shown(e, idx, val)

TStep ==
  /\ l <= Len(Traces[t])
  /\ l' = l + 1 /\ t' = t
  /\ idx' = Ev.idx /\ hw' = Ev.hw /\ req' = Ev.req /\ val' = Ev.val /\ last' = Ev.last
  /\ \/ Ev.ev = "wf" /\ WriteFloat(Ev.x) /\ Ev.rep = (IF last' = "ok" THEN val' ELSE 0 - 1)
     \/ Ev.ev = "wi" /\ WriteIdx(Ev.i) /\ Ev.rep = (IF last' = "ok" THEN idx' ELSE 0 - 1)
     \/ Ev.ev = "ai" /\ AssignIdx(Ev.i)
     \/ Ev.ev = "ri" /\ ReadIdx /\ Ev.rep = idx'
     \/ Ev.ev = "rf" /\ ReadFloat /\ Ev.rep = val'
  /\ Shown(Ev, idx', val')
  /\ ShowsIndexValue'
  /\ (last' = "ok" /\ idx' # idx) => (Ev.vidx = idx' /\ Ev.vval = val')   \* a change is delivered

TSpec == TInit /\ [][TStep]_<<fvars, t, l>>
Track == TLCSet(t, IF l > TLCGet(t) THEN l ELSE TLCGet(t))
Verdicts == \A i \in 1 .. NT :
   IF TLCGet(i) = Len(Traces[i]) + 1 THEN PrintT(<<"ACCEPT", i>>)
   ELSE PrintT(<<"REJECT", i, TLCGet(i), "event not explained by LinkedFloatEnum">>)
=============================================================================
