---------------------------- MODULE PersistentConc ----------------------------
(* C17, concurrent variant.  Several threads of one module save the persistent   *)
(* parameters: automatically after assigning a parameter (persistent = auto) or  *)
(* by an explicit saveParameters().  Every save of a module uses the SAME temp   *)
(* file: serialise the current values, open tmp (truncates), write*, close,      *)
(* rename tmp -> target, remove tmp.                                             *)
(*   Locked = TRUE : a save (serialise .. remove) is one critical section         *)
(*   Locked = FALSE: saves interleave freely                                      *)
(* Demanded (property text: "the file on disk is always a complete snapshot,      *)
(* never a partial or empty file"): after every file-system step the target is    *)
(* absent or a complete snapshot of the values at SOME moment (FileIsSnapshot),   *)
(* and when all threads are done the last values are on disk (QuiescentSaved).    *)
EXTENDS Naturals, FiniteSets, TLC

CONSTANTS Threads,      \* thread ids
          Params,       \* persistent parameters
          Vals,         \* values
          NChunks,      \* write operations per save
          MaxAssign,    \* assignments per thread
          Locked        \* BOOLEAN

Snapshot == [Params -> Vals]
Absent == [k |-> "absent"]
Partial(S, n) == [k |-> "partial", snap |-> S, n |-> n]
Complete(S) == [k |-> "complete", snap |-> S]

VARIABLES val,       \* current values
          target, tmp,
          believed,  \* persistentData
          pc,        \* per thread: "idle" | "ser" | "open" | "write" | "close" | "rename" | "remove" | "done"
          data,      \* per thread: the snapshot it serialised
          wr,        \* per thread: chunks written so far
          left,      \* per thread: assignments left
          lock       \* holder of the save lock (or "none")

vars == <<val, target, tmp, believed, pc, data, wr, left, lock>>
V0 == [p \in Params |-> CHOOSE v \in Vals : \A w \in Vals : v <= w]

Init == /\ val = V0 /\ target = Complete(V0) /\ tmp = Absent /\ believed = V0
        /\ pc = [t \in Threads |-> "idle"] /\ data = [t \in Threads |-> V0]
        /\ wr = [t \in Threads |-> 0] /\ left = [t \in Threads |-> MaxAssign] /\ lock = "none"

MayEnter(t) == ~Locked \/ lock = "none"

(* a thread assigns a parameter (auto save follows) or calls saveParameters() *)
Assign(t, p, v) == /\ pc[t] = "idle" /\ left[t] > 0 /\ v # val[p] /\ MayEnter(t)
                   /\ val' = [val EXCEPT ![p] = v]
                   /\ left' = [left EXCEPT ![t] = @ - 1]
                   /\ pc' = [pc EXCEPT ![t] = "ser"]
                   /\ lock' = IF Locked THEN t ELSE lock
                   /\ UNCHANGED <<target, tmp, believed, data, wr>>
Explicit(t) == /\ pc[t] = "idle" /\ left[t] > 0 /\ MayEnter(t)
               /\ left' = [left EXCEPT ![t] = @ - 1]
               /\ pc' = [pc EXCEPT ![t] = "ser"]
               /\ lock' = IF Locked THEN t ELSE lock
               /\ UNCHANGED <<val, target, tmp, believed, data, wr>>
Leave(t) == /\ pc' = [pc EXCEPT ![t] = "idle"] /\ lock' = IF Locked THEN "none" ELSE lock

Serialise(t) == /\ pc[t] = "ser"
                /\ data' = [data EXCEPT ![t] = val]
                /\ IF val = believed THEN Leave(t) ELSE pc' = [pc EXCEPT ![t] = "open"] /\ UNCHANGED lock
                /\ UNCHANGED <<val, target, tmp, believed, wr, left>>
Open(t) == /\ pc[t] = "open"
           /\ tmp' = Partial(data[t], 0) /\ wr' = [wr EXCEPT ![t] = 0]
           /\ pc' = [pc EXCEPT ![t] = "write"]
           /\ UNCHANGED <<val, target, believed, data, left, lock>>
(* a write goes to whatever the temp file is now (an unlinked / renamed file swallows it) *)
Write(t) == /\ pc[t] = "write"
            /\ wr' = [wr EXCEPT ![t] = @ + 1]
            /\ tmp' = IF tmp.k = "partial" /\ tmp.snap = data[t] /\ tmp.n = wr[t]
                      THEN (IF wr[t] + 1 = NChunks THEN Complete(data[t]) ELSE Partial(data[t], wr[t] + 1))
                      ELSE tmp
            /\ pc' = [pc EXCEPT ![t] = IF wr[t] + 1 = NChunks THEN "close" ELSE "write"]
            /\ UNCHANGED <<val, target, believed, data, left, lock>>
Close(t) == /\ pc[t] = "close" /\ pc' = [pc EXCEPT ![t] = "rename"]
            /\ UNCHANGED <<val, target, tmp, believed, data, wr, left, lock>>
Rename(t) == /\ pc[t] = "rename"
             /\ IF tmp = Absent
                THEN /\ pc' = [pc EXCEPT ![t] = "remove"]          \* FileNotFoundError: the save fails
                     /\ UNCHANGED <<target, tmp, believed>>
                ELSE /\ target' = tmp /\ tmp' = Absent /\ believed' = data[t]
                     /\ pc' = [pc EXCEPT ![t] = "remove"]
             /\ UNCHANGED <<val, data, wr, left, lock>>
Remove(t) == /\ pc[t] = "remove"
             /\ tmp' = Absent
             /\ Leave(t)
             /\ UNCHANGED <<val, target, believed, data, wr, left>>

Next == \E t \in Threads :
          \/ \E p \in Params, v \in Vals : Assign(t, p, v)
          \/ Explicit(t)
          \/ Serialise(t) \/ Open(t) \/ Write(t) \/ Close(t) \/ Rename(t) \/ Remove(t)
Spec == Init /\ [][Next]_vars

(* ---- properties ---- *)
FileIsSnapshot == target.k # "partial"
Quiet == \A t \in Threads : pc[t] = "idle"
QuiescentSaved == Quiet => target = Complete(val)
(* shared with the trace specification: what may be seen on disk after a file-system step *)
SnapshotOK(cls, seen) == cls = "absent" \/ cls \in seen
=============================================================================
