SPECIFICATION TSpec
CONSTANTS
  MaxDay = 100
  Retentions = {0}
  StartDay = 1
CONSTRAINT Track
INVARIANT CurrentExists
POSTCONDITION Verdicts
CHECK_DEADLOCK FALSE
