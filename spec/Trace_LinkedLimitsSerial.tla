---------------------- MODULE Trace_LinkedLimitsSerial ----------------------
(* code -> spec: two threads writing p and its limit parameters on ONE real   *)
(* module (through the real dispatcher or by calling write_<p> directly)      *)
(* under the deterministic scheduler, every source line of modulebase.py a    *)
(* possible preemption point.  Event 1: threads and start limits.  "call" /   *)
(* "ret": a thread enters / leaves a write, "emit": an update announced by    *)
(* the module, "end": the caches after all threads have finished.             *)
EXTENDS LinkedLimitsSerial, Json, IOUtils, TLCExt, SequencesExt
Traces == JsonDeserialize(IOEnv.TRACE_FILE)
NT == Len(Traces)
VARIABLES t, l
ASSUME \A i \in 1 .. NT : TLCSet(i, 1)
Ev == Traces[t][l]
TInit == t \in 1 .. NT /\ l = 2 /\ SInit(ToSet(Traces[t][1].threads), Traces[t][1].lo, Traces[t][1].hi)
TStep ==
  /\ l <= Len(Traces[t])
  /\ l' = l + 1 /\ t' = t
  /\ \/ Ev.ev = "call" /\ Call(Ev.th, Ev.job)
     \/ Ev.ev = "emit" /\ Announce(Ev.th, Ev.p, Ev.v)
     \/ Ev.ev = "ret" /\ Return(Ev.th, Ev.ok)
     \/ /\ Ev.ev = "end" /\ Idle
        /\ Ev.lo = lo /\ Ev.hi = hi /\ Ev.val = val
        /\ UNCHANGED svars
TSpec == TInit /\ [][TStep]_<<svars, t, l>>
Track == TLCSet(t, IF l > TLCGet(t) THEN l ELSE TLCGet(t))
Verdicts == \A i \in 1 .. NT :
   IF TLCGet(i) = Len(Traces[i]) + 1 THEN PrintT(<<"ACCEPT", i>>)
   ELSE PrintT(<<"REJECT", i, TLCGet(i), "event not allowed by LinkedLimitsSerial">>)
=============================================================================
