-------------------------- MODULE Gen_StateMachine --------------------------
(* spec -> code.  Sequential configuration: operations start / stop / cycle, a cycle   *)
(* runs to completion.  `calls` collects the calls made inside the running cycle (state *)
(* functions with the init flag they see and the behaviour chosen, cleanup function,    *)
(* transition hook); `hist` gets one entry per completed operation with the expected    *)
(* abstract state.  The choices made at the calls ARE the program table                 *)
(* (function, call index) -> behaviour that the replay driver implements with closures. *)
EXTENDS StateMachine, Json, Integers
CONSTANTS Depth,      \* operations per behaviour
          MaxCalls,   \* state function + cleanup calls per behaviour
          MaxLevel
VARIABLES hist, calls, ncalls

gvars == <<vars, hist, calls, ncalls>>

Alpha == [statefunc |-> statefunc', init |-> init', task |-> next_task',
          cleanup_none |-> (cleanup' = NoneS), reason |-> cleanup_reason', attrs |-> attrs']

AlphaNow == [statefunc |-> statefunc, init |-> init, task |-> next_task,
             cleanup_none |-> (cleanup = NoneS), reason |-> cleanup_reason, attrs |-> attrs]
(* construction: plain (transition callback given), or - one representative each - with an attribute and a first   *)
(* state but WITHOUT transition callback / with an attribute, a cleanup function and the callback;                 *)
(* a non-plain construction counts as the first operation of the behaviour                                       *)
GInit == /\ Init /\ calls = <<>> /\ ncalls = 0
         /\ \/ attrs = NoKw /\ next_task = NoTask /\ cleanup = NoneS /\ transition = "given" /\ hist = <<>>
            \/ /\ \/ attrs["x"] # Absent /\ next_task # NoTask /\ cleanup = NoneS /\ transition = "none"
                  \/ attrs["y"] # Absent /\ next_task = NoTask /\ cleanup # NoneS /\ transition = "given"
               /\ hist = <<[act |-> "new", s |-> next_task.s, kw |-> attrs, c |-> cleanup,
                            hook |-> (transition = "given"), exp |-> AlphaNow]>>

(* the n-th start request carries x = n (all requests distinguishable) and y only when n is odd *)
NStarts == Len(SelectSeq(hist, LAMBDA h : h.act = "start"))
GenKw == [key \in Keys |-> IF key = "x" THEN ToString(NStarts + 1)
                          ELSE IF NStarts % 2 = 0 THEN "1" ELSE Absent]
GenPosts == {StopTask} \cup {StartTask(s, GenKw, c) : s \in StartStates, c \in Cleanups}

Log(e) == calls' = Append(calls, e)

GNext ==
  \/ \E task \in GenPosts :
        /\ Post(task)
        /\ hist' = Append(hist, [act |-> task.k, s |-> task.s, kw |-> task.kw, c |-> task.c, exp |-> Alpha])
        /\ UNCHANGED <<calls, ncalls>>
  \/ /\ \/ CycleBegin /\ calls' = <<>> /\ UNCHANGED ncalls
        \/ \E b \in StateBeh : Call(b) /\ Log([ev |-> "call", fn |-> statefunc, init |-> init, b |-> b])
                                       /\ ncalls' = ncalls + 1
        \/ \E b \in CleanupBeh : ClCall(b) /\ Log([ev |-> "cleanup", reason |-> cleanup_reason, b |-> b])
                                           /\ ncalls' = ncalls + 1
        \/ NsHook /\ Log([ev |-> "hook", to |-> nsarg]) /\ UNCHANGED ncalls
        \/ Silent /\ UNCHANGED <<calls, ncalls>>
     /\ IF pc' = "idle" THEN hist' = Append(hist, [act |-> "cycle", calls |-> calls', exp |-> Alpha])
                        ELSE UNCHANGED hist

GSpec == GInit /\ [][GNext]_gvars

Bound == /\ TLCGet("level") <= MaxLevel
         /\ Len(hist) + (IF pc = "idle" THEN 0 ELSE 1) <= Depth
         /\ ncalls <= MaxCalls
         \* three requests in a row add nothing over two (the second already overrides the first)
         /\ \A i \in 1 .. Len(hist) - 2 : \E j \in i .. i + 2 : hist[j].act = "cycle"

(* history formulations of the property, evaluated on every enumerated behaviour *)
StateCalls(cs) == Len(SelectSeq(cs, LAMBDA e : e.ev = "call"))
H_CycleBounded == /\ StateCalls(calls) <= 2 * MaxLoops
                  /\ Len(SelectSeq(calls, LAMBDA e : e.ev = "cleanup")) <= 2
(* within a cycle: a call sees init iff the previous logged event is a transition (hook),  *)
(* or (first call of the cycle) the previous cycle did not end with a call of the same run *)
H_InitFlag == transition = "given" => \A i \in 2 .. Len(calls) :
                 calls[i].ev = "call" => (calls[i].init <=> calls[i - 1].ev = "hook")
(* between two cleanup calls there is the entry into a requested state (a new run) *)
H_CleanupOnce == transition = "given" => \A i, j \in 1 .. Len(calls) :
                    (i < j /\ calls[i].ev = "cleanup" /\ calls[j].ev = "cleanup") =>
                       \E m \in i + 1 .. j - 1 : calls[m].ev = "hook" /\ calls[m].to # NoneS
                                                 /\ \E n \in i + 1 .. m - 1 : calls[n].ev = "hook" /\ calls[n].to = NoneS

Emit1 == (pc = "idle" /\ Len(hist) = Depth /\ Bound) => PrintT(<<"BEH", ToJson(hist)>>)
=============================================================================
