SPECIFICATION DSpec
CONSTANTS
  Atomic = TRUE
  Orders = {"busy_first", "start_first"}
INVARIANT DTypeOK
INVARIANT BusyWhileRunning
INVARIANT QuiescentNotBusy
CHECK_DEADLOCK FALSE
