SPECIFICATION Spec
CONSTANTS
  Threads = {"a", "b", "w"}
  Script <- Scen_reuse
  InitEv <- Init_one
  MaxTime = 3
  Inf = 99
  RaisingActs = {}
  FixLock = TRUE
  FixInit = TRUE
  FixIsSet = TRUE
  DetTime = FALSE
  Locked = FALSE
INVARIANT FlagConsistent
CHECK_DEADLOCK FALSE
