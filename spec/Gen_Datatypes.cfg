SPECIFICATION Spec
CONSTANTS
  Tier <- GTier
  Shard <- GShard
  NShards <- GNShards
INVARIANT Emit
CHECK_DEADLOCK FALSE
