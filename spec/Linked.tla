-------------------------------- MODULE Linked --------------------------------
(* C18 - linked parameters stay mutually consistent.  Composition root of the  *)
(* four sub-modules (DESIGN.md section 5, C18); each of them is model-checked, *)
(* enumerated (Gen_X) and used for trace validation (Trace_X) on its own,      *)
(* because the four mechanisms share no state:                                 *)
(*   LinkedStruct     struct parameter <-> member parameters                   *)
(*   LinkedFloatEnum  float parameter bound to an enumerated index             *)
(*   LinkedLimits     <p>_min / <p>_max / <p>_limits                           *)
(*   LinkedControl    control hand-over between inputs and one output          *)
(* This module only states the conjunction (for Node.tla); a module that uses  *)
(* several convenience parameter kinds behaves as the interleaving.            *)
CONSTANTS Members, Vals, HwMax, HwModes, Excs,                \* LinkedStruct
          Tables, Shapes, Modes, Xs,                  \* LinkedFloatEnum
          Kinds, Lo, Hi, PVals, LVals, ForbSets, HookExcs, Inits,\* LinkedLimits
          Layouts, CExcs                        \* LinkedControl
VARIABLES hwmode, exc, shw, mem, str, merr, serr, sok,
          tab, shape, mode, idx, fhw, req, fval, flast,
          kind, forb, hexc, lo, hi, lval, llast,
          lay, cexc, active, cby, foreign

S == INSTANCE LinkedStruct WITH hw <- shw, ok <- sok
F == INSTANCE LinkedFloatEnum WITH tab <- tab, shape <- shape, mode <- mode, idx <- idx, hw <- fhw, req <- req,
                                val <- fval, last <- flast, Tables <- Tables, Shapes <- Shapes, Modes <- Modes, Xs <- Xs
L == INSTANCE LinkedLimits WITH val <- lval, last <- llast
C == INSTANCE LinkedControl WITH Excs <- CExcs, exc <- cexc

sv == <<hwmode, exc, shw, mem, str, merr, serr, sok>>
fv == <<tab, shape, mode, idx, fhw, req, fval, flast>>
lv == <<kind, forb, hexc, lo, hi, lval, llast>>
cv == <<lay, cexc, active, cby, foreign>>

Init == S!SInit /\ F!FInit /\ L!LInit /\ C!CInit
Next == \/ S!SNext /\ UNCHANGED <<fv, lv, cv>>
        \/ F!FNext /\ UNCHANGED <<sv, lv, cv>>
        \/ L!LNext /\ UNCHANGED <<sv, fv, cv>>
        \/ C!CNext /\ UNCHANGED <<sv, fv, lv>>
Spec == Init /\ [][Next]_<<sv, fv, lv, cv>>

Consistent == /\ S!AgreeShown
              /\ F!ShowsIndexValue
              /\ C!AtMostOne /\ C!NamesTheActive /\ C!ForeignIntact
ControlFrame == C!HandOver /\ C!Frame
LimitsRespected == L!AcceptedInside /\ L!InvertedTupleRefused /\ L!NothingUnderInverted
===============================================================================
