SPECIFICATION TSpec
CONSTANTS
  Conns = {"c1", "c2", "c3"}
  Mods = {"m1", "m2"}
  Used = {"debug", "comlog", "info", "warning", "error", "off"}
CONSTRAINT Track
INVARIANT TypeOK
INVARIANT DeadSilent
INVARIANT ExactRouting
POSTCONDITION Verdicts
CHECK_DEADLOCK FALSE
