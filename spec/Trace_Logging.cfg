SPECIFICATION TSpec
CONSTANTS
  Conns = {"c1", "c2", "c3"}
  Mods = {"m1", "m2"}
  Used = {"debug", "comlog", "info", "warning", "error", "off"}
  ComMods = {"m1"}
  Configs <- CfgAll
  MaxDay = 4
CONSTRAINT Track
INVARIANT TypeOK
INVARIANT DeadSilent
INVARIANT ExactRouting
INVARIANT Done
POSTCONDITION Verdicts
CHECK_DEADLOCK FALSE
