SPECIFICATION Spec
CONSTANTS
  Threads = {"a", "b", "w"}
  Script <- Scen_server_late
  InitEv <- Init_server
  MaxTime = 4
  Inf = 99
  RaisingActs = {}
  FixLock = FALSE
  FixInit = TRUE
  FixIsSet = TRUE
  DetTime = FALSE
  Locked = TRUE
INVARIANT NoError
CHECK_DEADLOCK FALSE
