SPECIFICATION GSpec
CONSTANTS
  Tables = {"gap3"}
  Shapes = {"rw", "w"}
  Xs = {0, 1, 2, 3, 4, 5, 6, 7, 8}
  XW = {2}
  WPos = {0}
  APos = {2}
  Reads = {"ri"}
  Depth = 7
CONSTRAINT Bound
INVARIANT Emit1
CHECK_DEADLOCK FALSE
