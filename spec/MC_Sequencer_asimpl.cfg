\* documents the finding X02-stop-during-wait at design level: EXPECTED TO FAIL StopNoNewStep
SPECIFICATION AsImplSpec
CONSTANTS
  Kinds = {"d", "ad"}
  MaxLen = 2
  Hooks = {"none"}
  FaultModes = {"ww"}
ACTION_CONSTRAINT StartWhenPolled
PROPERTY StopNoNewStep
CHECK_DEADLOCK FALSE
