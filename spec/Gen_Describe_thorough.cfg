SPECIFICATION GSpec
CONSTANTS
  Families = {"A", "B", "C1", "C2"}
CHECK_DEADLOCK FALSE
