SPECIFICATION GSpec
CONSTANTS
  Families = {"A", "B", "C1", "C2", "E", "K", "R"}
CHECK_DEADLOCK FALSE
