SPECIFICATION Spec
CONSTANTS
  Families = {"C1"}
INVARIANT CacheInDatainfo
PROPERTY DriverOnlyIfAllowed
PROPERTY ErrorLeavesNoTrace
PROPERTY ValidIsServed
PROPERTY Frame
CHECK_DEADLOCK FALSE
